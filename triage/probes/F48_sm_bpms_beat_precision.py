"""F48 (C03): #BPMS / #STOPS beats written with round(beat, 2).
Run:  cd /repo && /venv/bin/python /verif/triage/probes/F48_sm_bpms_beat_precision.py   (pinned tree: second hit read back at 4484.0 ms)"""
import warnings
warnings.simplefilter("ignore")
from reamber.sm import SMMapSet, SMMap
from reamber.sm.SMBpm import SMBpm
from reamber.sm.SMHit import SMHit
from reamber.sm.lists.SMBpmList import SMBpmList
from reamber.sm.lists.notes import SMHitList
m = SMMap()
m.bpms = SMBpmList([SMBpm(0.0, 60.0), SMBpm(2125.0, 200.0)])          # tempo change at beat 2.125
m.hits = SMHitList([SMHit(0.0, 0), SMHit(2125.0 + 300.0 * 7.875, 1)])    # beat 10 = 4487.5 ms
ms = SMMapSet(); ms.maps = [m]; ms.offset = 0.0
back = SMMapSet.read(ms.write())[0].hits.offset.tolist()
print(back)
assert abs(back[1] - 4487.5) <= 3.125, f"second hit {back[1]} ms, more than 1/96 beat (3.125 ms at 200 bpm) from 4487.5"
print("ok")
