"""Demo for the full_ln refactoring (per-column loop).

Builds a broad, deterministic set of charts (all formats, sorted / shuffled /
reversed / appended / concatenated row orders, ties, empties, odd gaps) and
hashes every result of full_ln together with the untouched input.
"""
import hashlib
import random
import warnings

import numpy as np
import pandas as pd

from reamber.algorithms.generate import full_ln
from reamber.base.Map import Map
from reamber.base.lists.notes.HitList import HitList
from reamber.base.lists.notes.HoldList import HoldList
from reamber.bms import BMSMap, BMSHit, BMSHold
from reamber.bms.lists.notes import BMSHitList, BMSHoldList
from reamber.o2jam import O2JMap, O2JHit, O2JHold
from reamber.o2jam.lists.notes import O2JHitList, O2JHoldList
from reamber.osu import OsuMap, OsuHit, OsuHold
from reamber.osu.lists.notes import OsuHitList, OsuHoldList
from reamber.quaver import QuaMap, QuaHit, QuaHold
from reamber.quaver.lists.notes import QuaHitList, QuaHoldList
from reamber.sm import SMMap, SMHit, SMHold, SMMine, SMRoll, SMFake
from reamber.sm.lists.notes import (
    SMHitList, SMHoldList, SMMineList, SMRollList, SMFakeList,
)

random.seed(1215_1)
OUT = []


def emit(*a):
    OUT.append(" ".join(str(x) for x in a))


def dump_df(tag, df):
    emit(tag, "cols", list(df.columns))
    emit(tag, "dtypes", [str(t) for t in df.dtypes])
    emit(tag, "index", type(df.index).__name__, df.index.tolist())
    for row in df.to_numpy(dtype=object).tolist():
        emit(tag, "row", [(type(v).__name__, repr(v)) for v in row])


def dump_map(tag, m):
    emit(tag, type(m).__name__)
    for k, v in m.objs.items():
        dump_df(f"{tag}.{k}:{type(v).__name__}", v.df)


KINDS = {
    "osu": (OsuMap, OsuHitList, OsuHoldList,
            lambda o, c: OsuHit(o, c), lambda o, c, l: OsuHold(o, c, l)),
    "qua": (QuaMap, QuaHitList, QuaHoldList,
            lambda o, c: QuaHit(o, c, []), lambda o, c, l: QuaHold(o, c, l, [])),
    "sm": (SMMap, SMHitList, SMHoldList,
           lambda o, c: SMHit(o, c), lambda o, c, l: SMHold(o, c, l)),
    "bms": (BMSMap, BMSHitList, BMSHoldList,
            lambda o, c: BMSHit(o, c, b"0A"), lambda o, c, l: BMSHold(o, c, l, b"0B")),
    "o2j": (O2JMap, O2JHitList, O2JHoldList,
            lambda o, c: O2JHit(o, c), lambda o, c, l: O2JHold(o, c, l)),
}


def gen_rows(n_hit, n_hold, keys, as_float, grid):
    def off():
        v = random.choice(grid)
        return float(v) + random.choice([0.0, 0.5, 0.25]) if as_float else int(v)

    def ln():
        v = random.choice([0, 1, 50, 99, 100, 101, 249, 250, 251, 400, 1000, -30])
        return float(v) if as_float else int(v)

    hits = [(off(), random.randrange(keys)) for _ in range(n_hit)]
    holds = [(off(), random.randrange(keys), ln()) for _ in range(n_hold)]
    return hits, holds


def order(rows, mode):
    rows = list(rows)
    if mode == "sorted":
        rows.sort(key=lambda r: r[0])
    elif mode == "reversed":
        rows.sort(key=lambda r: r[0], reverse=True)
    elif mode == "shuffled":
        random.shuffle(rows)
    return rows


def build(kind, hits, holds, mode):
    Mp, HL, OL, mk_hit, mk_hold = KINDS[kind]
    m = Mp()
    if mode == "append":
        # append without sort, one by one half of them, rest in the constructor
        h0, h1 = hits[: len(hits) // 2], hits[len(hits) // 2:]
        o0, o1 = holds[: len(holds) // 2], holds[len(holds) // 2:]
        hl = HL([mk_hit(*r) for r in h1])
        for r in h0:
            hl = hl.append(mk_hit(*r))
        ol = OL([mk_hold(*r) for r in o1])
        for r in o0:
            ol = ol.append(mk_hold(*r))
    elif mode == "concat":
        a = HL([mk_hit(*r) for r in order(hits, "reversed")])
        b = HL([mk_hit(*r) for r in hits[::2]])
        hl = a.append(b)
        a = OL([mk_hold(*r) for r in order(holds, "sorted")])
        b = OL([mk_hold(*r) for r in holds[1::2]])
        ol = b.append(a)
    else:
        hl = HL([mk_hit(*r) for r in order(hits, mode)])
        ol = OL([mk_hold(*r) for r in order(holds, mode)])
    m.hits = hl
    m.holds = ol
    return m


def run(tag, m, gap, thres):
    before = m.deepcopy()
    with warnings.catch_warnings(record=True) as w:
        warnings.simplefilter("always")
        try:
            out = full_ln(m, gap, thres)
        except Exception as e:  # noqa
            emit(tag, "EXC", type(e).__name__)
            out = None
    emit(tag, "warnings", sorted({x.category.__name__ for x in w}))
    if out is not None:
        emit(tag, "same-object", out is m)
        dump_map(tag + ".out", out)
    dump_map(tag + ".in-after", m)
    # the input must be what it was
    for k in m.objs:
        emit(tag, "in-unchanged", k, before.objs[k].df.equals(m.objs[k].df))


PARAMS = [(150, 100), (0, 0), (-50, 10), (75.5, 0.25), (1e9, 100), (150, -1e9),
          (150.0, 100.0), (np.float64(20), np.int64(30))]
GRIDS = [
    list(range(0, 3000, 125)),          # dense, many ties
    list(range(-1000, 20000, 250)),     # negative offsets too
    [0, 0, 0, 250, 250, 500],           # nearly everything ties
    [10 ** 9 + k * 249 for k in range(12)],
]

case = 0
for kind in KINDS:
    for mode in ["sorted", "shuffled", "reversed", "append", "concat"]:
        for as_float in (False, True):
            keys = random.choice([1, 4, 7, 10, 18])
            grid = random.choice(GRIDS)
            n_hit = random.choice([0, 1, 2, 7, 25])
            n_hold = random.choice([0, 1, 3, 12])
            hits, holds = gen_rows(n_hit, n_hold, keys, as_float, grid)
            m = build(kind, hits, holds, mode)
            for gap, thres in random.sample(PARAMS, 3):
                case += 1
                run(f"c{case}:{kind}:{mode}:{as_float}:{keys}:{gap}:{thres}", m, gap, thres)

# defaults for gap / threshold
m = build("osu", *gen_rows(20, 8, 4, False, GRIDS[0]), "shuffled")
with warnings.catch_warnings():
    warnings.simplefilter("ignore")
    dump_map("default", full_ln(m))

# hand made edge cases -----------------------------------------------------
# 1. completely empty maps of every kind
for kind in KINDS:
    run(f"empty:{kind}", KINDS[kind][0](), 150, 100)
run("empty:base", Map(), 150, 100)

# 2. base Map through from_dict, including the object-dtype empty column form
for ho, oo, ol in [([0, 250], [], []), ([], [0, 249], [100, 100]), ([250], [0], [100]),
                   ([0], [250], [100]), ([5, 5, 5], [5, 5], [1, 2]), ([], [], [])]:
    m = Map()
    m.hits = HitList.from_dict({"offset": ho})
    m.holds = HoldList.from_dict({"offset": oo, "length": ol})
    run(f"base:{ho}:{oo}:{ol}", m, 150, 100)

# 3. SM with the other hit-like / hold-like lists (mines, fakes, rolls)
for mode in ["sorted", "shuffled", "reversed"]:
    hits, holds = gen_rows(12, 6, 4, True, GRIDS[0])
    m = build("sm", hits, holds, mode)
    m.mines = SMMineList([SMMine(o, c) for o, c in order(gen_rows(5, 0, 4, True, GRIDS[0])[0], mode)])
    m.fakes = SMFakeList([SMFake(o, c) for o, c in order(gen_rows(3, 0, 4, True, GRIDS[0])[0], mode)])
    m.rolls = SMRollList([SMRoll(o, c, l) for o, c, l in order(gen_rows(0, 4, 4, True, GRIDS[0])[1], mode)])
    run(f"sm-all:{mode}", m, 150, 100)

# 4. ties of a hit and a hold on the same column and offset, both row orders
for flip in (False, True):
    m = OsuMap()
    h = [OsuHit(1000, 0), OsuHit(1000, 0), OsuHit(2000, 0)]
    o = [OsuHold(1000, 0, 500), OsuHold(2000, 0, 10), OsuHold(2000, 1, 0)]
    m.hits = OsuHitList(h[::-1] if flip else h)
    m.holds = OsuHoldList(o[::-1] if flip else o)
    run(f"tie:{flip}", m, 150, 100)

# 5. a single note, a single hold, zero and negative length, non finite offsets
singles = [
    ([(0, 0)], []), ([], [(0, 0, 300)]), ([], [(0, 0, 0)]), ([], [(0, 3, -20)]),
    ([(float("nan"), 0), (100.0, 0), (700.0, 0)], [(float("nan"), 0, 50.0)]),
    ([(float("inf"), 0), (float("inf"), 0), (0.0, 0)], [(float("-inf"), 0, 10.0), (float("-inf"), 0, 20.0)]),
    ([(0.0, 0), (400.0, 0)], [(100.0, 0, float("nan")), (900.0, 0, float("inf"))]),
]
for i, (hits, holds) in enumerate(singles):
    for kind in ("osu", "bms"):
        run(f"single{i}:{kind}", build(kind, hits, holds, "asis"), 150, 100)

# 6. frames handed in with a shuffled (non range) index and float columns
m = OsuMap()
hl = OsuHitList([OsuHit(o, c) for o, c in gen_rows(15, 0, 7, True, GRIDS[1])[0]])
hl.df = hl.df.sample(frac=1, random_state=3)
m.hits = hl
ol = OsuHoldList([OsuHold(o, c, l) for o, c, l in gen_rows(0, 9, 7, True, GRIDS[1])[1]])
ol.df = ol.df.sample(frac=1, random_state=4).astype({"column": float})
m.holds = ol
run("odd-index", m, 100, 50)

text = "\n".join(OUT)
import sys
print("LINES", len(OUT), "CASES", case, file=sys.stderr)
print("DIGEST", hashlib.sha256(text.encode()).hexdigest())
