"""Demo for change 1: OsuSampleSet.to_string / from_string and OsuSample.read_string.

Prints one line `DIGEST <hex>` over a canonical dump of every result.
"""
import copy
import hashlib
import random

import numpy as np
import pandas as pd

from reamber.osu.OsuMap import OsuMap
from reamber.osu.OsuSample import OsuSample
from reamber.osu.OsuSampleSet import OsuSampleSet
from reamber.osu.lists.OsuSampleList import OsuSampleList

random.seed(120101)
OUT = []


def emit(*parts):
    OUT.append(" | ".join(str(p) for p in parts))


def canon(v):
    if isinstance(v, pd.DataFrame):
        return (
            "DF cols=%r dtypes=%r index=%r rows=%r"
            % (
                list(v.columns),
                [str(t) for t in v.dtypes],
                list(v.index),
                [[canon(x) for x in row] for row in v.itertuples(index=False)],
            )
        )
    if isinstance(v, pd.Series):
        return "SER index=%r dtype=%s vals=%r" % (
            list(v.index),
            v.dtype,
            [canon(x) for x in v],
        )
    if isinstance(v, dict):
        return "{" + ", ".join(f"{k!r}: {canon(x)}" for k, x in v.items()) + "}"
    if isinstance(v, (list, tuple)):
        return type(v).__name__ + "[" + ", ".join(canon(x) for x in v) + "]"
    return f"{type(v).__name__}:{v!r}"


def attempt(label, fn, *args, **kwargs):
    try:
        r = fn(*args, **kwargs)
    except BaseException as e:  # noqa
        ctx = type(e.__context__).__name__ if e.__context__ is not None else None
        emit(label, "RAISED", type(e).__name__, repr(e.args), "ctx", ctx)
        return None
    emit(label, "OK", canon(r))
    return r


# ---------------------------------------------------------------- OsuSampleSet
emit("consts", OsuSampleSet.AUTO, OsuSampleSet.NORMAL, OsuSampleSet.SOFT, OsuSampleSet.DRUM)
to_inputs = (
    list(range(-6, 12))
    + [0.0, 1.0, 2.0, 3.0, -0.0, 0.5, 2.5, 3.0000001, float("nan"), float("inf")]
    + [True, False, None, "0", "1", "None", "", b"1", (1,), 1 + 0j]
    + [np.int64(0), np.int64(3), np.int32(2), np.int8(1), np.uint8(3), np.uint8(4)]
    + [np.float64(1.0), np.float32(2.0), np.float64(1.5), np.bool_(True), np.bool_(False)]
    + [random.randint(-1000, 1000) for _ in range(40)]
    + [random.choice([0, 1, 2, 3]) + random.choice([0, 0.0, 1e-9]) for _ in range(20)]
)
for x in to_inputs:
    attempt(f"to_string({x!r})", OsuSampleSet.to_string, x)

names = ["None", "Normal", "Soft", "Drum"]
from_inputs = (
    names
    + [n.lower() for n in names]
    + [n.upper() for n in names]
    + [" " + n for n in names]
    + [n + " " for n in names]
    + [n + "\r" for n in names]
    + ["", " ", "Invalid", "Auto", "AUTO", "0", "1", "2", "3", "Nono", "Normal,Soft"]
    + ["Нет", "ノーマル", "Drüm", "Soft:Drum"]
    + [None, 0, 1, 2, 3, 1.0, True, b"None", b"Soft", ("None",), ["Drum"]]
    + [np.str_("Soft"), np.str_("Drum"), np.str_("drum")]
)
for _ in range(40):
    base = random.choice(names)
    i = random.randrange(len(base) + 1)
    from_inputs.append(base[:i] + random.choice(["", "x", " ", base[i:i + 1]]) + base[i:])
for x in from_inputs:
    r = attempt(f"from_string({x!r})", OsuSampleSet.from_string, x)
    if r is not None:
        attempt(f"  round({x!r})", OsuSampleSet.to_string, r)


class StrSub(str):
    pass


attempt("from_string(StrSub Soft)", OsuSampleSet.from_string, StrSub("Soft"))
attempt("from_string(StrSub soft)", OsuSampleSet.from_string, StrSub("soft"))

# ------------------------------------------------------------------ OsuSample
files = [
    '"hit.wav"', '"a b c.ogg"', "raw.wav", '""', "", '"日本語 ファイル.wav"', '"C:\\dir\\x.wav"',
    '"a:b.wav"', '"ünï.wav"', '" lead.wav"', '"x.wav" ',
]
times = [0, -1, -5000, 1, 999, 12345678, 2 ** 31, -2 ** 31, "100.5", "-0.25", "1e3", "007", " 12", "12 "]
lines = []
for _ in range(60):
    t = random.choice(times + [random.randint(-10 ** 6, 10 ** 7) for _ in range(5)])
    f = random.choice(files)
    layer = random.choice([0, 1, 2, 3])
    form = random.random()
    if form < 0.45:
        lines.append(f"Sample,{t},{layer},{f},{random.choice([0, 1, 50, 70, 100, 101, -3])}")
    elif form < 0.75:
        lines.append(f"Sample,{t},{layer},{f}")
    elif form < 0.85:
        lines.append(f"Sample,{t},{layer},{f},{random.choice(['', ' 40', '40 ', '4.5', 'x', '1e2'])}")
    else:
        lines.append(f"Sample,{t},{layer},{f},{random.randint(0, 100)},extra,{random.randint(0, 9)}")
lines += [
    "", "Sample", "Sample,", "Sample,100", "Sample,abc", "Sample,100,0", "Sample,abc,0",
    "Sample,100,0,", "Sample,100,0,,", "Sample,,0,x.wav,10", "Sample,nan,0,x.wav,10",
    "Sample,inf,0,x.wav", "Sample,-inf,0,x.wav,5", 'Sample,10,0,"a,b.wav",50',
    'Sample,10,0,"a,b.wav"', "5,1,0,x.wav,33", ",,,,", ",,,", ",,", "Sample,1_000,0,f.wav,1_0",
    "Sample,١٢٣,0,f.wav,٤٥", "Sample,12,0,f.wav,٤٥.٠",
]
for s in lines:
    before = str(s)
    d = attempt(f"read_string dict {s!r}", OsuSample.read_string, s, True)
    d2 = attempt(f"read_string kw   {s!r}", OsuSample.read_string, s, as_dict=True)
    o = attempt(f"read_string obj  {s!r}", OsuSample.read_string, s)
    o2 = attempt(f"read_string obj2 {s!r}", OsuSample.read_string, s, False)
    assert s == before
    if o is not None:
        emit("  obj type", type(o).__name__, canon(o.data))
        w = attempt("  obj write_string", o.write_string)
        if w is not None:
            attempt("  reread written", OsuSample.read_string, w, True)

# -------------------------------------------------------------- OsuSampleList
good = []
for s in lines:
    try:
        OsuSample.read_string(s, True)
        good.append(s)
    except Exception:
        pass
emit("n good", len(good))
for n in [0, 1, 2, 3, 7, len(good)]:
    sub = good[:n] if n == len(good) else random.sample(good, n)
    keep = list(sub)
    sl = attempt(f"OsuSampleList.read n={n}", lambda x: OsuSampleList.read(x).df, sub)
    assert sub == keep
    lst = OsuSampleList.read(sub)
    attempt(f"OsuSampleList.write n={n}", lst.write)
    attempt(f"OsuSampleList reread n={n}", lambda: OsuSampleList.read(lst.write()).df)
bad_mix = good[:3] + ["Sample,1"] + good[3:5]
attempt("OsuSampleList.read bad", lambda x: OsuSampleList.read(x).df, bad_mix)

# Samples built in memory, float offsets
for _ in range(25):
    off = random.choice([0.0, -0.4, 0.999, -1234.5, 1e9 + 0.5, random.uniform(-1e5, 1e6)])
    vol = random.choice([0, 1, 70, 100, 255])
    smp = OsuSample(off, random.choice(files), vol)
    emit("mem sample", canon(smp.data))
    w = attempt("mem write_string", smp.write_string)
    attempt("mem reread", OsuSample.read_string, w, True)
attempt("default volume ctor", lambda: canon(OsuSample(5.0).data))

# ------------------------------------------------------------------- full map
HEADER = """osu file format v14

[General]
AudioFilename: {audio}
AudioLeadIn: 0
PreviewTime: {preview}
Countdown: 0
SampleSet: {sset}
StackLeniency: 0.7
Mode: 3
LetterboxInBreaks: 0
SpecialStyle: 0
WidescreenStoryboard: 1

[Editor]
DistanceSpacing: 1.2
BeatDivisor: 4
GridSize: 8
TimelineZoom: 1.5

[Metadata]
Title:{title}
TitleUnicode:{title}
Artist:art:ist
ArtistUnicode:アーティスト
Creator:me
Version:{keys}K v:1
Source:
Tags:a b  c
BeatmapID:0
BeatmapSetID:-1

[Difficulty]
HPDrainRate:8
CircleSize:{keys}
OverallDifficulty:8
ApproachRate:5
SliderMultiplier:1.4
SliderTickRate:1

[Events]
//Background and Video events
0,0,"bg file.jpg",0,0
//Break Periods
//Storyboard Layer 0 (Background)
//Storyboard Layer 1 (Fail)
//Storyboard Layer 2 (Pass)
//Storyboard Layer 3 (Foreground)
//Storyboard Layer 4 (Overlay)
//Storyboard Sound Samples
{samples}

[TimingPoints]
{tps}


[HitObjects]
{hos}
"""


def make_text(keys, sset, nsamples):
    smp = []
    for _ in range(nsamples):
        t = random.randint(-3000, 200000)
        f = random.choice(files[:3] + files[5:9])
        smp.append(f"Sample,{t},0,{f}" + (f",{random.randint(0, 100)}" if random.random() < 0.6 else ""))
    tps = [f"{random.randint(-500, 500)},{random.choice([500, 333.333333333333, 461.538461538462])},4,{random.randint(0, 3)},0,{random.randint(0, 100)},1,{random.randint(0, 1)}"]
    for _ in range(random.randint(0, 4)):
        tps.append(f"{random.randint(0, 100000)},-{random.choice([100, 50, 200, 133.333333333333])},4,{random.randint(0, 3)},0,{random.randint(0, 100)},0,{random.randint(0, 1)}")
    hos = []
    for _ in range(random.randint(0, 12)):
        col = random.randrange(keys)
        x = int((512 * col + 256) // keys)
        t = random.randint(-1000, 300000)
        if random.random() < 0.5:
            hos.append(f"{x},192,{t},1,{random.choice([0, 2, 4, 8])},{random.randint(0, 3)}:{random.randint(0, 3)}:0:{random.randint(0, 100)}:")
        else:
            hos.append(f"{x},192,{t},128,0,{t + random.randint(1, 5000)}:{random.randint(0, 3)}:{random.randint(0, 3)}:0:0:hs.wav")
    return HEADER.format(
        audio=random.choice(["audio.mp3", "ау дио.ogg", "a:b.mp3"]),
        preview=random.choice([-1, 0, 12345]),
        sset=sset,
        title=random.choice(["Song", "Re:Title", "曲名", "A: B: C"]),
        keys=keys,
        samples="\n".join(smp),
        tps="\n".join(tps),
        hos="\n".join(hos),
    )


def dump_map(tag, m):
    emit(tag, "sample_set", canon(m.sample_set), "keys", canon(m.circle_size))
    emit(tag, "title", canon(m.title), canon(m.title_unicode), canon(m.audio_file_name), canon(m.tags))
    emit(tag, "samples", canon(m.samples.df))
    emit(tag, "bpms", canon(m.bpms.df))
    emit(tag, "svs", canon(m.svs.df))
    emit(tag, "hits", canon(m.hits.df))
    emit(tag, "holds", canon(m.holds.df))


case = 0
for keys in list(range(1, 19)):
    for sset in random.sample(["None", "Normal", "Soft", "Drum", "Bogus", " Soft ", "drum", ""], 3):
        case += 1
        text = make_text(keys, sset, random.choice([0, 0, 1, 2, 5]))
        src = text.split("\n")
        keep = list(src)
        try:
            m = OsuMap.read(src)
        except BaseException as e:  # noqa
            emit(f"map{case}", "READ RAISED", type(e).__name__, repr(e.args))
            continue
        assert src == keep
        dump_map(f"map{case} gen0", m)
        g = m
        for gen in range(1, 4):
            w = g.write()
            emit(f"map{case} gen{gen} text", hashlib.sha256("\n".join(w).encode()).hexdigest())
            emit(f"map{case} gen{gen} sampleset line", [ln for ln in w if ln.startswith("SampleSet")])
            emit(f"map{case} gen{gen} sample lines", [ln for ln in w if ln.startswith("Sample,")])
            g = OsuMap.read("\n".join(w).split("\n"))
            dump_map(f"map{case} gen{gen}", g)

# In-memory sample_set values written through the meta writer
for v in [0, 1, 2, 3, 4, -1, 1.0, True, np.int64(2)]:
    m = OsuMap()
    m.sample_set = v
    w = attempt(f"meta write sample_set={v!r}", lambda: [ln for ln in m.write_meta_string_list() if ln.startswith("SampleSet")])

digest = hashlib.sha256("\n".join(OUT).encode("utf8")).hexdigest()
print("DIGEST", digest)
import os
if os.environ.get("DEMO_DUMP"): open(os.environ["DEMO_DUMP"], "w", encoding="utf8").write("\n".join(OUT))
