import warnings; warnings.filterwarnings("ignore")
from reamber.sm.SMMapSet import SMMapSet
sms = SMMapSet.read_file("rsc/maps/sm/Escapes.sm")
m = sms.maps[0]
m.chart_type = "kb7-single"
m.hits = m.hits[:1].append(m.hits[-1:])   # two hits far apart -> empty measures in between
m.holds = m.holds[:0]
txt = "\n".join(m.write())
rows = [l for l in txt.split("\n") if l and set(l) <= set("01234MLFK")]
print(sorted({len(r) for r in rows}))
