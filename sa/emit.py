"""Emission sequence of a writer that returns a list of lines / items (DESIGN §12).

A writer can build its result by `acc = []; acc.append(x); acc.extend(ys); for v in S: acc.append(f(v)); return acc`, by a list
display `return [*a, "x", *b]`, by `a + b`, or by private helpers that each return a part.  `emission` reduces all of these to

    [Item(kind, expr, line)]      kind 'one'  : one element, `expr` is the element
                                  kind 'many' : a run of elements, `expr` is the sequence expression

in emission order; private helpers (same module, name starting with `_`) that themselves return a list are expanded in place.
Returns None when the function is not of a recognised shape (callers answer "undecided").  Nothing is executed.
"""
from __future__ import annotations

import ast
from dataclasses import dataclass
from typing import List, Optional


@dataclass
class Item:
    kind: str            # 'one' | 'many'
    expr: ast.AST
    line: int
    fn: str = ""         # qualified name of the function the item was found in


def helper_closure(M, fn, depth: int = 3):
    """fn and the private helpers (same module) it calls, transitively"""
    from .normal import _resolve_helper
    out, todo, seen = [], [(fn, 0)], {fn.qual}
    while todo:
        f, d = todo.pop(0)
        out.append(f)
        if d >= depth:
            continue
        for n in ast.walk(f.node):
            if isinstance(n, ast.Call):
                h = _resolve_helper(M, f, n)
                if h is not None and h.qual not in seen:
                    seen.add(h.qual)
                    todo.append((h, d + 1))
    return out


def _expand_seq(M, fn, e: ast.AST, depth: int) -> Optional[List[Item]]:
    """items of a sequence-valued expression"""
    from .normal import _resolve_helper
    line = getattr(e, "lineno", fn.node.lineno)
    if isinstance(e, (ast.List, ast.Tuple)):
        out: List[Item] = []
        for x in e.elts:
            if isinstance(x, ast.Starred):
                sub = _expand_seq(M, fn, x.value, depth)
                out.extend(sub if sub is not None else [Item("many", x.value, getattr(x, "lineno", line), fn.qual)])
            else:
                out.append(Item("one", x, getattr(x, "lineno", line), fn.qual))
        return out
    if isinstance(e, ast.BinOp) and isinstance(e.op, ast.Add):
        a, b = _expand_seq(M, fn, e.left, depth), _expand_seq(M, fn, e.right, depth)
        if a is None:
            a = [Item("many", e.left, line, fn.qual)]
        if b is None:
            b = [Item("many", e.right, line, fn.qual)]
        return a + b
    if isinstance(e, ast.Call) and isinstance(e.func, ast.Name) and e.func.id == "list" and len(e.args) == 1:
        return _expand_seq(M, fn, e.args[0], depth)
    if isinstance(e, ast.Call) and depth > 0:
        h = _resolve_helper(M, fn, e)
        if h is not None:
            sub = emission(M, h, depth - 1)
            if sub is not None:
                return sub
    return None


def emission(M, fn, depth: int = 3) -> Optional[List[Item]]:
    nf = M.nfn(fn.qual, subst=True) if fn.qual in M.funcs else fn
    body = [s for s in nf.node.body if not (isinstance(s, ast.Expr) and isinstance(s.value, ast.Constant))]
    rets = [n for n in ast.walk(nf.node) if isinstance(n, ast.Return)]
    if len(rets) != 1 or not body or body[-1] is not rets[0] or rets[0].value is None:
        return None
    rv = rets[0].value
    if not isinstance(rv, ast.Name):
        return _expand_seq(M, nf, rv, depth)
    acc = rv.id
    out: List[Item] = []
    started = False

    def stmt(st) -> bool:
        nonlocal started
        mentions = any(isinstance(n, ast.Name) and n.id == acc for n in ast.walk(st))
        if not mentions:
            return True
        line = st.lineno
        if isinstance(st, (ast.Assign, ast.AnnAssign)):
            t = st.targets[0] if isinstance(st, ast.Assign) else st.target
            if isinstance(t, ast.Name) and t.id == acc and st.value is not None:
                v = st.value
                # acc = []  /  acc = [..]  /  acc = acc + X
                if isinstance(v, ast.BinOp) and isinstance(v.op, ast.Add) and isinstance(v.left, ast.Name) and v.left.id == acc and started:
                    sub = _expand_seq(M, nf, v.right, depth)
                    out.extend(sub if sub is not None else [Item("many", v.right, line, nf.qual)])
                    return True
                if any(isinstance(n, ast.Name) and n.id == acc for n in ast.walk(v)) or started and out:
                    return False
                sub = _expand_seq(M, nf, v, depth)
                if sub is None:
                    sub = [Item("many", v, line, nf.qual)]
                out.extend(sub)
                started = True
                return True
            return False
        if isinstance(st, ast.AugAssign) and isinstance(st.target, ast.Name) and st.target.id == acc and isinstance(st.op, ast.Add):
            sub = _expand_seq(M, nf, st.value, depth)
            out.extend(sub if sub is not None else [Item("many", st.value, line, nf.qual)])
            return True
        if isinstance(st, ast.Expr) and isinstance(st.value, ast.Call) and isinstance(st.value.func, ast.Attribute) and \
                isinstance(st.value.func.value, ast.Name) and st.value.func.value.id == acc and len(st.value.args) == 1:
            m, a = st.value.func.attr, st.value.args[0]
            if any(isinstance(n, ast.Name) and n.id == acc for n in ast.walk(a)):
                return False
            if m == "append":
                out.append(Item("one", a, line, nf.qual))
                return True
            if m == "extend":
                sub = _expand_seq(M, nf, a, depth)
                out.extend(sub if sub is not None else [Item("many", a, line, nf.qual)])
                return True
            return False
        if isinstance(st, ast.For) and not st.orelse and isinstance(st.target, ast.Name):
            # for v in S: acc.append(E)   ->  many [E for v in S]
            inner: List[Item] = []
            save = list(out)
            del out[:]
            ok = all(stmt(b) for b in st.body)
            inner = list(out)
            out[:] = save
            if not ok or any(any(isinstance(n, ast.Name) and n.id == acc for n in ast.walk(b)) and not (
                    isinstance(b, ast.Expr) and isinstance(b.value, ast.Call)) for b in st.body):
                return False
            if len(st.body) == 1 and len(inner) == 1 and inner[0].kind == "one":
                comp = ast.ListComp(elt=inner[0].expr, generators=[ast.comprehension(target=st.target, iter=st.iter, ifs=[], is_async=0)])
                out.append(Item("many", ast.copy_location(comp, st), line, nf.qual))
                return True
            # several emissions per iteration: keep them as one opaque run carrying the loop
            out.append(Item("many", st, line, nf.qual))
            return True
        if isinstance(st, ast.If):
            # conditional emission: keep the statement as one opaque run
            out.append(Item("many", st, line, nf.qual))
            return True
        return False

    for st in body[:-1]:
        if not stmt(st):
            return None
    return out if started else None
