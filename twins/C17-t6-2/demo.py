"""Deterministic behaviour digest for full_ln and the code it relies on
(Map.stack / Map.Stacker, TimedList.from_dict).

Run:  cd /tmp/wt7/C17 && PYTHONPATH=/tmp/wt7/C17 /venv/bin/python demo.py
Prints one line: DIGEST <sha256 hex>
"""
import hashlib
import random
import warnings

import numpy as np
import pandas as pd

from reamber.algorithms.generate import full_ln
from reamber.base.Map import Map
from reamber.base.lists.BpmList import BpmList
from reamber.base.lists.notes.HitList import HitList
from reamber.base.lists.notes.HoldList import HoldList
from reamber.base.lists.notes.NoteList import NoteList
from reamber.bms.BMSMap import BMSMap
from reamber.o2jam.O2JMap import O2JMap
from reamber.osu.OsuMap import OsuMap
from reamber.quaver.QuaMap import QuaMap
from reamber.sm.SMMap import SMMap

random.seed(170017)
np.random.seed(170017)

OUT = []


def emit(*parts):
    OUT.append(" ".join(str(p) for p in parts))


def dump_df(tag, df):
    emit(tag, "type", type(df).__name__, "shape", df.shape)
    emit(tag, "columns", [repr(c) for c in df.columns])
    emit(tag, "dtypes", [str(t) for t in df.dtypes])
    emit(tag, "index", type(df.index).__name__, str(df.index.dtype), repr(df.index.tolist()))
    for i, c in enumerate(df.columns):
        emit(tag, "col", i, repr(c), repr(df.iloc[:, i].tolist()))


def dump_map(tag, m):
    emit(tag, "class", type(m).__name__)
    emit(tag, "objs-keys", list(m.objs.keys()))
    for k, v in m.objs.items():
        emit(tag, k, "listclass", type(v).__name__)
        dump_df(f"{tag}.{k}", v.df)
    others = {k: repr(v) for k, v in sorted(vars(m).items()) if k != "objs"}
    emit(tag, "fields", others)


def guarded(tag, fn):
    """Runs fn; records the warnings and the exception type (if any)."""
    with warnings.catch_warnings(record=True) as ws:
        warnings.simplefilter("always")
        try:
            res = fn()
            emit(tag, "OK")
        except Exception as e:  # noqa
            res = None
            emit(tag, "EXC", type(e).__module__, type(e).__name__)
    emit(tag, "warnings", sorted(w.category.__name__ for w in ws))
    return res


MAP_CLASSES = [Map, OsuMap, QuaMap, SMMap, BMSMap, O2JMap]


def make_chart(cls, hit_rows, hold_rows, int_offsets=False, with_tempo=True):
    """hit_rows: [(offset, column)], hold_rows: [(offset, column, length)]"""
    m = cls()
    conv = (lambda x: int(x)) if int_offsets else (lambda x: float(x))
    if hit_rows:
        m.hits = type(m.hits).from_dict(
            dict(
                offset=[conv(o) for o, _ in hit_rows],
                column=[int(c) for _, c in hit_rows],
            )
        )
    if hold_rows:
        m.holds = type(m.holds).from_dict(
            dict(
                offset=[conv(o) for o, _, _ in hold_rows],
                column=[int(c) for _, c, _ in hold_rows],
                length=[conv(ln) for _, _, ln in hold_rows],
            )
        )
    if with_tempo:
        m.bpms = type(m.bpms).from_dict(
            dict(offset=[-50.0, 1200.0, 4000.5], bpm=[120.0, 180.5, 90.0])
        )
        if "svs" in m.objs:
            m.svs = type(m.svs).from_dict(
                dict(offset=[0.0, 777.0], multiplier=[1.0, 0.5])
            )
        if "stops" in m.objs:
            m.stops = type(m.stops).from_dict(dict(offset=[500.0], length=[250.0]))
        if "mines" in m.objs:
            m.mines = type(m.mines).from_dict(
                dict(offset=[125.0, 2125.0], column=[0, 1])
            )
        if "rolls" in m.objs:
            m.rolls = type(m.rolls).from_dict(
                dict(offset=[333.0], column=[1], length=[444.0])
            )
    return m


def random_rows(rng, keys, n, grid, frac=False, neg=False, shuffle=True):
    used_cols = [c for c in range(keys) if rng.random() < 0.8] or [0]
    hits, holds = [], []
    for _ in range(n):
        o = rng.randrange(0, 40) * grid
        if frac:
            o += rng.choice([0.0, 0.25, 1 / 3, 0.1])
        if neg:
            o -= 20 * grid
        c = rng.choice(used_cols)
        if rng.random() < 0.5:
            hits.append((o, c))
        else:
            holds.append((o, c, rng.choice([0, 1, 30, 99, 100, 101, 250, 1000, 12.5])))
    if not shuffle:
        hits.sort()
        holds.sort()
    return hits, holds


PARAMS = [
    (),  # defaults
    (150, 100),
    (0, 0),
    (0, 50),
    (0.0, 0.0),
    (10.5, 0),
    (33.3, 66.6),
    (100, 100.0),
    (1e9, 0),
    (0, 1e9),
    (250, 1),
    (np.float64(75.0), np.int64(25)),
]


def run_full_ln(tag, m, params):
    before = m.deepcopy()
    out = guarded(tag, lambda: full_ln(m, *params))
    if out is not None:
        emit(tag, "is-same-object", out is m)
        dump_map(tag + ".out", out)
    # the argument must be left as it was
    dump_map(tag + ".in-after", m)
    same = all(
        a.df.equals(b.df) and list(a.df.dtypes) == list(b.df.dtypes)
        for a, b in zip(m.objs.values(), before.objs.values())
    )
    emit(tag, "input-unchanged", same)


def section_fixed_cases():
    cases = {
        "empty": ([], []),
        "one-hit": ([(100, 0)], []),
        "one-hold": ([], [(100, 3, 40)]),
        "two-hits-exact": ([(0, 0), (250, 0)], []),
        "two-hits-short": ([(0, 0), (249, 0)], []),
        "hold-hold": ([], [(0, 0, 100), (250, 0, 100)]),
        "hit-hold": ([(0, 0)], [(250, 0, 100)]),
        "hold-hit": ([(250, 0)], [(0, 0, 100)]),
        "stack-same-time": ([(500, 1), (500, 1), (500, 1)], [(500, 1, 20)]),
        "stack-then-next": ([(500, 1), (500, 1), (900, 1)], [(500, 1, 77), (1300, 1, 5)]),
        "chord": ([(0, 0), (0, 1), (0, 2), (400, 0), (400, 2)], [(0, 3, 390), (400, 1, 10)]),
        "single-note-columns": ([(0, 0), (10, 5)], [(20, 2, 1), (30, 9, 0)]),
        "negative-offsets": ([(-1000, 0), (-500, 0), (0, 0)], [(-750, 0, 100), (-100, 1, 50)]),
        "zero-length-last": ([(0, 0)], [(300, 0, 0)]),
        "overlapping-holds": ([], [(0, 0, 5000), (100, 0, 5000), (400, 0, 5000)]),
        "unsorted": ([(900, 0), (0, 0), (300, 1), (600, 0)], [(450, 1, 10), (150, 0, 10)]),
        "high-columns": ([(0, 17), (300, 17), (0, 9)], [(600, 17, 30), (300, 9, 30)]),
    }
    for name, (hits, holds) in cases.items():
        for cls in MAP_CLASSES:
            for pi, params in enumerate(PARAMS[:6]):
                m = make_chart(cls, hits, holds, with_tempo=(pi % 2 == 0))
                run_full_ln(f"fixed[{name}][{cls.__name__}][p{pi}]", m, params)
        # integer offsets (from_dict of ints gives int64 columns)
        for pi, params in enumerate([(), (0, 0), (150, 100), (10.5, 0)]):
            m = make_chart(Map, hits, holds, int_offsets=True, with_tempo=False)
            run_full_ln(f"fixed-int[{name}][p{pi}]", m, params)


def section_random():
    rng = random.Random(4242)
    i = 0
    for keys in (1, 2, 4, 7, 10):
        for n in (0, 1, 2, 5, 12, 40):
            for variant in range(3):
                cls = MAP_CLASSES[i % len(MAP_CLASSES)]
                grid = rng.choice([1, 50, 125, 250])
                hits, holds = random_rows(
                    rng, keys, n, grid,
                    frac=(variant == 1), neg=(variant == 2),
                    shuffle=(variant != 0),
                )
                params = PARAMS[i % len(PARAMS)]
                m = make_chart(cls, hits, holds, with_tempo=(i % 3 != 0))
                run_full_ln(f"rand[{i}][{cls.__name__}][k{keys}n{n}v{variant}]", m, params)
                i += 1
    # big charts with many ties (sort sees > 16 equal keys)
    for j, n in enumerate((200, 600)):
        hits, holds = random_rows(rng, 4, n, 250)
        for cls in (Map, OsuMap):
            m = make_chart(cls, hits, holds)
            run_full_ln(f"big[{j}][{cls.__name__}]", m, PARAMS[(j + 1) % len(PARAMS)])


def section_bad_args():
    hits = [(0, 0), (300, 0), (0, 1)]
    holds = [(600, 0, 10)]
    bad = [("x", 100), (None, 100), (150, "y"), (150, None), ([1], 2), (float("nan"), 0),
           (0, float("nan")), (float("inf"), 0), (-float("inf"), 0), (-100, -100)]
    for bi, params in enumerate(bad):
        run_full_ln(f"bad[{bi}]", make_chart(Map, hits, holds), params)
        run_full_ln(f"bad-single[{bi}]", make_chart(Map, [(0, 0), (5, 1)], []), params)
        run_full_ln(f"bad-empty[{bi}]", make_chart(Map, [], []), params)


def section_stack_and_from_dict():
    rng = random.Random(99)
    for ci, cls in enumerate(MAP_CLASSES):
        hits, holds = random_rows(rng, 4, 15, 125)
        m = make_chart(cls, hits, holds)
        for ti, types in enumerate(
            [None, (HitList, HoldList), (HitList,), (HoldList,), (NoteList,), (BpmList,),
             (BpmList, HitList), (), (int,), HitList, "nope"]
        ):
            tag = f"stack[{cls.__name__}][t{ti}]"
            st = guarded(tag, lambda: m.stack(types))
            if st is not None:
                emit(tag, "ixs", repr(st._ixs), [type(x).__name__ for x in st._ixs])
                emit(tag, "unstacked", [type(u).__name__ for u in st._unstacked],
                     [u is o for u in st._unstacked for o in m.objs.values()].count(True))
                dump_df(tag + ".stacked", st._stacked)
        # mutation through the stack reaches the lists
        m2 = m.deepcopy()
        st = m2.stack()
        st.offset *= 2
        st.loc[st.column > 1, "column"] += 1
        dump_map(f"stackmut[{cls.__name__}]", m2)
        m3 = m.deepcopy()
        st = m3.stack((HoldList,))
        guarded(f"stackmut-len[{cls.__name__}]", lambda: st.__setitem__("length", st.length + 7))
        dump_map(f"stackmut-len[{cls.__name__}]", m3)
        r = guarded(f"rate[{cls.__name__}]", lambda: m.rate(1.25))
        if r is not None:
            dump_map(f"rate[{cls.__name__}].out", r)
        dump_map(f"rate[{cls.__name__}].in-after", m)

    fd_inputs = [
        [], {}, [dict(offset=1.0, column=2)], [dict(offset=1, column=2), dict(offset=3.5, column=0)],
        dict(offset=[]), dict(offset=[1, 2, 3]), dict(offset=[1.0], column=[3], length=[2.0]),
        dict(offset=[1.0], bogus=[3]), [dict(offset=1.0), dict(column=4)],
        dict(length=[5.0, 6.0]), [dict(offset=0.0, column=1, length=9.0)] * 3,
    ]
    for cls in MAP_CLASSES:
        m = cls()
        for lk in ("hits", "holds", "bpms"):
            lcls = type(m.objs[lk])
            for fi, d in enumerate(fd_inputs):
                tag = f"from_dict[{lcls.__name__}][{fi}]"
                tl = guarded(tag, lambda: lcls.from_dict(d))
                if tl is not None:
                    emit(tag, type(tl).__name__)
                    dump_df(tag, tl.df)
                emit(tag, "arg-after", repr(d))


section_fixed_cases()
section_random()
section_bad_args()
section_stack_and_from_dict()

text = "\n".join(OUT)
print("DIGEST", hashlib.sha256(text.encode("utf-8")).hexdigest())
