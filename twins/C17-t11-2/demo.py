"""Digest of full_ln over a broad, deterministic set of charts.

Run:  cd /tmp/wt7/C17 && PYTHONPATH=/tmp/wt7/C17 /venv/bin/python demo.py
Prints one line:  DIGEST <sha256>
"""
import hashlib
import random
import warnings

import numpy as np
import pandas as pd

from reamber.algorithms.generate import full_ln
from reamber.base.Map import Map
from reamber.bms.BMSMap import BMSMap
from reamber.o2jam.O2JMap import O2JMap
from reamber.osu.OsuMap import OsuMap
from reamber.quaver.QuaMap import QuaMap
from reamber.sm.SMMap import SMMap

random.seed(170012)
OUT = []


def emit(*parts):
    OUT.append(" ".join(str(p) for p in parts))


def cell(v):
    """Canonical text of one cell: the python type matters as well as the value"""
    return f"{type(v).__name__}:{v!r}"


def dump_df(tag, df: pd.DataFrame):
    emit(tag, "shape", df.shape)
    emit(tag, "columns", list(df.columns))
    emit(tag, "dtypes", [str(t) for t in df.dtypes])
    emit(tag, "index", type(df.index).__name__, str(df.index.dtype), list(df.index))
    for c in df.columns:
        emit(tag, "col", c, [cell(v) for v in df[c].tolist()])


def dump_map(tag, m):
    emit(tag, "type", type(m).__name__)
    emit(tag, "keys", list(m.objs.keys()))
    for k, v in m.objs.items():
        emit(tag, k, "class", type(v).__name__)
        dump_df(f"{tag}.{k}", v.df)
    for attr in ("title", "version", "mode", "chart_type", "artist"):
        if hasattr(m, attr):
            emit(tag, "attr", attr, repr(getattr(m, attr)))


# ----------------------------------------------------------------- generators
def gen_notes(keys, n_hits, n_holds, *, grid=None, as_int=False, stacks=False):
    """Random hits and holds.  With a grid many notes share times (chords) and,
    if ``stacks``, several notes may sit at the same time of one column."""

    def t():
        if grid:
            v = random.randrange(-2, 40) * grid
        else:
            v = round(random.uniform(-500, 20000), random.choice([0, 1, 3]))
        return int(v) if as_int else float(v)

    used = set()
    hits, holds = [], []
    for kind, n in (("hit", n_hits), ("hold", n_holds)):
        made = 0
        guard = 0
        while made < n and guard < 10000:
            guard += 1
            o, c = t(), random.randrange(keys)
            if not stacks and (o, c) in used:
                continue
            used.add((o, c))
            if kind == "hit":
                hits.append((o, c))
            else:
                ln = random.choice([1, 30, 99.5, 100, 250, 1000, 12345.678])
                holds.append((o, c, int(ln) if as_int else float(ln)))
            made += 1
    random.shuffle(hits)  # rows need not be sorted
    random.shuffle(holds)
    return hits, holds


def fill(m, hits, holds):
    if hits:
        m.hits = type(m.hits).from_dict(
            dict(offset=[h[0] for h in hits], column=[h[1] for h in hits])
        )
    if holds:
        m.holds = type(m.holds).from_dict(
            dict(
                offset=[h[0] for h in holds],
                column=[h[1] for h in holds],
                length=[h[2] for h in holds],
            )
        )
    return m


def with_tempo(m):
    """Some tempo / other lists, which full_ln has to leave alone"""
    m.bpms = type(m.bpms).from_dict(
        dict(offset=[0.0, 5000.0, 9000.5], bpm=[120.0, 180.0, 90.25])
    )
    if "svs" in m.objs:
        m.svs = type(m.svs).from_dict(
            dict(offset=[100.0, 200.0, 6000.0], multiplier=[1.0, 0.5, 2.25])
        )
    if isinstance(m, SMMap):
        # These are Hit / Hold subclasses too, so the stack picks them up
        m.mines = type(m.mines).from_dict(dict(offset=[50.0, 1210.0], column=[0, 1]))
        m.fakes = type(m.fakes).from_dict(dict(offset=[333.0], column=[2]))
        m.lifts = type(m.lifts).from_dict(dict(offset=[777.0, 778.0], column=[1, 1]))
        m.rolls = type(m.rolls).from_dict(
            dict(offset=[1500.0, 4000.0], column=[0, 3], length=[200.0, 50.0])
        )
        m.stops = type(m.stops).from_dict(dict(offset=[2500.0], length=[100.0]))
    return m


# ------------------------------------------------------------------ scenarios
GAME_KEYS = [(Map, 4), (OsuMap, 4), (OsuMap, 7), (QuaMap, 4), (QuaMap, 7),
             (SMMap, 4), (O2JMap, 7), (BMSMap, 8), (Map, 1), (OsuMap, 10)]
PARAMS = [
    (150, 100), (0, 0), (0, 100), (150, 0), (75.5, 20.25), (1, 1), (250, 250),
    (1e9, 100), (150, 1e9), (np.float64(120.0), np.float64(80.0)),
    (np.int64(100), 50), (33.333, 66.667), (500, 1), (0.0, 0.001),
]

cases = []

# a) random charts of every game
for i in range(40):
    cls, keys = GAME_KEYS[i % len(GAME_KEYS)]
    n_hits = random.choice([0, 1, 2, 5, 20, 60])
    n_holds = random.choice([0, 1, 2, 5, 20, 40])
    grid = random.choice([None, 50, 125, 250])
    hits, holds = gen_notes(
        keys, n_hits, n_holds, grid=grid, as_int=(i % 7 == 3), stacks=(i % 5 == 4)
    )
    m = fill(cls(), hits, holds)
    if i % 2:
        with_tempo(m)
    cases.append((f"rand{i}", m, PARAMS[i % len(PARAMS)]))

# b) hand written edge cases
G, T = 150, 100
D = G + T
hand = {
    "empty": ([], []),
    "one-hit": ([(0.0, 0)], []),
    "one-hold": ([], [(0.0, 0, 400.0)]),
    "hit-hit-exact": ([(0.0, 0), (float(D), 0)], []),
    "hit-hit-short": ([(0.0, 0), (float(D - 1), 0)], []),
    "hold-hold-exact": ([], [(0.0, 0, 100.0), (float(D), 0, 100.0)]),
    "hold-hold-short": ([], [(0.0, 0, 100.0), (float(D - 1), 0, 100.0)]),
    "hit-hold": ([(0.0, 0)], [(float(D), 0, 100.0)]),
    "hold-hit": ([(float(D), 0)], [(0.0, 0, 100.0)]),
    "overlapping-hold": ([(300.0, 1)], [(0.0, 1, 5000.0), (1000.0, 1, 10.0)]),
    "chords": ([(0.0, c) for c in range(4)] + [(1000.0, c) for c in range(4)], []),
    "single-note-cols": ([(10.0, 0), (20.0, 2)], [(30.0, 3, 77.0)]),
    "gap-at-column-3-only": ([(0.0, 3), (400.0, 3), (500.0, 3), (5000.0, 3)], []),
    "negative-times": ([(-1000.0, 0), (-500.0, 0), (-499.0, 0), (0.0, 0)],
                       [(-2000.0, 0, 10.0)]),
    "stack-hits": ([(100.0, 0), (100.0, 0), (100.0, 0), (900.0, 0)], []),
    "stack-hit-hold": ([(100.0, 0), (600.0, 0)], [(100.0, 0, 50.0)]),
    "stack-last": ([(100.0, 2), (700.0, 2)], [(700.0, 2, 300.0)]),
    "fractional": ([(0.1, 0), (250.1, 0), (500.30000000000007, 0)],
                   [(0.2, 1, 0.5), (250.19999999999996, 1, 3.0)]),
    "unsorted": ([(3000.0, 0), (0.0, 0), (2000.0, 0), (1000.0, 0)],
                 [(2500.0, 0, 5.0), (500.0, 0, 5.0)]),
    "big-columns": ([(0.0, 17), (1000.0, 17), (0.0, 250), (10.0, 250)], []),
}
for name, (hits, holds) in hand.items():
    for cls in (Map, OsuMap, SMMap):
        for params in ((G, T), (0, 0), (99.5, 150.5)):
            cases.append((f"hand:{name}:{cls.__name__}", fill(cls(), hits, holds), params))

# c) integer offsets given through from_dict, like the repository's own test
for hit_o, hold_o, hold_l in [
    ([0, D], [], []), ([0, D - 1], [], []), ([], [0, D], [100, 100]),
    ([], [0, D - 1], [100, 100]), ([0], [D], [100]), ([D], [0], [100]),
    ([0, 300, 400, 1000], [], []), ([5], [5, 900], [10, 20]),
]:
    m = Map()
    m.hits = type(m.hits).from_dict({"offset": hit_o})
    m.holds = type(m.holds).from_dict({"offset": hold_o, "length": hold_l})
    cases.append(("ints", m, (G, T)))
    m2 = m.deepcopy()
    cases.append(("ints-float-gap", m2, (149.5, 100.5)))

# d) default arguments
for i in range(4):
    hits, holds = gen_notes(4, 25, 10, grid=50)
    cases.append((f"defaults{i}", fill(QuaMap(), hits, holds), None))

# ----------------------------------------------------------------------- run
warnings.simplefilter("ignore")
for n, (name, m, params) in enumerate(cases):
    tag = f"case{n}[{name}]"
    emit(tag, "params", None if params is None else [cell(p) for p in params])
    before = m.deepcopy()
    list_ids = {k: id(v) for k, v in m.objs.items()}
    df_ids = {k: id(v.df) for k, v in m.objs.items()}
    dump_map(tag + ".in", m)
    try:
        out = full_ln(m) if params is None else full_ln(m, *params)
    except Exception as e:  # the type is part of the behaviour
        emit(tag, "raised", type(e).__name__)
        out = None
    if out is not None:
        dump_map(tag + ".out", out)
        emit(tag, "is-new-map", out is not m)
        emit(tag, "shares-lists",
             [k for k in m.objs if out.objs[k] is m.objs[k] or out.objs[k].df is m.objs[k].df])
        # A second call gives the same again (nothing cached / mutated in between)
        again = full_ln(m) if params is None else full_ln(m, *params)
        emit(tag, "repeatable",
             all(out.objs[k].df.equals(again.objs[k].df) for k in out.objs))
    # the argument is left alone
    dump_map(tag + ".after", m)
    emit(tag, "input-unchanged",
         all(before.objs[k].df.equals(m.objs[k].df) for k in m.objs),
         list_ids == {k: id(v) for k, v in m.objs.items()},
         df_ids == {k: id(v.df) for k, v in m.objs.items()})

text = "\n".join(OUT)
print("DIGEST", hashlib.sha256(text.encode("utf-8")).hexdigest())
