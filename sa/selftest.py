"""Self-test of the checkers (DESIGN §8) — filled in later in the build."""
def run_for_property(pid, seed, root):
    return dict(variants=0, caught=0, twins_silent=0, skipped=0, failures=[])
