"""Light abstract types ("kinds") for expressions — DESIGN.md §3 *Light types*.

A kind is a tuple whose first element names the kind:

  ('chart', cls) ('mapset', cls) ('list', cls) ('item', cls) ('stacker', cls)
  ('inst', cls) ('type', K) ('df',) ('series',) ('nd',) ('indexer', K, name)
  ('groupby',) ('index',) ('pylist', K) ('dict', K) ('tuple', (K,...)) ('iter', K)
  ('set',) ('str',) ('bytes',) ('num',) ('bool',) ('none',) ('frac',)
  ('func', qual) ('bound', qual, K) ('module', name) ('ext', dotted) ('unknown',)

The inference is flow-sensitive inside a function (one forward pass, branches
joined) and is *only* used to resolve receivers and to prune scalars; an
``unknown`` never produces a verdict by itself.
"""
from __future__ import annotations

import ast
from typing import Dict, List, Optional, Tuple

from .model import (Model, Fn, TIMEDLIST, SERIES, MAP, MAPSET, params_of)

K = tuple
UNKNOWN: K = ("unknown",)
NUM: K = ("num",)
STR: K = ("str",)
BOOL: K = ("bool",)
NONE: K = ("none",)
DF: K = ("df",)
SERIESK: K = ("series",)
ND: K = ("nd",)

SCALAR_KINDS = {"num", "str", "bytes", "bool", "none", "frac"}

_BUILTIN_RET = {
    "len": NUM, "int": NUM, "float": NUM, "abs": NUM, "round": NUM, "ord": NUM, "id": NUM, "hash": NUM,
    "str": STR, "repr": STR, "format": STR, "chr": STR,
    "bool": BOOL, "isinstance": BOOL, "issubclass": BOOL, "hasattr": BOOL, "any": BOOL, "all": BOOL, "callable": BOOL,
    "bytes": ("bytes",), "print": NONE,
}

# result kind of a method call on a DataFrame / Series / ndarray receiver
_DF_SAME = {"sort_values", "copy", "astype", "rename", "drop", "reset_index", "reindex", "fillna", "ffill", "bfill",
            "dropna", "drop_duplicates", "assign", "merge", "set_index", "head", "tail", "describe", "set_axis",
            "sort_index", "transpose", "query", "where", "mask", "round", "abs", "clip", "diff", "shift", "cumsum",
            "apply", "map", "replace", "rename_axis", "join", "infer_objects", "convert_dtypes", "isna", "notna",
            "isnull", "notnull", "isin", "between", "eq", "ne", "lt", "le", "gt", "ge", "add", "sub", "mul", "div",
            "truediv", "floordiv", "mod", "pow", "rolling", "squeeze", "repeat", "take", "sample", "nlargest",
            "nsmallest", "explode", "interpolate", "cummax", "cummin", "rank", "pct_change", "to_frame_same"}
_REDUCE = {"max", "min", "sum", "mean", "median", "std", "var", "count", "prod", "any", "all", "idxmax", "idxmin",
           "nunique", "first_valid_index", "last_valid_index", "argmax", "argmin", "item", "ptp"}


def is_scalar(k: K) -> bool:
    if k[0] in SCALAR_KINDS:
        return True
    if k[0] == "union":
        return all(is_scalar(x) for x in k[1])
    return False


def join(a: K, b: K) -> K:
    if a == b:
        return a
    if a == UNKNOWN:
        return b if False else UNKNOWN
    if b == UNKNOWN:
        return UNKNOWN
    if a == NONE:
        return b
    if b == NONE:
        return a
    xs = []
    for k in (a, b):
        for x in (k[1] if k[0] == "union" else (k,)):
            if x not in xs:
                xs.append(x)
    return ("union", tuple(xs))


class Typer:
    """Kinds of the expressions of one function body."""

    def __init__(self, model: Model, world: "TypeWorld", fn: Fn, self_kind: Optional[K] = None,
                 arg_kinds: Optional[Dict[str, K]] = None, depth: int = 0, closure: Optional[Dict[str, K]] = None):
        self.M = model
        self.W = world
        self.fn = fn
        self.mod = fn.mod
        self.depth = depth
        self.env: Dict[str, K] = dict(closure or {})
        self.tmap: Dict[int, K] = {}
        self.returns: List[K] = []
        self.yields: List[K] = []
        self._init_params(self_kind, arg_kinds or {})
        self._block(fn.node.body)

    # ------------------------------------------------------------- set-up
    def _init_params(self, self_kind, arg_kinds):
        a = self.fn.node.args
        allargs = a.posonlyargs + a.args + a.kwonlyargs
        first_implicit = self.fn.cls is not None and not self.fn.is_static and self.fn.outer_fn is None
        for i, p in enumerate(allargs):
            k = UNKNOWN
            if i == 0 and first_implicit and p in (a.posonlyargs + a.args)[:1]:
                if self_kind is not None:
                    k = ("type", self_kind) if self.fn.is_classmethod else self_kind
                else:
                    ck = self.W.class_instance_kind(self.fn.cls)
                    k = ("type", ck) if self.fn.is_classmethod else ck
                # explicit annotation on self (``self: "SMMapSet"``) refines it
                if p.annotation is not None and self_kind is None:
                    ak = self.W.ann_kind(self.mod, p.annotation, self.fn.cls)
                    if ak != UNKNOWN:
                        k = ak
            elif p.arg in arg_kinds and arg_kinds[p.arg] != UNKNOWN:
                k = arg_kinds[p.arg]
            elif p.annotation is not None:
                k = self.W.ann_kind(self.mod, p.annotation, self.fn.cls)
            self.env[p.arg] = k
        if a.vararg:
            self.env[a.vararg.arg] = ("tuple", None)
        if a.kwarg:
            self.env[a.kwarg.arg] = ("dict", UNKNOWN)
        # keyword defaults that bind closure values (k_=k) stay unknown/str
        defaults = dict(zip([x.arg for x in (a.posonlyargs + a.args)][::-1], a.defaults[::-1]))
        for name, d in defaults.items():
            if self.env.get(name, UNKNOWN) == UNKNOWN and isinstance(d, ast.Constant):
                self.env[name] = self._const_kind(d.value)

    @staticmethod
    def _const_kind(v) -> K:
        if isinstance(v, bool):
            return BOOL
        if isinstance(v, (int, float)):
            return NUM
        if isinstance(v, str):
            return STR
        if isinstance(v, bytes):
            return ("bytes",)
        if v is None:
            return NONE
        return UNKNOWN

    # ------------------------------------------------------------ statements
    def _block(self, body):
        for s in body:
            self._stmt(s)

    def _stmt(self, s):
        if isinstance(s, ast.Assign):
            k = self.T(s.value)
            for t in s.targets:
                self._bind(t, k, s.value)
        elif isinstance(s, ast.AnnAssign):
            ak = self.W.ann_kind(self.mod, s.annotation, self.fn.cls)
            if s.value is not None:
                k = self.T(s.value)
                if k == UNKNOWN or (k[0] in ("pylist", "dict") and ak[0] == k[0]):
                    k = ak if ak != UNKNOWN else k
                self._bind(s.target, k, s.value)
            elif isinstance(s.target, ast.Name) and ak != UNKNOWN:
                # bare annotation (``nl: HoldList``) refines the variable
                self.env[s.target.id] = ak
        elif isinstance(s, ast.AugAssign):
            self.T(s.value)
            self.T(s.target)
        elif isinstance(s, ast.Expr):
            self.T(s.value)
        elif isinstance(s, ast.Return):
            if s.value is not None:
                self.returns.append(self.T(s.value))
            else:
                self.returns.append(NONE)
        elif isinstance(s, (ast.For, ast.AsyncFor)):
            it = self.T(s.iter)
            self._bind(s.target, self.W.elem_kind(it), None)
            self._block(s.body)
            self._block(s.orelse)
        elif isinstance(s, ast.While):
            self.T(s.test)
            self._block(s.body)
            self._block(s.orelse)
        elif isinstance(s, ast.If):
            self.T(s.test)
            e0 = dict(self.env)
            self._narrow(s.test, True)
            self._block(s.body)
            e1 = self.env
            self.env = dict(e0)
            self._narrow(s.test, False)
            self._block(s.orelse)
            for name in set(e1) | set(self.env):
                if name in e1 and name in self.env:
                    self.env[name] = join(e1[name], self.env[name])
                else:
                    self.env[name] = e1.get(name, self.env.get(name, UNKNOWN))
        elif isinstance(s, (ast.With, ast.AsyncWith)):
            for it in s.items:
                k = self.T(it.context_expr)
                if it.optional_vars is not None:
                    self._bind(it.optional_vars, UNKNOWN, None)
            self._block(s.body)
        elif isinstance(s, ast.Try):
            self._block(s.body)
            for h in s.handlers:
                if h.name:
                    self.env[h.name] = ("inst", "ext:Exception")
                self._block(h.body)
            self._block(s.orelse)
            self._block(s.finalbody)
        elif isinstance(s, (ast.Raise,)):
            if s.exc is not None:
                self.T(s.exc)
        elif isinstance(s, ast.Assert):
            self.T(s.test)
        elif isinstance(s, (ast.FunctionDef, ast.AsyncFunctionDef)):
            q = self._nested_qual(s)
            self.env[s.name] = ("func", q) if q else UNKNOWN
        elif isinstance(s, ast.ImportFrom):
            for a in s.names:
                base = s.module or ""
                r = None
                if base in self.M.mods:
                    r = self.M.resolve(base, a.name)
                    if r is None and base + "." + a.name in self.M.mods:
                        r = ("module", base + "." + a.name)
                else:
                    r = ("external", base + "." + a.name)
                self.env[a.asname or a.name] = self.W.def_kind(r)
        elif isinstance(s, ast.Import):
            for a in s.names:
                nm = a.asname or a.name.split(".")[0]
                tgt = a.name if a.asname else a.name.split(".")[0]
                self.env[nm] = ("module", tgt) if tgt in self.M.mods else ("ext", tgt)
        elif isinstance(s, ast.Delete):
            pass

    def _nested_qual(self, s):
        base = self.fn.qual + ".<locals>." + s.name
        if base + f"#{s.lineno}" in self.M.funcs:
            return base + f"#{s.lineno}"
        return base if base in self.M.funcs else None

    def _narrow(self, test, positive):
        # isinstance(x, C) narrowing
        if isinstance(test, ast.Call) and isinstance(test.func, ast.Name) and test.func.id == "isinstance" \
                and len(test.args) == 2 and isinstance(test.args[0], ast.Name) and positive:
            r = self.M.resolve_expr(self.mod, test.args[1], self.fn.cls)
            if r and r[0] == "class":
                self.env[test.args[0].id] = self.W.class_instance_kind(r[1])
            elif r and r[0] == "external":
                ek = self.W.external_instance_kind(r[1])
                if ek != UNKNOWN:
                    self.env[test.args[0].id] = ek
            elif isinstance(test.args[1], ast.Name) and test.args[1].id in ("bool", "int", "float", "str", "bytes"):
                self.env[test.args[0].id] = {"bool": BOOL, "int": NUM, "float": NUM, "str": STR,
                                              "bytes": ("bytes",)}[test.args[1].id]

    def _bind(self, tgt, k: K, value_node):
        if isinstance(tgt, ast.Name):
            self.env[tgt.id] = k
            self.tmap[id(tgt)] = k
        elif isinstance(tgt, (ast.Tuple, ast.List)):
            n = len(tgt.elts)
            for i, x in enumerate(tgt.elts):
                if isinstance(x, ast.Starred):
                    self._bind(x.value, ("pylist", self.W.elem_kind(k)), None)
                elif k[0] == "tuple" and k[1] is not None and len(k[1]) == n:
                    self._bind(x, k[1][i], None)
                elif isinstance(value_node, (ast.Tuple, ast.List)) and len(value_node.elts) == n:
                    self._bind(x, self.T(value_node.elts[i]), None)
                else:
                    self._bind(x, self.W.elem_kind(k), None)
        elif isinstance(tgt, (ast.Attribute, ast.Subscript)):
            self.T(tgt)
        elif isinstance(tgt, ast.Starred):
            self._bind(tgt.value, k, None)

    # ----------------------------------------------------------- expressions
    def T(self, e) -> K:
        if e is None:
            return NONE
        k = self._T(e)
        self.tmap[id(e)] = k
        return k

    def kind(self, e) -> K:
        """Kind recorded for a node during the pass (UNKNOWN if never visited)."""
        return self.tmap.get(id(e), UNKNOWN)

    def _T(self, e) -> K:
        W = self.W
        if isinstance(e, ast.Constant):
            return self._const_kind(e.value)
        if isinstance(e, ast.Name):
            if e.id in self.env:
                return self.env[e.id]
            r = self.M.resolve_expr(self.mod, e, self.fn.cls)
            return W.def_kind(r)
        if isinstance(e, ast.JoinedStr):
            for v in e.values:
                if isinstance(v, ast.FormattedValue):
                    self.T(v.value)
            return STR
        if isinstance(e, ast.FormattedValue):
            self.T(e.value)
            return STR
        if isinstance(e, ast.Attribute):
            b = self.T(e.value)
            return W.attr_kind(b, e.attr, self.mod, e)
        if isinstance(e, ast.Subscript):
            b = self.T(e.value)
            sl = e.slice
            sk = self.T(sl) if not isinstance(sl, ast.Slice) else ("slice",)
            if isinstance(sl, ast.Slice):
                for x in (sl.lower, sl.upper, sl.step):
                    if x is not None:
                        self.T(x)
            return W.subscript_kind(b, sl, sk, self)
        if isinstance(e, ast.Call):
            return self._call(e)
        if isinstance(e, ast.BinOp):
            a, b = self.T(e.left), self.T(e.right)
            for pref in ("series", "df", "nd"):
                if a[0] == pref or b[0] == pref:
                    return (pref,)
            if a[0] == "str" or b[0] == "str":
                return STR if isinstance(e.op, (ast.Add, ast.Mod, ast.Mult)) else UNKNOWN
            if a[0] == "bytes" or b[0] == "bytes":
                return ("bytes",)
            if a[0] == "pylist" and isinstance(e.op, (ast.Add, ast.Mult)):
                return a
            if b[0] == "pylist" and isinstance(e.op, (ast.Mult,)):
                return b
            if a[0] in ("num", "bool", "frac") and b[0] in ("num", "bool", "frac"):
                return ("frac",) if "frac" in (a[0], b[0]) else NUM
            if a[0] == "inst" and W.M.method(a[1], {ast.Sub: "__sub__", ast.Add: "__add__"}.get(type(e.op), "?")):
                return a
            if a[0] in ("num", "frac") or b[0] in ("num", "frac"):
                # scalar op unknown: still a scalar unless other side is array-like
                return UNKNOWN if (a == UNKNOWN or b == UNKNOWN) else NUM
            return UNKNOWN
        if isinstance(e, ast.UnaryOp):
            k = self.T(e.operand)
            if isinstance(e.op, ast.Not):
                return BOOL
            return k
        if isinstance(e, ast.BoolOp):
            ks = [self.T(v) for v in e.values]
            out = ks[0]
            for k in ks[1:]:
                out = join(out, k)
            return out
        if isinstance(e, ast.Compare):
            ks = [self.T(e.left)] + [self.T(c) for c in e.comparators]
            for pref in ("series", "df", "nd"):
                if any(k[0] == pref for k in ks) and not any(isinstance(o, (ast.In, ast.NotIn, ast.Is, ast.IsNot))
                                                            for o in e.ops):
                    return (pref,)
            if any(k[0] in ("list", "stacker") for k in ks[:1]) and not any(
                    isinstance(o, (ast.In, ast.NotIn, ast.Is, ast.IsNot)) for o in e.ops):
                return DF
            return BOOL
        if isinstance(e, ast.IfExp):
            self.T(e.test)
            return join(self.T(e.body), self.T(e.orelse))
        if isinstance(e, (ast.List, ast.Set)):
            ek = None
            for x in e.elts:
                xk = self.T(x.value) if isinstance(x, ast.Starred) else self.T(x)
                if isinstance(x, ast.Starred):
                    xk = W.elem_kind(xk)
                ek = xk if ek is None else (ek if ek == xk else join(ek, xk))
            return ("pylist", ek or UNKNOWN) if isinstance(e, ast.List) else ("set",)
        if isinstance(e, ast.Tuple):
            ks = []
            for x in e.elts:
                if isinstance(x, ast.Starred):
                    self.T(x.value)
                    return ("tuple", None)
                ks.append(self.T(x))
            return ("tuple", tuple(ks))
        if isinstance(e, ast.Dict):
            vk = None
            for k_, v in zip(e.keys, e.values):
                if k_ is not None:
                    self.T(k_)
                xk = self.T(v)
                vk = xk if vk is None else join(vk, xk)
            return ("dict", vk or UNKNOWN)
        if isinstance(e, (ast.ListComp, ast.SetComp, ast.GeneratorExp, ast.DictComp)):
            saved = dict(self.env)
            for g in e.generators:
                it = self.T(g.iter)
                self._bind(g.target, W.elem_kind(it), None)
                for c in g.ifs:
                    self.T(c)
            if isinstance(e, ast.DictComp):
                self.T(e.key)
                r = ("dict", self.T(e.value))
            else:
                ek = self.T(e.elt)
                r = ("pylist", ek) if isinstance(e, ast.ListComp) else (("set",) if isinstance(e, ast.SetComp)
                                                                        else ("iter", ek))
            self.env = saved
            return r
        if isinstance(e, ast.Lambda):
            return ("lambda", e)
        if isinstance(e, ast.Starred):
            return self.T(e.value)
        if isinstance(e, ast.Yield):
            if e.value is not None:
                self.yields.append(self.T(e.value))
            return UNKNOWN
        if isinstance(e, ast.YieldFrom):
            self.yields.append(W.elem_kind(self.T(e.value)))
            return UNKNOWN
        if isinstance(e, ast.NamedExpr):
            k = self.T(e.value)
            self._bind(e.target, k, e.value)
            return k
        if isinstance(e, ast.Slice):
            return ("slice",)
        return UNKNOWN

    # ----------------------------------------------------------------- calls
    def _call(self, e: ast.Call) -> K:
        W = self.W
        argk = [self.T(a) for a in e.args]
        kwk = {kw.arg: self.T(kw.value) for kw in e.keywords}
        f = e.func
        # super().m(...)
        if isinstance(f, ast.Attribute) and isinstance(f.value, ast.Call) and isinstance(f.value.func, ast.Name) \
                and f.value.func.id == "super":
            for a in f.value.args:
                self.T(a)
            tgt = self.W.super_target(self, f.value, f.attr)
            self.tmap[id(f)] = ("bound", tgt, self.env.get("self", UNKNOWN)) if tgt else UNKNOWN
            if tgt:
                recv = self.env.get("self", UNKNOWN)
                if f.value.args and len(f.value.args) == 2:
                    recv = self.kind(f.value.args[1])
                return W.return_kind(tgt, recv, e, argk, kwk, self)
            return UNKNOWN
        fk = self.T(f)
        if isinstance(f, ast.Name) and f.id not in self.env:
            if f.id in _BUILTIN_RET and self.M.resolve(self.mod, f.id) is None:
                return _BUILTIN_RET[f.id]
            r = W.builtin_call(f.id, argk, e, self) if self.M.resolve(self.mod, f.id) is None else None
            if r is not None:
                return r
        return W.call_kind(fk, e, argk, kwk, self)


class TypeWorld:
    """Kinds that depend only on the model (attributes, calls, annotations)."""

    def __init__(self, model: Model):
        self.M = model
        self._ret_memo: Dict[Tuple[str, K], K] = {}
        self._typers: Dict[Tuple[str, Optional[K]], Typer] = {}
        self._in_progress = set()
        # chart-slot attribute names are globally unambiguous (checked)
        self.slot_names = set()
        for c in model.classes:
            if model.class_kind(c) == "chart":
                self.slot_names |= set(model.map_slots(c))

    # ------------------------------------------------------------ class kinds
    def class_instance_kind(self, c: Optional[str]) -> K:
        if c is None or c not in self.M.classes:
            return UNKNOWN
        return (self.M.class_kind(c), c)

    def external_instance_kind(self, dotted: str) -> K:
        return {
            "pandas.DataFrame": DF, "pandas.Series": SERIESK, "numpy.ndarray": ND,
            "fractions.Fraction": ("frac",), "typing.List": ("pylist", UNKNOWN), "typing.Dict": ("dict", UNKNOWN),
            "pathlib.Path": ("inst", "ext:Path"),
            "pandas.core.indexing._LocIndexer": ("indexer", DF, "loc"),
            "pandas.core.indexing._iLocIndexer": ("indexer", DF, "iloc"),
        }.get(dotted, UNKNOWN)

    def def_kind(self, r) -> K:
        if r is None:
            return UNKNOWN
        k, v = r
        if k == "class":
            return ("type", self.class_instance_kind(v))
        if k == "func":
            return ("func", v)
        if k == "module":
            return ("module", v)
        if k == "external":
            return ("ext", v)
        if k == "const":
            mod, node = v
            # TypeVar("T", bound=X) used as a value is rare; constants are literals
            if isinstance(node, ast.Constant):
                return Typer._const_kind(node.value)
            if isinstance(node, (ast.List, ast.Tuple)):
                return ("pylist", UNKNOWN)
            if isinstance(node, ast.Dict):
                return ("dict", UNKNOWN)
            if isinstance(node, ast.Call):
                r2 = self.M.resolve_expr(mod, node.func)
                if r2 and r2[0] == "class":
                    return self.class_instance_kind(r2[1])
                if r2 and r2[0] == "external" and r2[1] == "logging.getLogger":
                    return ("inst", "ext:Logger")
            return UNKNOWN
        return UNKNOWN

    # ------------------------------------------------------------ annotations
    def ann_kind(self, mod: str, ann: ast.AST, cls: Optional[str] = None, _d=0) -> K:
        if ann is None or _d > 6:
            return UNKNOWN
        if isinstance(ann, ast.Constant):
            if ann.value is None:
                return NONE
            if isinstance(ann.value, str):
                try:
                    return self.ann_kind(mod, ast.parse(ann.value, mode="eval").body, cls, _d + 1)
                except SyntaxError:
                    return UNKNOWN
            return UNKNOWN
        if isinstance(ann, ast.BinOp) and isinstance(ann.op, ast.BitOr):
            return join(self.ann_kind(mod, ann.left, cls, _d + 1), self.ann_kind(mod, ann.right, cls, _d + 1))
        if isinstance(ann, ast.BoolOp):  # ``float or None``
            return self.ann_kind(mod, ann.values[0], cls, _d + 1)
        if isinstance(ann, ast.Name):
            simple = {"int": NUM, "float": NUM, "str": STR, "bool": BOOL, "bytes": ("bytes",), "list": ("pylist", UNKNOWN),
                      "dict": ("dict", UNKNOWN), "tuple": ("tuple", None), "type": ("type", UNKNOWN), "object": UNKNOWN,
                      "Fraction": ("frac",), "List": ("pylist", UNKNOWN), "Dict": ("dict", UNKNOWN), "Any": UNKNOWN}
            if ann.id in simple and self.M.resolve(mod, ann.id) in (None, ("external", "typing." + ann.id),
                                                                    ("external", "fractions.Fraction")):
                return simple[ann.id]
        if isinstance(ann, (ast.Name, ast.Attribute)):
            r = self.M.resolve_expr(mod, ann, cls)
            if r is None:
                return UNKNOWN
            if r[0] == "class":
                return self.class_instance_kind(r[1])
            if r[0] == "external":
                return self.external_instance_kind(r[1])
            if r[0] == "const":
                cm, node = r[1]
                # TypeVar with bound
                if isinstance(node, ast.Call) and ast.unparse(node.func).endswith("TypeVar"):
                    for kw in node.keywords:
                        if kw.arg == "bound":
                            return self.ann_kind(cm, kw.value, None, _d + 1)
                    return UNKNOWN
            return UNKNOWN
        if isinstance(ann, ast.Subscript):
            head = ast.unparse(ann.value).split(".")[-1]
            sl = ann.slice
            elts = sl.elts if isinstance(sl, ast.Tuple) else [sl]
            if head == "Callable" and len(elts) == 2:
                # Callable[[args], R]: calling a value of this kind yields an R (call_kind)
                return ("callable", self.ann_kind(mod, elts[1], cls, _d + 1))
            if head in ("List", "list", "Iterable", "Sequence", "Iterator", "Generator"):
                return ("pylist", self.ann_kind(mod, elts[0], cls, _d + 1))
            if head in ("Dict", "dict"):
                return ("dict", self.ann_kind(mod, elts[-1], cls, _d + 1))
            if head in ("Tuple", "tuple"):
                if len(elts) == 2 and isinstance(elts[1], ast.Constant) and elts[1].value is Ellipsis:
                    return ("tuple", None)
                return ("tuple", tuple(self.ann_kind(mod, x, cls, _d + 1) for x in elts))
            if head in ("Type", "type"):
                return ("type", self.ann_kind(mod, elts[0], cls, _d + 1))
            if head in ("Optional",):
                return self.ann_kind(mod, elts[0], cls, _d + 1)
            if head in ("Union",):
                out = self.ann_kind(mod, elts[0], cls, _d + 1)
                for x in elts[1:]:
                    out = join(out, self.ann_kind(mod, x, cls, _d + 1))
                return out
            if head == "Callable":
                return UNKNOWN
            # Generic class subscript: TimedList[Item], np.ndarray[bool]
            return self.ann_kind(mod, ann.value, cls, _d + 1)
        return UNKNOWN

    # --------------------------------------------------------------- elements
    def elem_kind(self, k: K) -> K:
        h = k[0]
        if h in ("pylist", "iter"):
            return k[1] if k[1] is not None else UNKNOWN
        if h == "list":
            ic = self.M.item_class_of_list(k[1])
            return ("item", ic) if ic else UNKNOWN
        if h in ("series", "nd", "index"):
            return NUM if h != "index" else STR
        if h == "df":
            return STR
        if h == "dict":
            return STR
        if h == "mapset":
            cc = self.M.mapset_chart_class(k[1])
            return ("chart", cc) if cc else ("chart", MAP)
        if h == "tuple":
            if k[1]:
                out = k[1][0]
                for x in k[1][1:]:
                    out = join(out, x)
                return out
            return UNKNOWN
        if h in ("str",):
            return STR
        if h == "bytes":
            return NUM
        if h == "groupby":
            return ("tuple", (NUM, DF))
        if h == "union":
            out = None
            for x in k[1]:
                ek = self.elem_kind(x)
                out = ek if out is None else join(out, ek)
            return out or UNKNOWN
        return UNKNOWN

    # ------------------------------------------------------------- attributes
    def attr_kind(self, b: K, name: str, mod: str, node=None) -> K:
        M = self.M
        h = b[0]
        if h == "union":
            out = None
            for x in b[1]:
                k = self.attr_kind(x, name, mod, node)
                out = k if out is None else join(out, k)
            return out or UNKNOWN
        if h in ("chart", "mapset", "list", "item", "stacker", "inst") and not str(b[1]).startswith("ext:"):
            c = b[1]
            if name == "__class__":
                return ("type", b)
            if h == "chart":
                slots = M.map_slots(c)
                if name in slots:
                    return ("list", slots[name])
            if h == "mapset" and name == "maps":
                return ("pylist", self.elem_kind(b))
            if h == "list":
                if name == "_item_class":
                    return ("bound", "<list_props>._item_class", b)
                if name in M.list_columns(c):
                    return SERIESK
                if name in ("df", "_df"):
                    return DF
                if name in ("loc", "iloc"):
                    return ("indexer", DF, name)
            if h == "item":
                flds = M.item_fields(c)
                if name in flds:
                    dt = flds[name][0]
                    return {"float": NUM, "int": NUM, "bool": BOOL, "str": STR, "object": UNKNOWN, "b": ("bytes",)}.get(dt, UNKNOWN)
                if name == "data":
                    return SERIESK
            if h == "stacker":
                if name in M.stacker_props(c):
                    return SERIESK if MAPSET + ".Stacker" not in M.mro(c) else DF
                if name == "_stacked":
                    return DF
            # property / method / dataclass field / class attribute
            m = M.method(c, name)
            if m is not None:
                fn = M.funcs[m]
                if fn.is_property:
                    return self.return_kind(m, b, None, [], {}, None)
                return ("bound", m, b)
            for fname, ann, default, owner in M.dataclass_fields(c):
                if fname == name:
                    try:
                        k = self.ann_kind(M.classes[owner].mod, ast.parse(ann, mode="eval").body, owner)
                    except SyntaxError:
                        k = UNKNOWN
                    return k
            # annotated class attribute (``_stacked: pd.DataFrame``) or nested class
            for kk in M.mro(c):
                if kk not in M.classes:
                    continue
                if kk + "." + name in M.classes:
                    return ("type", self.class_instance_kind(kk + "." + name))
                for st in M.classes[kk].node.body:
                    if isinstance(st, ast.AnnAssign) and isinstance(st.target, ast.Name) and st.target.id == name:
                        return self.ann_kind(M.classes[kk].mod, st.annotation, kk)
                    if isinstance(st, ast.Assign) and any(isinstance(t, ast.Name) and t.id == name for t in st.targets):
                        if isinstance(st.value, ast.Constant):
                            return Typer._const_kind(st.value.value)
            # instance attributes assigned in __init__ (Pattern.df)
            ik = self.instance_attr_kind(c, name)
            if ik != UNKNOWN:
                return ik
            return UNKNOWN
        if h == "type":
            inner = b[1]
            if inner[0] in ("chart", "mapset", "list", "item", "stacker", "inst") and not str(inner[1]).startswith("ext:"):
                c = inner[1]
                if name == "__name__":
                    return STR
                if inner[0] == "list" and name == "_item_class":
                    return ("bound", "<list_props>._item_class", b)
                m = M.method(c, name)
                if m is not None:
                    return ("bound", m, b)
                for kk in M.mro(c):
                    if kk + "." + name in M.classes:
                        return ("type", self.class_instance_kind(kk + "." + name))
                cn = M.class_const_node(c, name)
                if cn is not None:
                    owner, nd = cn
                    if isinstance(nd, ast.Constant):
                        return Typer._const_kind(nd.value)
                    if isinstance(nd, ast.Dict):
                        return ("dict", UNKNOWN)
                    if isinstance(nd, (ast.List, ast.Tuple)):
                        return ("pylist", UNKNOWN)
                    if isinstance(nd, ast.Call) and isinstance(nd.func, ast.Name) and nd.func.id == "range":
                        return ("pylist", NUM)
                    return UNKNOWN
            return UNKNOWN
        if h == "module":
            r = M.resolve(b[1], name)
            if r is None and b[1] + "." + name in M.mods:
                return ("module", b[1] + "." + name)
            return self.def_kind(r)
        if h == "ext":
            return ("ext", b[1] + "." + name)
        if h == "df":
            if name in ("loc", "iloc", "at", "iat"):
                return ("indexer", DF, name)
            if name in ("columns", "index"):
                return ("index",)
            if name == "T":
                return DF
            if name == "values":
                return ND
            if name in ("shape",):
                return ("tuple", None)
            if name in ("size", "ndim", "empty"):
                return NUM
            if name in _DF_SAME or name in _REDUCE or name in (
                    "groupby", "to_dict", "to_numpy", "to_records", "iterrows", "itertuples", "items", "tolist",
                    "to_frame", "agg", "aggregate", "pipe", "insert", "pop", "update", "sort_values", "equals",
                    "to_csv", "to_string", "unique", "value_counts", "info", "memory_usage", "corr", "first", "last",
                    "__setitem__", "__getitem__", "to_list", "select_dtypes", "get", "keys", "melt", "pivot", "stack",
                    "unstack", "duplicated", "applymap", "eval", "droplevel", "swaplevel", "nth", "cumprod", "__repr__"):
                return ("pdmeth", "df", name)
            return SERIESK  # attribute-style column access
        if h == "series":
            if name in ("loc", "iloc", "at", "iat"):
                return ("indexer", SERIESK, name)
            if name == "index":
                return ("index",)
            if name == "values":
                return ND
            if name in ("str", "dt", "cat"):
                return ("accessor", name)
            if name in ("dtype", "name", "size", "shape", "empty", "ndim"):
                return UNKNOWN if name in ("dtype", "shape") else NUM
            return ("pdmeth", "series", name)
        if h == "nd":
            if name in ("T",):
                return ND
            if name in ("shape", "dtype", "size", "ndim"):
                return ("tuple", None) if name == "shape" else NUM
            return ("pdmeth", "nd", name)
        if h == "indexer":
            return ("pdmeth", "indexer", name)
        if h == "groupby":
            return ("pdmeth", "groupby", name)
        if h == "index":
            return ("pdmeth", "index", name)
        if h == "accessor":
            return ("pdmeth", "accessor", name)
        if h in ("pylist", "dict", "str", "bytes", "set", "tuple", "frac", "num"):
            return ("pymeth", h, name, b)
        return UNKNOWN

    def instance_attr_kind(self, c: str, name: str) -> K:
        key = ("attr", c, name)
        if key in self._ret_memo:
            return self._ret_memo[key]
        self._ret_memo[key] = UNKNOWN
        init = self.M.method(c, "__init__")
        out = UNKNOWN
        if init:
            ty = self.typer(init, None)
            if ty is None:
                del self._ret_memo[key]
                return UNKNOWN
            if ty is not None:
                for n in ast.walk(self.M.funcs[init].node):
                    if isinstance(n, ast.Assign):
                        for t in n.targets:
                            if isinstance(t, ast.Attribute) and isinstance(t.value, ast.Name) and t.value.id == "self" \
                                    and t.attr == name:
                                out = ty.kind(n.value)
        self._ret_memo[key] = out
        return out

    # ------------------------------------------------------------ subscripts
    def subscript_kind(self, b: K, sl, sk: K, ty: Typer) -> K:
        h = b[0]
        is_slice = isinstance(sl, ast.Slice)
        is_int = sk[0] == "num" and not is_slice
        if h == "union":
            out = None
            for x in b[1]:
                k = self.subscript_kind(x, sl, sk, ty)
                out = k if out is None else join(out, k)
            return out or UNKNOWN
        if h == "pylist":
            return b if is_slice else b[1]
        if h == "iter":
            return b[1]
        if h == "tuple":
            if is_slice or b[1] is None:
                return ("tuple", None) if is_slice else UNKNOWN
            if isinstance(sl, ast.Constant) and isinstance(sl.value, int) and -len(b[1]) <= sl.value < len(b[1]):
                return b[1][sl.value]
            if isinstance(sl, ast.UnaryOp) and isinstance(sl.operand, ast.Constant):
                v = -sl.operand.value
                if -len(b[1]) <= v < len(b[1]):
                    return b[1][v]
            return self.elem_kind(b)
        if h == "dict":
            return b[1]
        if h in ("str", "bytes"):
            return b if (is_slice or h == "str") else NUM
        if h == "list":
            if is_int:
                return self.elem_kind(b)
            if sk == UNKNOWN and not is_slice:
                return join(b, self.elem_kind(b)) if False else b
            return b
        if h == "mapset":
            if is_int:
                return self.elem_kind(b)
            if sk[0] == "type" and sk[1][0] == "list":
                return ("pylist", sk[1])
            return UNKNOWN
        if h == "chart":
            if sk[0] == "type" and sk[1][0] == "list":
                return ("pylist", sk[1])
            return ("pylist", ("list", TIMEDLIST))
        if h == "stacker":
            if MAPSET + ".Stacker" in self.M.mro(b[1]):
                return DF
            if sk[0] == "pylist":
                return DF
            return SERIESK if sk[0] == "str" else UNKNOWN
        if h == "df":
            if sk[0] == "str":
                return SERIESK
            if sk[0] in ("pylist", "series", "df", "nd", "slice", "index"):
                return DF
            return ("union", (SERIESK, DF)) if not is_slice else DF
        if h == "series":
            if is_int or sk[0] == "str":
                return NUM
            return SERIESK
        if h == "nd":
            if is_int:
                return UNKNOWN  # element or sub-array
            if sk[0] == "str":
                return ND  # record field
            return ND
        if h == "index":
            return STR if is_int else ("index",)
        if h == "indexer":
            base, nm = b[1], b[2]
            if nm in ("at", "iat"):
                return NUM
            if base[0] == "series":
                return NUM if is_int else SERIESK
            # frame indexer
            if isinstance(sl, ast.Tuple) and len(sl.elts) == 2:
                ck = ty.kind(sl.elts[1])
                rk = ty.kind(sl.elts[0])
                if ck[0] == "str" or (nm == "iloc" and ck[0] == "num"):
                    return NUM if rk[0] == "num" else SERIESK
                return DF
            if is_int:
                return SERIESK
            return DF
        if h == "groupby":
            return ("groupby",)
        if h == "inst":
            m = self.M.method(b[1], "__getitem__") if not str(b[1]).startswith("ext:") else None
            if m:
                return self.return_kind(m, b, None, [sk], {}, ty)
        return UNKNOWN

    # ----------------------------------------------------------------- calls
    def builtin_call(self, name: str, argk: List[K], e: ast.Call, ty: Typer) -> Optional[K]:
        a0 = argk[0] if argk else UNKNOWN
        if name in ("list", "sorted", "reversed"):
            return ("pylist", self.elem_kind(a0)) if argk else ("pylist", UNKNOWN)
        if name == "tuple":
            return ("tuple", None)
        if name == "set":
            return ("set",)
        if name == "dict":
            vk = None
            for kw in e.keywords:
                k = ty.kind(kw.value)
                vk = k if vk is None else join(vk, k)
            return ("dict", vk or UNKNOWN)
        if name == "zip":
            return ("iter", ("tuple", tuple(self.elem_kind(k) for k in argk)))
        if name == "enumerate":
            return ("iter", ("tuple", (NUM, self.elem_kind(a0))))
        if name == "map":
            if len(argk) >= 2:
                fk = argk[0]
                if fk[0] in ("func", "bound"):
                    return ("iter", self.return_kind(fk[1], fk[2] if fk[0] == "bound" else None, None, [], {}, ty))
                if fk[0] == "type":
                    return ("iter", fk[1])
                if isinstance(e.args[0], ast.Name) and e.args[0].id in _BUILTIN_RET:
                    return ("iter", _BUILTIN_RET[e.args[0].id])
            return ("iter", UNKNOWN)
        if name == "filter":
            return ("iter", self.elem_kind(argk[1])) if len(argk) > 1 else ("iter", UNKNOWN)
        if name == "range":
            return ("pylist", NUM)
        if name in ("max", "min", "sum"):
            if len(argk) == 1:
                ek = self.elem_kind(a0)
                return ek if ek != UNKNOWN else UNKNOWN
            out = a0
            for k in argk[1:]:
                out = join(out, k)
            return out
        if name == "type":
            return ("type", a0)
        if name == "iter":
            return ("iter", self.elem_kind(a0))
        if name == "next":
            return self.elem_kind(a0)
        if name == "open":
            return ("inst", "ext:file")
        if name == "super":
            return UNKNOWN
        if name == "getattr":
            return UNKNOWN
        if name == "divmod":
            return ("tuple", (NUM, NUM))
        return None

    def super_target(self, ty: Typer, sup: ast.Call, name: str) -> Optional[str]:
        fn = ty.fn
        if fn.cls is None:
            return None
        owner = fn.cls
        recv_cls = owner
        sk = ty.env.get("self") or ty.env.get("cls")
        if sk is not None:
            kk = sk[1] if sk[0] == "type" else sk
            if kk[0] in ("chart", "mapset", "list", "item", "stacker", "inst") and kk[1] in self.M.classes:
                recv_cls = kk[1]
        if sup.args:
            r = self.M.resolve_expr(fn.mod, sup.args[0], fn.cls)
            if r and r[0] == "class":
                owner = r[1]
        t = self.M.method_after(recv_cls, owner, name)
        if t is None:
            t = self.M.method_after(owner, owner, name)
        return t

    def call_kind(self, fk: K, e: ast.Call, argk: List[K], kwk: Dict[str, K], ty: Typer) -> K:
        h = fk[0]
        M = self.M
        if h == "union":
            out = None
            for x in fk[1]:
                k = self.call_kind(x, e, argk, kwk, ty)
                out = k if out is None else join(out, k)
            return out or UNKNOWN
        if h == "type":
            inner = fk[1]
            if inner[0] == "unknown":
                return UNKNOWN
            return inner
        if h == "func":
            return self.return_kind(fk[1], None, e, argk, kwk, ty)
        if h == "bound":
            if fk[1] == "<list_props>._item_class":
                lk = fk[2][1] if fk[2][0] == "type" else fk[2]
                return ("type", self.elem_kind(lk))
            return self.return_kind(fk[1], fk[2], e, argk, kwk, ty)
        if h == "ext":
            return self.external_call(fk[1], e, argk, kwk, ty)
        if h == "pdmeth":
            return self.pandas_method(fk[1], fk[2], e, argk, kwk, ty)
        if h == "pymeth":
            return self.py_method(fk[1], fk[2], fk[3], e, argk, ty)
        if h == "lambda":
            return UNKNOWN
        if h == "callable":
            return fk[1] if isinstance(fk[1], tuple) else UNKNOWN
        return UNKNOWN

    def external_call(self, dotted: str, e: ast.Call, argk, kwk, ty: Typer) -> K:
        a0 = argk[0] if argk else UNKNOWN
        if dotted in ("copy.deepcopy", "copy.copy"):
            return a0
        if dotted == "pandas.DataFrame" or dotted.startswith("pandas.DataFrame.from_") or dotted == "pandas.merge":
            return DF
        if dotted == "pandas.Series":
            return SERIESK
        if dotted == "pandas.concat":
            ek = self.elem_kind(a0)
            axis1 = any(kw.arg == "axis" and isinstance(kw.value, ast.Constant) and kw.value.value in (1, "columns")
                        for kw in e.keywords)
            if ek[0] == "series" and not axis1:
                return SERIESK
            return DF
        if dotted in ("pandas.to_numeric", "pandas.isna", "pandas.notna", "pandas.isnull"):
            return a0 if a0[0] in ("series", "df", "nd") else BOOL
        if dotted.startswith("numpy."):
            n = dotted[6:]
            if n in ("sum", "max", "min", "mean", "all", "any", "prod", "lcm", "gcd", "median", "std", "floor",
                     "ceil", "round", "sqrt", "log", "exp", "abs", "isnan", "float64", "int64", "ndim", "argmax",
                     "argmin"):
                if n in ("isnan", "abs", "floor", "ceil", "round", "sqrt", "log", "exp", "lcm", "gcd") and \
                        a0[0] in ("series", "nd", "df"):
                    return a0 if a0[0] != "df" else DF
                if n in ("all", "any", "isnan"):
                    return BOOL
                return NUM
            if n == "base_repr":
                return STR
            if n in ("diff", "where", "array", "asarray", "zeros", "ones", "arange", "concatenate", "stack", "vstack",
                     "hstack", "unique", "isin", "invert", "flip", "meshgrid", "indices", "triu_indices", "cumsum",
                     "sort", "argsort", "empty", "full", "linspace", "expand_dims", "vectorize", "intersect1d",
                     "logical_and", "logical_or", "logical_not", "nan_to_num", "repeat", "tile", "transpose",
                     "core.records.fromarrays", "lib.stride_tricks.sliding_window_view"):
                return ND
            return UNKNOWN
        if dotted.startswith("operator.") or dotted.startswith("_operator."):
            # operator.ge(a, b) is a >= b: element-wise on a Series / array operand, a scalar otherwise
            n = dotted.split(".", 1)[1]
            for k in argk[:2]:
                if k[0] in ("series", "nd", "df"):
                    return k
            if n in ("ge", "gt", "le", "lt", "eq", "ne", "not_", "truth", "contains", "is_", "is_not"):
                return BOOL if all(k[0] != "unknown" for k in argk[:2]) else UNKNOWN
            return UNKNOWN
        if dotted == "fractions.Fraction":
            return ("frac",)
        if dotted in ("functools.reduce",):
            return UNKNOWN
        if dotted in ("math.floor", "math.ceil", "struct.calcsize", "bisect.bisect_left", "bisect.bisect_right"):
            return NUM
        if dotted == "struct.unpack":
            return ("tuple", None)
        if dotted in ("codecs.encode",):
            return ("bytes",)
        if dotted in ("unidecode.unidecode",):
            return STR
        if dotted == "collections.deque":
            return ("pylist", self.elem_kind(a0))
        if dotted == "collections.namedtuple":
            return ("type", ("inst", "ext:namedtuple"))
        if dotted == "itertools.permutations":
            return ("iter", ("tuple", None))
        if dotted in ("yaml.safe_load", "yaml.load"):
            return ("dict", UNKNOWN)
        if dotted in ("yaml.dump",):
            return STR
        if dotted == "pathlib.Path":
            return ("inst", "ext:Path")
        if dotted in ("warnings.warn", "logging.warning", "logging.debug"):
            return NONE
        if dotted.startswith("dataclasses.field"):
            return UNKNOWN
        return UNKNOWN

    def pandas_method(self, recv: str, name: str, e: ast.Call, argk, kwk, ty: Typer) -> K:
        same = {"df": DF, "series": SERIESK, "nd": ND}.get(recv, UNKNOWN)
        if recv == "groupby":
            if name in ("agg", "aggregate", "sum", "first", "last", "mean", "max", "min", "count", "apply", "size",
                        "nth", "head", "tail", "cumsum", "diff", "shift", "transform", "ffill", "bfill"):
                return DF
            return UNKNOWN
        if recv == "indexer":
            return NONE if name == "__setitem__" else UNKNOWN
        if recv == "index":
            if name in ("union", "repeat", "difference", "intersection", "drop", "append", "sort_values", "delete", "insert", "unique",
                        "symmetric_difference", "copy", "rename", "take"):
                return ("index",)
            if name in ("get_loc",):
                return NUM
            if name in ("tolist", "to_list"):
                return ("pylist", STR)
            return UNKNOWN
        if recv == "accessor":
            return SERIESK
        if name in ("tolist", "to_list"):
            return ("pylist", NUM)
        if name in ("to_numpy", "to_records"):
            return ND
        if name == "to_dict":
            if recv == "df" and (any(ty.kind(a)[0] == "str" for a in e.args) or "orient" in kwk):
                return ("pylist", ("dict", UNKNOWN))
            return ("dict", UNKNOWN)
        if name == "to_frame":
            return DF
        if name == "groupby":
            return ("groupby",)
        if name == "iterrows":
            return ("iter", ("tuple", (NUM, SERIESK)))
        if name == "itertuples":
            return ("iter", ("tuple", None))
        if name == "items":
            return ("iter", ("tuple", (STR, SERIESK if recv == "df" else NUM)))
        if name in ("unique",):
            return ND
        if name in _REDUCE:
            if recv == "df":
                return SERIESK
            if recv == "nd" and ("axis" in kwk or len(argk) > 0):
                return ND
            return NUM
        if name in ("argsort", "astype", "transpose", "reshape", "flatten", "ravel", "copy", "cumsum", "clip",
                    "round", "squeeze", "view", "repeat", "take", "swapaxes", "nonzero", "searchsorted") and recv == "nd":
            return ND
        if name in ("argsort",) and recv == "series":
            return SERIESK
        if name in _DF_SAME or name in ("T",):
            return same
        if name in ("sort", "fill", "put", "resize") and recv == "nd":
            return NONE
        if name == "equals":
            return BOOL
        if name == "split" and recv == "nd":
            return ("pylist", ND)
        return UNKNOWN

    def py_method(self, recv: str, name: str, b: K, e: ast.Call, argk, ty: Typer) -> K:
        if recv == "str":
            if name in ("split", "rsplit", "splitlines", "partition", "rpartition"):
                return ("pylist", STR) if "partition" not in name else ("tuple", (STR, STR, STR))
            if name in ("strip", "lstrip", "rstrip", "join", "format", "upper", "lower", "replace", "zfill", "title",
                        "ljust", "rjust", "center", "capitalize"):
                return STR
            if name in ("startswith", "endswith", "isdigit", "isalpha", "isnumeric"):
                return BOOL
            if name in ("find", "rfind", "index", "count"):
                return NUM
            if name == "encode":
                return ("bytes",)
            return UNKNOWN
        if recv == "bytes":
            if name in ("split",):
                return ("pylist", ("bytes",))
            if name in ("strip", "upper", "lower", "join", "replace", "zfill"):
                return ("bytes",)
            if name == "decode":
                return STR
            if name in ("startswith", "endswith"):
                return BOOL
            return UNKNOWN
        if recv == "pylist":
            if name in ("copy",):
                return b
            if name in ("pop", "popleft"):
                return b[1] if b[1] is not None else UNKNOWN
            if name in ("index", "count"):
                return NUM
            if name in ("append", "extend", "insert", "sort", "reverse", "clear", "remove", "appendleft"):
                return NONE
            return UNKNOWN
        if recv == "dict":
            if name in ("get", "pop", "setdefault"):
                vk = b[1] if len(b) > 1 else UNKNOWN
                if len(argk) > 1:
                    return join(vk, argk[1]) if vk != UNKNOWN else UNKNOWN
                return vk
            if name == "items":
                return ("iter", ("tuple", (STR, b[1])))
            if name == "keys":
                return ("iter", STR)
            if name == "values":
                return ("iter", b[1])
            if name in ("update", "clear"):
                return NONE
            if name == "copy":
                return b
            return UNKNOWN
        if recv == "set":
            if name in ("add", "update", "discard", "remove", "clear"):
                return NONE
            return ("set",)
        if recv == "frac":
            return UNKNOWN
        return UNKNOWN

    # ---------------------------------------------------- return kinds (memo)
    def typer(self, fq: str, self_kind: Optional[K], arg_kinds=None) -> Optional[Typer]:
        key = (fq, self_kind, tuple(sorted((arg_kinds or {}).items())))
        if key in self._typers:
            return self._typers[key]
        if key in self._in_progress:
            return None
        fn = self.M.funcs.get(fq)
        if fn is None:
            return None
        self._in_progress.add(key)
        try:
            closure = None
            if fn.outer_fn is not None:
                outer = self.typer(fn.outer_fn, self_kind)
                closure = dict(outer.env) if outer is not None else None
            t = Typer(self.M, self, fn, self_kind, arg_kinds, closure=closure)
        finally:
            self._in_progress.discard(key)
        self._typers[key] = t
        return t

    def typer_for(self, fn: Fn, self_kind: Optional[K] = None) -> Typer:
        """kinds of the expressions of a (normalised) copy of a function: `Model.nfn(...)` hands out a copy whose nodes the
        typers of the original do not know"""
        key = ("#nfn", id(fn.node), self_kind)
        if key not in self._typers:
            closure = None
            if fn.outer_fn is not None:
                outer = self.typer(fn.outer_fn, self_kind)
                closure = dict(outer.env) if outer is not None else None
            self._typers[key] = Typer(self.M, self, fn, self_kind, None, closure=closure)
        return self._typers[key]

    def return_kind(self, fq: str, recv: Optional[K], e: Optional[ast.Call], argk, kwk, ty: Optional[Typer]) -> K:
        fn = self.M.funcs.get(fq)
        if fn is None:
            return UNKNOWN
        self_kind = None
        if recv is not None and fn.cls is not None and not fn.is_static:
            rk = recv[1] if recv[0] == "type" else recv
            if rk[0] in ("chart", "mapset", "list", "item", "stacker", "inst") and rk[1] in self.M.classes \
                    and fn.cls in self.M.mro(rk[1]):
                self_kind = rk
        if fn.name == "__init__" and self_kind is not None:
            return self_kind
        # bind a few argument kinds by position for polymorphic helpers (cast)
        arg_kinds = {}
        if e is not None and argk:
            ps = [p.arg for p in fn.node.args.posonlyargs + fn.node.args.args]
            if fn.cls is not None and not fn.is_static and fn.outer_fn is None and ps:
                ps = ps[1:]
            for p, k in zip(ps, argk):
                if k[0] == "type" or k[0] in ("chart", "list", "mapset"):
                    arg_kinds[p] = k
            for kname, k in (kwk or {}).items():
                if kname and (k[0] == "type" or k[0] in ("chart", "list", "mapset")):
                    arg_kinds[kname] = k
        key = ("ret", fq, self_kind, tuple(sorted(arg_kinds.items())))
        if key in self._ret_memo:
            return self._ret_memo[key]
        self._ret_memo[key] = UNKNOWN
        out = UNKNOWN
        ann = fn.node.returns
        ak = self.ann_kind(fn.mod, ann, fn.cls) if ann is not None else UNKNOWN
        t = self.typer(fq, self_kind, arg_kinds)
        inferred = UNKNOWN
        if t is not None:
            if t.yields:
                yk = t.yields[0]
                for y in t.yields[1:]:
                    yk = join(yk, y)
                inferred = ("iter", yk)
            elif t.returns:
                inferred = None
                known = [r for r in t.returns if r != UNKNOWN] or t.returns
                for r in known:
                    inferred = r if inferred is None else join(inferred, r)
            elif not any(isinstance(n, ast.Return) for n in ast.walk(fn.node)):
                inferred = NONE if ann is None else UNKNOWN
        out = self._pick(ak, inferred if inferred is not None else UNKNOWN)
        self._ret_memo[key] = out
        return out

    def _pick(self, ann: K, inf: K) -> K:
        if inf == UNKNOWN or inf is None:
            return ann
        if ann == UNKNOWN:
            return inf
        # prefer the more specific of the two when both are repo classes
        if ann[0] == inf[0] and ann[0] in ("chart", "mapset", "list", "item", "stacker", "inst") and \
                inf[1] in self.M.classes and ann[1] in self.M.mro(inf[1]):
            return inf
        if ann[0] == "pylist" and inf[0] == "pylist":
            return ("pylist", self._pick(ann[1] or UNKNOWN, inf[1] or UNKNOWN))
        if inf[0] == "union":
            return ann
        if ann[0] in ("pylist", "dict", "tuple") and inf[0] != ann[0]:
            return ann
        if ann[0] == "union":
            return inf
        return ann if ann[0] != inf[0] else inf
