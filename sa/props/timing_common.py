"""Facts about the timing engine shared by C02/C04/C05/C07/C10 (always re-derived from the current source)."""
from __future__ import annotations

import ast
from typing import Optional, Tuple

from ..model import AnalysisError
from .common import call_name, unparse

UTILS = "reamber.algorithms.timing.utils"
FROM_SNAP = f"{UTILS}.from_bpm_changes_snap.from_bpm_changes_snap"
FROM_OFFSET = f"{UTILS}.from_bpm_changes_offset.from_bpm_changes_offset"
OFFSET_TO_SNAP = f"{UTILS}.bpm_changes_offset_to_snap.bpm_changes_offset_to_snap"
RESEAT = f"{UTILS}.reseat_bpm_changes_snap.reseat_bpm_changes_snap"
TIMINGMAP = "reamber.algorithms.timing.TimingMap.TimingMap"


def sort_key_attr(call: ast.Call) -> Optional[str]:
    """'snap' for x.sort(key=lambda x: x.snap) / sorted(xs, key=lambda x: x.snap); '' for the default key; None if unknown."""
    k = next((kw.value for kw in call.keywords if kw.arg == "key"), None)
    if any(kw.arg == "reverse" and not (isinstance(kw.value, ast.Constant) and kw.value.value is False)
           for kw in call.keywords):
        return None
    if k is None:
        return ""
    if isinstance(k, ast.Lambda) and isinstance(k.body, ast.Attribute) and isinstance(k.body.value, ast.Name) and \
            k.args.args and k.body.value.id == k.args.args[0].arg:
        return k.body.attr
    return None


def first_sort_of(fn_node: ast.FunctionDef, name: str) -> Optional[Tuple[int, ast.Call, Optional[str]]]:
    """(index of the top-level statement, call, key attribute) of the first sort of local/param ``name``."""
    for i, s in enumerate(fn_node.body):
        if isinstance(s, ast.Expr) and isinstance(s.value, ast.Call) and call_name(s.value) == "sort" and \
                isinstance(s.value.func, ast.Attribute) and isinstance(s.value.func.value, ast.Name) and \
                s.value.func.value.id == name:
            return i, s.value, sort_key_attr(s.value)
        if isinstance(s, ast.Assign) and isinstance(s.targets[0], ast.Name) and s.targets[0].id == name and \
                isinstance(s.value, ast.Call) and call_name(s.value) == "sorted" and s.value.args and \
                isinstance(s.value.args[0], ast.Name) and s.value.args[0].id == name:
            return i, s.value, sort_key_attr(s.value)
    return None


def first_positional_use(fn_node: ast.FunctionDef, name: str) -> Optional[int]:
    """index of the first top-level statement that uses ``name`` positionally (subscript / zip of slices / iteration)."""
    for i, s in enumerate(fn_node.body):
        for n in ast.walk(s):
            if isinstance(n, ast.Subscript) and isinstance(n.value, ast.Name) and n.value.id == name:
                return i
            if isinstance(n, (ast.For, ast.comprehension)) and isinstance(n.iter, ast.Name) and n.iter.id == name:
                return i
    return None


def _positional_use_in(node: ast.AST, name: str) -> Optional[ast.AST]:
    for n in ast.walk(node):
        if isinstance(n, ast.Subscript) and isinstance(n.value, ast.Name) and n.value.id == name:
            return n
        if isinstance(n, ast.comprehension) and isinstance(n.iter, ast.Name) and n.iter.id == name:
            return n.iter
    return None


def sorted_on_every_path(fn_node: ast.FunctionDef, name: str, key_attr: str) -> Tuple[Optional[bool], str]:
    """must-analysis over the statement structure (if / while / for / try, break / continue / return / raise): at every positional
    use of ``name`` (subscript, iteration) the last thing that happened to the list on EVERY path reaching it is a sort by
    ``key_attr`` — `name.sort(key=..)` or `name = sorted(name, key=..)`; a re-binding or a mutating call in between makes it
    unsorted again.  Returns (True, ..) / (False, reason with the line of the use) / (None, ..) when no sort by that key exists."""
    MUT = {"append", "extend", "insert", "reverse", "pop", "remove", "clear", "__setitem__"}
    bad: List[str] = []
    seen_sort = [False]

    def sort_of(s) -> Optional[bool]:
        """True: sorts by the key; False: sorts by something else; None: not a sort statement of `name`"""
        c = None
        if isinstance(s, ast.Expr) and isinstance(s.value, ast.Call) and call_name(s.value) == "sort" and isinstance(s.value.func, ast.Attribute) and \
                isinstance(s.value.func.value, ast.Name) and s.value.func.value.id == name:
            c = s.value
        if isinstance(s, ast.Assign) and len(s.targets) == 1 and isinstance(s.targets[0], ast.Name) and s.targets[0].id == name and \
                isinstance(s.value, ast.Call) and call_name(s.value) == "sorted" and s.value.args and isinstance(s.value.args[0], ast.Name) and \
                s.value.args[0].id == name:
            c = s.value
        if c is None:
            return None
        return sort_key_attr(c) == key_attr

    def run(stmts, st: bool, brk: List[bool], cont: List[bool]) -> Optional[bool]:
        """state after the block (None: no path falls out of it)"""
        cur: Optional[bool] = st
        for s in stmts:
            if cur is None:
                break
            k = sort_of(s)
            if k is not None:
                if k:
                    seen_sort[0] = True
                cur = k
                continue
            if isinstance(s, (ast.FunctionDef, ast.AsyncFunctionDef, ast.ClassDef, ast.Import, ast.ImportFrom, ast.Pass)):
                continue
            if isinstance(s, ast.If):
                u = _positional_use_in(s.test, name)
                if u is not None and not cur:
                    bad.append(f"line {u.lineno}")
                a = run(s.body, cur, brk, cont)
                b = run(s.orelse, cur, brk, cont)
                cur = None if a is None and b is None else (a if b is None else (b if a is None else (a and b)))
                continue
            if isinstance(s, (ast.While, ast.For)):
                head = cur
                hdr = s.test if isinstance(s, ast.While) else s.iter
                const_true = isinstance(s, ast.While) and isinstance(s.test, ast.Constant) and bool(s.test.value)
                out_states: List[bool] = []
                for _ in range(3):          # two-point lattice: the loop head stabilises after at most two rounds
                    u = _positional_use_in(hdr, name)
                    if isinstance(s, ast.For) and isinstance(s.iter, ast.Name) and s.iter.id == name:
                        u = s.iter
                    b_, c_ = [], []
                    n_bad = len(bad)
                    if u is not None and not head:
                        bad.append(f"line {u.lineno}")
                    end = run(s.body, head, b_, c_)
                    back = [x for x in [end] + c_ if x is not None]
                    new_head = head and all(back)
                    out_states = b_
                    if new_head == head:
                        break
                    del bad[n_bad:]
                    head = new_head
                exits = list(out_states) + ([] if const_true else [head])
                if s.orelse and not const_true:
                    e2 = run(s.orelse, head, brk, cont)
                    exits = list(out_states) + ([e2] if e2 is not None else [])
                cur = None if not exits else all(exits)
                continue
            if isinstance(s, ast.Try):
                a = run(s.body, cur, brk, cont)
                hs = [run(h.body, False if a is None or not a else cur and a, brk, cont) for h in s.handlers]
                outs = [x for x in [a] + hs if x is not None]
                cur = None if not outs else all(outs)
                if s.finalbody:
                    cur = run(s.finalbody, bool(cur), brk, cont) if cur is not None else None
                continue
            if isinstance(s, ast.With):
                cur = run(s.body, cur, brk, cont)
                continue
            if isinstance(s, ast.Break):
                brk.append(cur)
                cur = None
                continue
            if isinstance(s, ast.Continue):
                cont.append(cur)
                cur = None
                continue
            u = _positional_use_in(s, name)
            if u is not None and not cur:
                bad.append(f"line {u.lineno}")
            if isinstance(s, (ast.Return, ast.Raise)):
                cur = None
                continue
            # re-binding / mutation
            for n in ast.walk(s):
                if isinstance(n, ast.Name) and n.id == name and isinstance(n.ctx, (ast.Store, ast.Del)):
                    cur = False
                if isinstance(n, ast.Call) and isinstance(n.func, ast.Attribute) and n.func.attr in MUT and isinstance(n.func.value, ast.Name) and \
                        n.func.value.id == name:
                    cur = False
                if isinstance(n, (ast.Subscript,)) and isinstance(n.ctx, (ast.Store, ast.Del)) and isinstance(n.value, ast.Name) and n.value.id == name:
                    cur = False
        return cur
    run(fn_node.body, False, [], [])
    if not seen_sort[0]:
        return None, "no sort"
    if bad:
        return False, f"'{name}' is used positionally ({bad[0]}) on a path where it is not sorted by '{key_attr}'"
    return True, f"'{name}' is sorted by {key_attr} on every path to a positional use"


def callee_sorts_param(ctx, qual: str, param: str, key_attr: str) -> Tuple[bool, str]:
    """Does the resolved function sort its parameter by ``key_attr`` before any positional use of it?"""
    fn = ctx.M.fn(qual)
    ok, why = sorted_on_every_path(fn.node, param, key_attr)
    if ok is not None:
        return ok, (f"{fn.name}: {why}" if not ok else f"{fn.name} sorts '{param}' by {key_attr} before use")
    srt = first_sort_of(fn.node, param)
    use = first_positional_use(fn.node, param)
    if srt is None:
        return False, f"{fn.name} does not sort '{param}'"
    if srt[2] != key_attr:
        return False, f"{fn.name} sorts '{param}' by '{srt[2]}' (not by '{key_attr}')"
    if use is not None and use < srt[0]:
        return False, f"{fn.name} uses '{param}' positionally before sorting it"
    return True, f"{fn.name} sorts '{param}' by {key_attr} before use"
