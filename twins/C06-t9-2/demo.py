"""Demo for change 2: QuaHoldList.from_yaml.

Run:  cd /tmp/wt7/C06 && PYTHONPATH=/tmp/wt7/C06 /venv/bin/python demo.py
Prints one line `DIGEST <sha256>` over a canonical dump of everything observed.
"""
import copy
import datetime
import hashlib
import os
import random
import re
import warnings
from decimal import Decimal
from fractions import Fraction
from pathlib import Path

import numpy as np
import pandas as pd
import yaml

from reamber.quaver.QuaMap import QuaMap
from reamber.quaver.lists.notes.QuaHoldList import QuaHoldList

random.seed(60602)
OUT = []


def emit(*parts):
    OUT.append(" | ".join(str(p) for p in parts))


def val(v):
    return f"{type(v).__name__}:{v!r}"


def dump_df(name, df):
    emit(name, "cols", [val(c) for c in df.columns], "dtypes", [str(t) for t in df.dtypes],
         "index", type(df.index).__name__, list(df.index))
    for row in df.itertuples(index=True, name=None):
        emit(name, "row", [val(v) for v in row])


def attempt(tag, fn):
    with warnings.catch_warnings(record=True) as ws:
        warnings.simplefilter("always")
        try:
            r = fn()
        except BaseException as e:  # noqa
            emit(tag, "RAISED", type(e).__name__, re.sub(r"0x[0-9a-fA-F]+", "0x?", str(e))[:300])
            r = None
        else:
            if isinstance(r, QuaHoldList):
                emit(tag, "type", type(r).__name__, type(r.df).__name__)
                dump_df(tag, r.df)
            elif isinstance(r, QuaMap):
                for k in ("hits", "holds", "bpms", "svs"):
                    emit(tag, k, type(getattr(r, k)).__name__)
                    dump_df(f"{tag}.{k}", getattr(r, k).df)
            else:
                emit(tag, "result", val(r))
    for w in ws:
        emit(tag, "WARN", w.category.__name__, str(w.message)[:160])
    return r


def check(tag, dicts):
    """from_yaml on `dicts`: result, warnings, input afterwards, aliasing,
    and what the list does next (to_yaml, the Hold properties, sorting)."""
    try:
        before = copy.deepcopy(dicts)
    except Exception:  # noqa
        before = None
    before_repr = repr(dicts)
    r = attempt(tag, lambda: QuaHoldList.from_yaml(dicts))
    emit(tag, "input repr same", repr(dicts) == before_repr)
    if before is not None:
        emit(tag, "input after", repr(dicts)[:2000])
    if r is None:
        return
    # the key sound lists of the result are the very objects of the input
    if isinstance(dicts, (list, tuple)) and all(isinstance(d, dict) for d in dicts):
        alias = []
        for i, d in enumerate(dicts):
            ks = d.get("KeySounds")
            alias.append(r.df["keysounds"].iloc[i] is ks if isinstance(ks, list) else None)
        emit(tag, "alias", alias)
        # and the fresh [] of two rows are not one object
        fresh = [i for i, d in enumerate(dicts) if not isinstance(d.get("KeySounds"), list)]
        if len(fresh) >= 2:
            emit(tag, "fresh distinct",
                 r.df["keysounds"].iloc[fresh[0]] is not r.df["keysounds"].iloc[fresh[1]])
    attempt(tag + ".to_yaml", lambda: r.to_yaml())
    dump_df(tag + ".after_to_yaml", r.df)
    attempt(tag + ".tail_offset", lambda: list(r.tail_offset))
    attempt(tag + ".sorted", lambda: r.sorted())
    attempt(tag + ".from(to)", lambda: QuaHoldList.from_yaml(r.to_yaml()))
    attempt(tag + ".deepcopy", lambda: r.deepcopy())


# --------------------------------------------------------------- hand written
KS = [dict(Sample=1, Volume=100)]
hand = {
    "empty": [],
    "one_empty_dict": [{}],
    "only_end": [dict(EndTime=5)],
    "only_end_lane": [dict(EndTime=5, Lane=1)],
    "full_one": [dict(StartTime=100, EndTime=350, Lane=3, KeySounds=[])],
    "full_keysounds": [dict(StartTime=100, EndTime=350, Lane=3, KeySounds=KS)],
    "key_order": [dict(KeySounds=[], Lane=2, EndTime=20, StartTime=10)],
    "no_start_all": [dict(EndTime=350, Lane=3), dict(EndTime=7, Lane=1, KeySounds=[])],
    "no_start_some": [dict(EndTime=350, Lane=3), dict(StartTime=2, EndTime=7, Lane=1)],
    "no_start_first": [dict(EndTime=9, Lane=1), dict(StartTime=4, EndTime=9, Lane=2), dict(EndTime=1, Lane=3)],
    "null_start": [dict(StartTime=None, EndTime=350, Lane=3)],
    "null_start_some": [dict(StartTime=None, EndTime=350, Lane=3), dict(StartTime=5, EndTime=6, Lane=1)],
    "nan_start": [dict(StartTime=float("nan"), EndTime=350, Lane=3)],
    "no_lane_all": [dict(StartTime=1, EndTime=2)],
    "no_lane_some": [dict(StartTime=1, EndTime=2), dict(StartTime=1, EndTime=2, Lane=4)],
    "null_lane": [dict(StartTime=1, EndTime=2, Lane=None)],
    "null_lane_some": [dict(StartTime=1, EndTime=2, Lane=None), dict(StartTime=1, EndTime=2, Lane=7)],
    "no_end_all": [dict(StartTime=1, Lane=2)],
    "null_end": [dict(StartTime=1, EndTime=None, Lane=2)],
    "null_end_some": [dict(StartTime=1, EndTime=None, Lane=2), dict(StartTime=1, EndTime=8, Lane=2)],
    "no_end_some": [dict(StartTime=1, Lane=2), dict(StartTime=1, EndTime=8, Lane=2)],
    "nan_end": [dict(StartTime=1, EndTime=float("nan"), Lane=2)],
    "no_keysounds": [dict(StartTime=1, EndTime=2, Lane=1), dict(StartTime=3, EndTime=4, Lane=2)],
    "keysounds_mixed": [
        dict(StartTime=1, EndTime=2, Lane=1, KeySounds=None),
        dict(StartTime=1, EndTime=2, Lane=1, KeySounds="abc"),
        dict(StartTime=1, EndTime=2, Lane=1, KeySounds=dict(Sample=1)),
        dict(StartTime=1, EndTime=2, Lane=1, KeySounds=(1, 2)),
        dict(StartTime=1, EndTime=2, Lane=1, KeySounds=[[1], [2]]),
        dict(StartTime=1, EndTime=2, Lane=1, KeySounds=0),
        dict(StartTime=1, EndTime=2, Lane=1),
        dict(StartTime=1, EndTime=2, Lane=1, KeySounds=[]),
        dict(StartTime=1, EndTime=2, Lane=1, KeySounds=KS),
    ],
    "shared_keysounds": [dict(StartTime=1, EndTime=2, Lane=1, KeySounds=KS),
                         dict(StartTime=3, EndTime=4, Lane=1, KeySounds=KS)],
    "zero_length": [dict(StartTime=5, EndTime=5, Lane=1)],
    "negative_length": [dict(StartTime=5, EndTime=2, Lane=1)],
    "negative_times": [dict(StartTime=-500, EndTime=-100, Lane=1), dict(StartTime=-1, EndTime=0, Lane=1)],
    "float_times": [dict(StartTime=0.4, EndTime=10.6, Lane=1), dict(StartTime=-0.6, EndTime=0.6, Lane=2)],
    "int_and_float": [dict(StartTime=1, EndTime=2.5, Lane=1), dict(StartTime=1.5, EndTime=4, Lane=2)],
    "float_lane": [dict(StartTime=1, EndTime=2, Lane=1.0), dict(StartTime=1, EndTime=2, Lane=2.5)],
    "lane_range": [dict(StartTime=1, EndTime=2, Lane=l) for l in (0, -3, 1, 10, 100, 2 ** 40)],
    "bool_values": [dict(StartTime=True, EndTime=False, Lane=True)],
    "bool_and_int": [dict(StartTime=True, EndTime=5, Lane=2), dict(StartTime=2, EndTime=5, Lane=True)],
    "str_start": [dict(StartTime="5", EndTime=10, Lane=1)],
    "str_both": [dict(StartTime="5", EndTime="10", Lane=1)],
    "str_end": [dict(StartTime=5, EndTime="10", Lane=1)],
    "str_lane": [dict(StartTime=5, EndTime=10, Lane="1")],
    "str_start_some": [dict(StartTime="5", EndTime=10, Lane=1), dict(EndTime=10, Lane=1)],
    "mixed_start": [dict(StartTime=5, EndTime=10, Lane=1), dict(StartTime="x", EndTime=10, Lane=1)],
    "obj_ints_and_none": [dict(StartTime=5, EndTime=10, Lane=1), dict(StartTime=None, EndTime=12, Lane=None)],
    "big_53": [dict(StartTime=2 ** 53 + 1, EndTime=2 ** 53 + 3, Lane=1)],
    "big_63": [dict(StartTime=2 ** 63, EndTime=2 ** 63 + 5, Lane=1)],
    "big_64": [dict(StartTime=2 ** 64, EndTime=2 ** 64 + 5, Lane=1)],
    "big_mixed": [dict(StartTime=2 ** 64, EndTime=2 ** 64 + 5, Lane=1), dict(EndTime=5, Lane=1)],
    "inf": [dict(StartTime=float("inf"), EndTime=float("inf"), Lane=1), dict(StartTime=0, EndTime=float("-inf"), Lane=1)],
    "date_values": [dict(StartTime=datetime.date(2001, 1, 1), EndTime=datetime.date(2001, 1, 2), Lane=1)],
    "datetime_values": [dict(StartTime=datetime.datetime(2001, 1, 1), EndTime=datetime.datetime(2001, 1, 2), Lane=1),
                        dict(EndTime=datetime.datetime(2001, 1, 2), Lane=1)],
    "decimal": [dict(StartTime=Decimal("1.5"), EndTime=Decimal("3"), Lane=1)],
    "fraction": [dict(StartTime=Fraction(1, 3), EndTime=Fraction(2, 3), Lane=1), dict(EndTime=Fraction(2, 3), Lane=2)],
    "numpy_scalars": [dict(StartTime=np.int32(5), EndTime=np.float32(7.5), Lane=np.int8(3))],
    "complex": [dict(StartTime=1j, EndTime=2, Lane=1)],
    "list_value": [dict(StartTime=[1], EndTime=2, Lane=1)],
    "extra_keys": [dict(StartTime=1, EndTime=2, Lane=1, Foo="bar", EditorLayer=3)],
    "extra_keys_some": [dict(StartTime=1, EndTime=2, Lane=1, Foo="bar"), dict(EndTime=2, Lane=1, Baz=None)],
    "dup_offset": [dict(StartTime=1, EndTime=2, Lane=1, offset=9)],
    "only_offset": [dict(offset=9, EndTime=20, Lane=1)],
    "dup_length": [dict(StartTime=1, EndTime=2, Lane=1, length=9)],
    "only_length": [dict(StartTime=1, length=9, Lane=1)],
    "dup_column": [dict(StartTime=1, EndTime=2, Lane=1, column=9)],
    "only_column": [dict(StartTime=1, EndTime=2, column=9)],
    "dup_keysounds": [dict(StartTime=1, EndTime=2, Lane=1, KeySounds=[], keysounds=[1])],
    "only_keysounds_lower": [dict(StartTime=1, EndTime=2, Lane=1, keysounds=[1])],
    "lower_case_keys": [dict(starttime=1, endtime=2, lane=1)],
    "int_keys": [{1: 2, "EndTime": 5, "Lane": 1}],
    "int_keys_only": [{1: 2, 3: 4}],
    "none_key": [{None: 2, "EndTime": 5, "Lane": 1}],
    "tuple_of_dicts": (dict(StartTime=1, EndTime=2, Lane=1),),
    "ties": [dict(StartTime=5, EndTime=9, Lane=1), dict(StartTime=5, EndTime=9, Lane=1), dict(StartTime=5, EndTime=7, Lane=1)],
    "unsorted": [dict(StartTime=50, EndTime=90, Lane=1), dict(StartTime=5, EndTime=9, Lane=2), dict(StartTime=25, EndTime=26, Lane=3)],
    # not lists of dicts at all
    "dict_of_lists": dict(StartTime=[1, 2], EndTime=[3, 4], Lane=[1, 2]),
    "dict_of_empty_lists": dict(EndTime=[], Lane=[]),
    "dict_of_empty_lists_full": dict(StartTime=[], EndTime=[], Lane=[], KeySounds=[]),
    "dict_no_start": dict(EndTime=[3, 4], Lane=[1, 2]),
    "frame": pd.DataFrame(dict(StartTime=[1.0, None], EndTime=[3, 4], Lane=[1, 2])),
    "frame_float": pd.DataFrame(dict(StartTime=[1.0, 2.0], EndTime=[3.0, 4.5], Lane=[1.0, 2.0], KeySounds=[[], None])),
    "frame_float_no_start": pd.DataFrame(dict(EndTime=[3.0, 4.5], Lane=[1.0, 2.0])),
    "frame_float_nan": pd.DataFrame(dict(StartTime=[1.0, None], EndTime=[3.0, None], Lane=[None, 2.0])),
    "frame_odd_index": pd.DataFrame(dict(EndTime=[3, 4], Lane=[1, 2]), index=[7, 3]),
    "frame_dup_cols": pd.DataFrame([[1, 2, 3, 4]], columns=["StartTime", "StartTime", "EndTime", "Lane"]),
    "frame_empty_cols": pd.DataFrame(columns=["StartTime", "EndTime", "Lane", "KeySounds"]),
    "list_of_series": [pd.Series(dict(StartTime=1, EndTime=2, Lane=1)), pd.Series(dict(EndTime=2, Lane=1))],
    "list_of_lists": [[1, 2, 3]],
    "list_of_ints": [1, 2],
    "list_of_none": [None],
    "none": None,
    "int": 5,
    "string": "abc",
    "array": np.array([[1, 2, 3]]),
    "generator": (d for d in [dict(StartTime=1, EndTime=2, Lane=1)]),
}
for name, dicts in hand.items():
    check(f"hand[{name}]", dicts)

# --------------------------------------------------------------- generated
rng = random.Random(4242)


def rand_time(kind):
    c = rng.random()
    if kind == "int" or (kind == "mix" and c < 0.5):
        return rng.randint(-3000, 400000)
    if kind == "float" or kind == "mix":
        return round(rng.uniform(-3000, 400000), rng.choice([0, 1, 3, 7]))
    return rng.choice([None, "12", 5, 7.5, True])  # "odd"


def gen_rows(i):
    n = rng.choice([1, 1, 2, 3, 5, 8, 13, 40])
    lanes = rng.choice([1, 4, 5, 7, 8, 10, 18])
    kind = ["int", "float", "mix", "int", "mix", "odd"][i % 6]
    p_no_start = rng.choice([0, 0, 0.3, 1])
    p_no_ks = rng.choice([0, 0.5, 1])
    p_no_lane = rng.choice([0, 0, 0, 0.3])
    p_no_end = rng.choice([0, 0, 0, 0.3])
    p_extra = rng.choice([0, 0, 0.2])
    rows = []
    for _ in range(n):
        d = {}
        if rng.random() >= p_no_start:
            d["StartTime"] = rand_time(kind)
        if rng.random() >= p_no_end:
            base = d.get("StartTime", 0)
            if isinstance(base, (int, float)) and not isinstance(base, bool):
                d["EndTime"] = base + rng.choice([0, 1, 30, 250, 999.5, -7, 100000])
            else:
                d["EndTime"] = rand_time(kind)
        if rng.random() >= p_no_lane:
            d["Lane"] = rng.randint(1, lanes)
        if rng.random() >= p_no_ks:
            d["KeySounds"] = rng.choice([[], [], [dict(Sample=rng.randint(1, 5), Volume=rng.choice([10, 100]))],
                                         [dict(Sample=1), dict(Sample=2)], None])
        if rng.random() < p_extra:
            d[rng.choice(["Foo", "EditorLayer", "Bar"])] = rng.choice([1, "x", None])
        keys = list(d)
        rng.shuffle(keys)
        rows.append({k: d[k] for k in keys})
    if len(rows) > 2 and rng.random() < 0.4:
        rows.insert(rng.randrange(len(rows)), dict(rows[0]))  # an exact tie
    return rows


for i in range(72):
    check(f"gen{i:02d}", gen_rows(i))

# --------------------------------------------------------------- through QuaMap
# documents with holds only / mixed / defaults omitted, read, written, read back
rng2 = random.Random(777)
for i in range(24):
    lanes = rng2.choice([4, 7, 8, 5, 1])
    notes = []
    n_holds = rng2.choice([1, 2, 5, 12])
    n_hits = 0 if i % 3 == 0 else rng2.choice([0, 1, 4])
    for _ in range(n_holds):
        d = {}
        if not (i % 2 and rng2.random() < 0.4):
            d["StartTime"] = rng2.choice([rng2.randint(-100, 99999), round(rng2.uniform(0, 99999), 3)])
        d["Lane"] = rng2.randint(1, lanes)
        d["EndTime"] = d.get("StartTime", 0) + rng2.choice([0, 1, 125, 500.25, 3000])
        if not (i % 2 and rng2.random() < 0.5):
            d["KeySounds"] = rng2.choice([[], [dict(Sample=2, Volume=40)]])
        notes.append(d)
    for _ in range(n_hits):
        notes.append(dict(StartTime=rng2.randint(0, 99999), Lane=rng2.randint(1, lanes), KeySounds=[]))
    rng2.shuffle(notes)
    doc = dict(Title=rng2.choice(["a: b", "# c", "'q'", "plain", ""]), Mode=f"Keys{lanes}",
               TimingPoints=[dict(StartTime=0, Bpm=150)], HitObjects=notes)
    if i % 4 == 0:
        doc["SliderVelocities"] = [dict(StartTime=10, Multiplier=1.5), dict(Multiplier=0.5), dict(StartTime=30)]
    text = yaml.safe_dump(doc, sort_keys=False, default_flow_style=(i % 5 == 0) or None)
    tag = f"doc{i:02d}"
    m = attempt(tag + ".read", lambda: QuaMap.read(text))
    if m is None:
        continue
    w = attempt(tag + ".write", lambda: m.write())
    if isinstance(w, str):
        m2 = attempt(tag + ".reread", lambda: QuaMap.read(w))
        if m2 is not None:
            emit(tag, "write stable", m2.write() == w)
    attempt(tag + ".stack", lambda: sorted(m.stack().offset.tolist())[:5])

# real .qua files and charts converted from other games, holds included
root = Path("rsc/maps")
for f in sorted((root / "qua").glob("*.qua")):
    tag = f"real[{f.name}]"
    m = QuaMap.read_file(f)
    emit(tag, "n holds", len(m.holds))
    dump_df(tag + ".holds", m.holds.df)
    attempt(tag + ".from(to)", lambda: QuaHoldList.from_yaml(m.holds.to_yaml()))

from reamber.algorithms.convert import OsuToQua, SMToQua
from reamber.osu.OsuMap import OsuMap
from reamber.sm.SMMapSet import SMMapSet

with warnings.catch_warnings():
    warnings.simplefilter("ignore")
    conv = [("osu:LNDan14", OsuToQua.convert(OsuMap.read_file(root / "osu" / "LNDan14.osu"), raise_bad_mode=False)),
            ("osu:Gravity", OsuToQua.convert(OsuMap.read_file(root / "osu" / "Gravity.osu"), raise_bad_mode=False))]
    conv += [(f"sm:Escapes#{j}", q) for j, q in enumerate(
        SMToQua.convert(SMMapSet.read_file(root / "sm" / "Escapes.sm"), raise_bad_mode=False))]
for cname, q in conv:
    tag = f"conv[{cname}]"
    emit(tag, "n holds", len(q.holds), [str(t) for t in q.holds.df.dtypes])
    y = attempt(tag + ".holds.to_yaml.len", lambda: len(q.holds.to_yaml()))
    if y:
        attempt(tag + ".from(to)", lambda: QuaHoldList.from_yaml(q.holds.to_yaml()))
    w = q.write()
    m = attempt(tag + ".read(write)", lambda: QuaMap.read(w))
    if m is not None:
        emit(tag, "write stable", m.write() == w)

blob = "\n".join(OUT).encode("utf-8")
if os.environ.get("C06_DUMP"):
    Path(os.environ["C06_DUMP"]).write_bytes(blob)
print("DIGEST", hashlib.sha256(blob).hexdigest())
