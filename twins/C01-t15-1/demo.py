"""Demo for C01 k=1: the [TimingPoints] line classifiers.

Exercises OsuTimingPointMeta.is_timing_point / is_slider_velocity through
OsuMap.read / OsuMap.write / read_file / write_file, OsuBpmList.read,
OsuSvList.read, OsuBpm.read_string and OsuSv.read_string on generated inputs
and prints one sha256 digest over a canonical text of everything observed.

Run:  cd /tmp/r15/C01 && PYTHONPATH=/tmp/r15/C01 /venv/bin/python demo.py
"""
import copy
import hashlib
import os
import random
import sys
import tempfile

import pandas as pd

import reamber
from reamber.osu.OsuBpm import OsuBpm
from reamber.osu.OsuMap import OsuMap
from reamber.osu.OsuSv import OsuSv
from reamber.osu.OsuTimingPointMeta import OsuTimingPointMeta
from reamber.osu.lists.OsuBpmList import OsuBpmList
from reamber.osu.lists.OsuSvList import OsuSvList

print(reamber.__file__, file=sys.stderr)

rng = random.Random(150115)
out: list[str] = []


def emit(*parts):
    out.append(" | ".join(str(p) for p in parts))


def canon_df(df: pd.DataFrame) -> str:
    rows = [
        "cols=" + repr(list(df.columns)),
        "dtypes=" + repr([str(t) for t in df.dtypes]),
        "index=" + repr(list(df.index)) + ":" + str(df.index.dtype),
    ]
    for ix, row in df.iterrows():
        rows.append(repr(ix) + "->" + repr([repr(v) for v in row.tolist()]))
    return "\n".join(rows)


def canon_map(m: OsuMap) -> str:
    parts = []
    for name in ("bpms", "svs", "hits", "holds"):
        lst = getattr(m, name)
        parts.append(f"<{name}:{type(lst).__name__}>")
        parts.append(canon_df(lst.df))
    parts.append("<samples>")
    parts.append(canon_df(m.samples.df))
    parts.append(
        repr(
            (
                m.circle_size,
                m.title,
                m.title_unicode,
                m.artist,
                m.version,
                m.creator,
                m.tags,
                m.audio_file_name,
                m.preview_time,
                m.background_file_name,
            )
        )
    )
    return "\n".join(parts)


def attempt(label, fn):
    try:
        r = fn()
    except BaseException as e:  # noqa
        ctx = type(e.__context__).__name__ if e.__context__ is not None else None
        emit(label, "EXC", type(e).__name__, repr(e.args), "ctx=" + str(ctx))
        return None
    return r


# ---------------------------------------------------------------- generators
def rnd_time():
    c = rng.randrange(6)
    if c == 0:
        return str(rng.randint(-5000, 5000))
    if c == 1:
        return repr(round(rng.uniform(-3000, 400000), rng.randint(1, 6)))
    if c == 2:
        return str(rng.randint(10**6, 10**9))
    if c == 3:
        return repr(rng.uniform(-1, 1))
    if c == 4:
        return "-0"
    return str(rng.randint(0, 200000))


def rnd_bpm_code():
    c = rng.randrange(5)
    if c == 0:
        return repr(60000.0 / rng.choice([60, 90, 120, 150.5, 174, 222.22, 300]))
    if c == 1:
        return str(rng.randint(1, 2000))
    if c == 2:
        return repr(rng.uniform(0.001, 5000))
    if c == 3:
        return "-" + str(rng.randint(1, 999))  # odd but legal text
    return "1e3"


def rnd_sv_code():
    c = rng.randrange(4)
    if c == 0:
        return repr(-100.0 / rng.choice([0.1, 0.5, 1, 1.25, 2, 10]))
    if c == 1:
        return "-" + str(rng.randint(1, 1000))
    if c == 2:
        return repr(-rng.uniform(0.01, 10000))
    return str(rng.randint(1, 500))  # positive code -> negative multiplier


def good_tp(flag: str):
    code = rnd_bpm_code() if flag == "1" else rnd_sv_code()
    return ",".join(
        [
            rnd_time(),
            code,
            str(rng.choice([3, 4, 5, 7])),
            str(rng.randint(0, 3)),
            str(rng.randint(0, 9)),
            str(rng.randint(0, 100)),
            flag,
            str(rng.choice([0, 1, 2, 3, 8, 9])),
        ]
    )


ODD_FLAGS = ["2", "", "01", "00", "1.0", "0.0", " 1", "1 ", " 0", "True", "-1", "10", "+1"]


def odd_tp():
    """Lines that must be classified as neither / or exercise the edges."""
    c = rng.randrange(10)
    base = good_tp(rng.choice("01")).split(",")
    if c == 0:  # 7 fields
        return ",".join(base[:7])
    if c == 1:  # 9 fields
        return ",".join(base + [str(rng.randint(0, 5))])
    if c == 2:  # odd flag text
        base[6] = rng.choice(ODD_FLAGS)
        return ",".join(base)
    if c == 3:  # trailing comma -> 9 fields
        return ",".join(base) + ","
    if c == 4:  # leading comma -> 9 fields, flag shifts
        return "," + ",".join(base)
    if c == 5:  # 6 fields (old dialect)
        return ",".join(base[:6])
    if c == 6:  # only commas
        return "," * rng.choice([6, 7, 8])
    if c == 7:  # comment / junk
        return rng.choice(["// comment", "junk", "1", "0", "a,b", "[Colours]"])
    if c == 8:  # flag in the wrong slot
        base[5], base[6] = base[6], "7"
        return ",".join(base)
    return ",".join(base[:6] + [rng.choice("01")] + base[7:]).replace(",", ";")


def bad_value_tp():
    """Right shape and flag, but a field the item reader rejects."""
    flag = rng.choice("01")
    base = good_tp(flag).split(",")
    c = rng.randrange(5)
    if c == 0:
        base[1] = "0"  # ZeroDivisionError
    elif c == 1:
        base[0] = "abc"  # ValueError
    elif c == 2:
        base[7] = "x"
    elif c == 3:
        base[3] = "1.5"
    else:
        base[1] = ""
    return ",".join(base)


def hit_line(keys):
    col = rng.randrange(keys)
    lo = -(-512 * col // keys)
    hi = -(-512 * (col + 1) // keys) - 1
    x = rng.randint(lo, max(lo, hi))
    t = rng.choice([rng.randint(-2000, 300000), rng.randint(0, 1000)])
    return f"{x},192,{t},1,{rng.randint(0, 14)},{rng.randint(0, 3)}:{rng.randint(0, 3)}:{rng.randint(0, 9)}:{rng.randint(0, 100)}:{rng.choice(['', 'hit.wav', 'ノート.ogg'])}"


def hold_line(keys):
    col = rng.randrange(keys)
    lo = -(-512 * col // keys)
    hi = -(-512 * (col + 1) // keys) - 1
    x = rng.randint(lo, max(lo, hi))
    t = rng.randint(-2000, 300000)
    ln = rng.choice([0, 1, rng.randint(1, 5000)])
    return f"{x},192,{t},128,{rng.randint(0, 14)},{t + ln}:{rng.randint(0, 3)}:{rng.randint(0, 3)}:{rng.randint(0, 9)}:{rng.randint(0, 100)}:{rng.choice(['', 'ln.wav'])}"


TITLES = ["Plain", "Re:Zero: the:map", "夜に駆ける", "a : b", "Ünï çödé: x"]


def osu_text(keys, tp_lines, n_hit, n_hold):
    title = rng.choice(TITLES)
    head = [
        "osu file format v14",
        "",
        "[General]",
        "AudioFilename: audio.mp3",
        "AudioLeadIn: 0",
        f"PreviewTime: {rng.choice([-1, 0, 12345])}",
        "Countdown: 0",
        "SampleSet: Soft",
        "StackLeniency: 0.7",
        "Mode: 3",
        "LetterboxInBreaks: 0",
        "SpecialStyle: 0",
        "WidescreenStoryboard: 0",
        "",
        "[Editor]",
        "DistanceSpacing: 1.2",
        "BeatDivisor: 4",
        "GridSize: 8",
        "TimelineZoom: 2.5",
        "",
        "[Metadata]",
        f"Title:{title}",
        f"TitleUnicode:{title}",
        "Artist:Some:one",
        "ArtistUnicode:Some:one",
        "Creator:me",
        f"Version:{keys}K: Another",
        "Source:",
        "Tags:a b  c",
        "BeatmapID:1",
        "BeatmapSetID:2",
        "",
        "[Difficulty]",
        "HPDrainRate:8",
        f"CircleSize:{keys}",
        "OverallDifficulty:8",
        "ApproachRate:5",
        "SliderMultiplier:1.4",
        "SliderTickRate:1",
        "",
        "[Events]",
        "//Background and Video events",
        '0,0,"bg.jpg",0,0',
        "//Break Periods",
        "//Storyboard Sound Samples",
        'Sample,100,0,"s.wav",60',
        "",
        "[TimingPoints]",
    ]
    notes = [hit_line(keys) for _ in range(n_hit)] + [
        hold_line(keys) for _ in range(n_hold)
    ]
    rng.shuffle(notes)
    return head + tp_lines + ["", "", "[HitObjects]"] + notes + [""]


# ----------------------------------------------------- A. direct classifiers
direct_inputs = []
for _ in range(40):
    direct_inputs.append(good_tp(rng.choice("01")))
for _ in range(60):
    direct_inputs.append(odd_tp())
for _ in range(10):
    direct_inputs.append(bad_value_tp())
direct_inputs += ["", ",", " , , , , , ,1, ", "0,0,0,0,0,0,1,0\n", "０,０,０,０,０,０,１,０"]


class MyStr(str):
    pass


direct_inputs.append(MyStr("5,500,4,1,0,50,1,0"))
direct_inputs.append(MyStr("5,-50,4,1,0,50,0,1"))

for i, s in enumerate(direct_inputs):
    before = str(s)
    for fn in (
        OsuTimingPointMeta.is_timing_point,
        OsuTimingPointMeta.is_slider_velocity,
        OsuBpm.is_timing_point,  # inherited access
        OsuSv.is_slider_velocity,
    ):
        r = attempt(f"A{i}:{fn.__qualname__}", lambda: fn(s))
        emit(f"A{i}", fn.__qualname__, repr(s), type(r).__name__, repr(r))
    assert s == before

# non-string arguments: the exception type is part of the behaviour
for j, bad in enumerate([None, 7, 1.5, b"0,0,0,0,0,0,1,0", ["0"] * 8, ("1",) * 8]):
    snap = copy.deepcopy(bad)
    for fn in (OsuTimingPointMeta.is_timing_point, OsuTimingPointMeta.is_slider_velocity):
        r = attempt(f"A-bad{j}:{fn.__name__}", lambda: fn(bad))
        emit(f"A-bad{j}", fn.__name__, type(r).__name__, repr(r))
    emit(f"A-bad{j}", "input-after", repr(bad), bad == snap)

# instance access (staticmethod through an item)
b = OsuBpm(offset=10.5, bpm=123.0)
v = OsuSv(offset=-3.25, multiplier=0.5)
for obj in (b, v):
    line = obj.write_string()
    emit("A-inst", type(obj).__name__, line, obj.is_timing_point(line), obj.is_slider_velocity(line))
    emit("A-inst-state", repr(obj.data.to_dict()), repr([str(type(x)) for x in obj.data.tolist()]))

# ------------------------------------------- B. item / list readers on lines
for i in range(40):
    kind = rng.randrange(4)
    if kind == 0:
        s = good_tp("1")
    elif kind == 1:
        s = good_tp("0")
    elif kind == 2:
        s = odd_tp()
    else:
        s = bad_value_tp()
    for as_dict in (True, False):
        r = attempt(f"B{i}:bpm:{as_dict}", lambda: OsuBpm.read_string(s, as_dict=as_dict))
        if r is not None:
            d = r if as_dict else r.data.to_dict()
            emit(f"B{i}", "bpm", as_dict, repr(s), type(r).__name__, repr({k: (type(x).__name__, x) for k, x in d.items()}))
            if not as_dict:
                emit(f"B{i}", "bpm-dtype", str(r.data.dtype), r.write_string())
        r = attempt(f"B{i}:sv:{as_dict}", lambda: OsuSv.read_string(s, as_dict=as_dict))
        if r is not None:
            d = r if as_dict else r.data.to_dict()
            emit(f"B{i}", "sv", as_dict, repr(s), type(r).__name__, repr({k: (type(x).__name__, x) for k, x in d.items()}))
            if not as_dict:
                emit(f"B{i}", "sv-dtype", str(r.data.dtype), r.write_string())

for i in range(12):
    n = rng.choice([0, 1, 2, 5, 9])
    flag = rng.choice("01")
    lines = [good_tp(flag) for _ in range(n)]
    if i % 4 == 3 and n:
        lines[rng.randrange(n)] = odd_tp()  # one bad line -> the whole read raises
    snap = list(lines)
    for cls in (OsuBpmList, OsuSvList):
        r = attempt(f"B-list{i}:{cls.__name__}", lambda: cls.read(lines))
        if r is not None:
            emit(f"B-list{i}", cls.__name__, type(r).__name__, canon_df(r.df))
            emit(f"B-list{i}", "write", repr(r.write()))
    emit(f"B-list{i}", "input-after", lines == snap)

# ------------------------------------------------ C. whole charts, all keys
tmpdir = tempfile.mkdtemp(prefix="c01k1_")
charts = []
for i in range(45):
    keys = (i % 18) + 1
    n_good_b = rng.choice([1, 1, 2, 4])
    n_good_s = rng.choice([0, 1, 3, 8])
    n_odd = rng.choice([0, 0, 2, 6])
    tp = (
        [good_tp("1") for _ in range(n_good_b)]
        + [good_tp("0") for _ in range(n_good_s)]
        + [odd_tp() for _ in range(n_odd)]
    )
    if i in (7, 19, 31):  # shape ok, value rejected by the item reader
        tp.append(bad_value_tp())
    if i == 11:  # no timing points at all
        tp = []
    if i == 12:  # only SVs
        tp = [good_tp("0") for _ in range(3)]
    if i == 13:  # only odd lines
        tp = [odd_tp() for _ in range(5)]
    rng.shuffle(tp)  # unsorted rows
    if i % 5 == 0:  # whitespace around lines is stripped by OsuMap.read
        tp = [rng.choice(["", " ", "\t"]) + t + rng.choice(["", " ", "\r"]) for t in tp]
    lines = osu_text(keys, tp, rng.choice([0, 3, 10]), rng.choice([0, 2, 6]))
    snap = list(lines)

    m = attempt(f"C{i}:read", lambda: OsuMap.read(lines))
    emit(f"C{i}", "input-after", lines == snap, len(lines))
    emit(f"C{i}", "classes", repr([(OsuTimingPointMeta.is_timing_point(t.strip()), OsuTimingPointMeta.is_slider_velocity(t.strip())) for t in tp]))
    if m is None:
        continue
    charts.append(m)
    emit(f"C{i}", "keys", keys, "read", canon_map(m))

    # write -> read -> write generations must not drift
    gen1 = attempt(f"C{i}:write1", lambda: m.write())
    if gen1 is None:
        continue
    emit(f"C{i}", "gen1", repr(gen1))
    state_after_write = canon_map(m)
    emit(f"C{i}", "map-unchanged-by-write", state_after_write == canon_map(OsuMap.read(snap)))
    text1 = "\n".join(gen1).split("\n")
    m2 = attempt(f"C{i}:read2", lambda: OsuMap.read(text1))
    if m2 is None:
        continue
    gen2 = m2.write()
    m3 = OsuMap.read("\n".join(gen2).split("\n"))
    gen3 = m3.write()
    emit(f"C{i}", "gen2", repr(gen2))
    emit(f"C{i}", "gen2==gen3", gen2 == gen3, canon_map(m2) == canon_map(m3))

    if i % 3 == 0:  # through files
        path = os.path.join(tmpdir, f"c{i}.osu")
        m.write_file(path)
        with open(path, encoding="utf8") as f:
            emit(f"C{i}", "file", hashlib.sha256(f.read().encode("utf8")).hexdigest())
        mf = OsuMap.read_file(path)
        emit(f"C{i}", "file-read", canon_map(mf))
        os.remove(path)

    if i % 4 == 1 and len(m.svs) > 1:
        # non-default row labels after a filter, then write and re-read
        mm = m.deepcopy()
        keep = mm.svs.df[mm.svs.df.offset >= mm.svs.df.offset.median()]
        mm.svs = OsuSvList(keep)
        emit(f"C{i}", "filtered-index", repr(list(mm.svs.df.index)))
        w = mm.write()
        emit(f"C{i}", "filtered-write", repr(w))
        emit(f"C{i}", "filtered-read", canon_map(OsuMap.read("\n".join(w).split("\n"))))
        emit(f"C{i}", "orig-untouched", canon_map(m) == state_after_write)

# in-memory charts -> text -> chart (writer output must classify properly)
for i in range(10):
    keys = rng.randint(1, 18)
    m = OsuMap()
    m.circle_size = keys
    m.bpms = OsuBpmList(
        [OsuBpm(offset=rng.uniform(-500, 5000), bpm=rng.choice([-120.0, 60.0, 150.25, 1e-3, 1e6]), kiai=bool(rng.getrandbits(1))) for _ in range(rng.randint(1, 3))]
    )
    m.svs = OsuSvList(
        [OsuSv(offset=rng.uniform(-500, 5000), multiplier=rng.choice([-2.0, 0.01, 1.0, 3.3333, 1e4]), volume=rng.randint(0, 100)) for _ in range(rng.choice([0, 1, 4]))]
    )
    before = canon_map(m)
    w = m.write()
    emit(f"D{i}", "write", repr(w))
    emit(f"D{i}", "unchanged", canon_map(m) == before)
    r = attempt(f"D{i}:read", lambda: OsuMap.read("\n".join(w).split("\n")))
    if r is not None:
        emit(f"D{i}", "read", canon_map(r))
        emit(f"D{i}", "stable", r.write() == OsuMap.read("\n".join(r.write()).split("\n")).write())

os.rmdir(tmpdir)

# (osu! has no map-set class in this library; "several charts" are covered by
# the 45 independent charts above.)
emit("E", len(charts))

text = "\n".join(out)
print(f"{len(out)} records", file=sys.stderr)
print(hashlib.sha256(text.encode("utf8")).hexdigest())
