#!/usr/bin/env python3
"""eval_seeds.py [--own] [--dir D] [ID-prefix ...] — what do the checks say about each seeded change?

Every <D>/<id>/patch.diff (default D = /verif/seeded) is applied in a scratch worktree of /repo (under $TMPDIR, removed afterwards;
/repo itself is not touched) and the checks are run against it with --root --no-write: the seed's own property's check, and —
unless --own — every other check too.  Prints one line per seed: own exit code, first report, other checks that exit 1.
With --dir, writes <D>/<id>/static.json.  Not part of the registered check commands; parsing only, the library is never run."""
import json, os, pathlib, re, subprocess, sys, tempfile
from concurrent.futures import ThreadPoolExecutor
HERE = pathlib.Path(__file__).resolve().parent.parent
ALL = "C01 C02 C03 C04 C05 C06 C07 C08 C09 C10 C12 C13 C14 C15 C16 C17 C18 C19 C20".split()
args = sys.argv[1:]
own_only = "--own" in args
if own_only:
    args.remove("--own")
D = HERE / "seeded"
write_static = "--dir" in args
if "--dir" in args:
    i = args.index("--dir")
    D = pathlib.Path(args[i + 1]).resolve()
    del args[i:i + 2]
only = args
repo = os.environ.get("REPO", "/repo")


def sh(c, cwd=None):
    r = subprocess.run(c, shell=True, cwd=cwd, capture_output=True, text=True)
    return r.returncode, r.stdout + r.stderr


def first_report(o):
    for l in o.splitlines():
        s = l.strip()
        if (s.startswith("reamber/") and re.search(r"\bC\d\d\.", s)) or "ANALYSIS-ERROR" in s:
            return s[:400]
    return ""


def work(a):
    wt, ids = a
    out = {}
    for sid in ids:
        d = D / sid
        sh("git reset -q --hard HEAD && git clean -fdq", wt)
        rc, _ = sh(f"git apply {d}/patch.diff", wt)
        if rc:
            rc, _ = sh(f"git apply --3way {d}/patch.diff", wt)
        if rc:
            out[sid] = {"apply": "failed"}
            continue
        own = re.match(r"(C\d\d)", sid).group(1)
        rc, o = sh(f"python3-vt -m sa.check {own} --root {wt} --no-write", HERE)
        r = {"own": own, "exit": rc, "first_report": first_report(o), "others_exit_1": [], "others_exit_2": []}
        if not own_only:
            for q in ALL:
                if q == own:
                    continue
                rc2, o2 = sh(f"python3-vt -m sa.check {q} --root {wt} --no-write", HERE)
                if rc2 == 1:
                    r["others_exit_1"].append(q)
                elif rc2:
                    r["others_exit_2"].append(q)
        out[sid] = r
        if write_static:
            (d / "static.json").write_text(json.dumps(r, indent=1))
    sh("git reset -q --hard HEAD && git clean -fdq", wt)
    return out


ids = sorted(p.name for p in D.iterdir() if (p / "patch.diff").exists() and (not only or any(p.name.startswith(o) for o in only)))
n = min(16, max(1, len(ids)))
tmp = tempfile.mkdtemp(prefix="seeds-")
wts = []
res = {}
try:
    for i in range(n):
        wt = f"{tmp}/wt{i}"
        rc, o = sh(f"git -C {repo} worktree add --detach {wt} HEAD")
        assert rc == 0, o
        wts.append(wt)
    with ThreadPoolExecutor(n) as ex:
        for r in ex.map(work, [(wts[i], ids[i::n]) for i in range(n)]):
            res.update(r)
finally:
    for wt in wts:
        sh(f"git -C {repo} worktree remove --force {wt}")
    sh(f"git -C {repo} worktree prune")
    sh(f"rm -rf {tmp}")
cnt = {}
for sid, r in sorted(res.items()):
    if r.get("apply") == "failed":
        print(sid, "apply failed")
        cnt["apply failed"] = cnt.get("apply failed", 0) + 1
        continue
    cnt[r["exit"]] = cnt.get(r["exit"], 0) + 1
    print(sid, "exit", r["exit"], "| others1:", ",".join(r["others_exit_1"]) or "-", "| others2:", ",".join(r["others_exit_2"]) or "-",
          "|", r["first_report"][:230])
print("totals by own exit code:", cnt)
