"""Demonstration for property C03 (StepMania writing).

Exercises SMMapSet.write() / SMMapSet.write_file() / SMMap.write() /
SMMapSet._write_metadata() on many generated and bundled inputs and prints ONE
sha256 digest over a canonical text of: all results, their types, exception
types raised, warnings emitted and the state of the inputs afterwards.

Run as:  cd <worktree> && PYTHONPATH=<worktree> /venv/bin/python demo.py
"""
from __future__ import annotations

import hashlib
import os
import random
import sys
import tempfile
import warnings
from fractions import Fraction
from pathlib import Path

import numpy as np
import pandas as pd

import reamber

print(reamber.__file__, file=sys.stderr)

from reamber.algorithms.convert.OsuToSM import OsuToSM
from reamber.algorithms.convert.QuaToSM import QuaToSM
from reamber.osu.OsuMap import OsuMap
from reamber.quaver.QuaMap import QuaMap
from reamber.sm import (
    SMBpm,
    SMFake,
    SMHit,
    SMHold,
    SMKeySound,
    SMLift,
    SMMap,
    SMMapSet,
    SMMine,
    SMRoll,
    SMStop,
)
from reamber.sm.SMMapMeta import SMMapChartTypes
from reamber.sm.lists import SMBpmList, SMStopList
from reamber.sm.lists.notes import (
    SMFakeList,
    SMHitList,
    SMHoldList,
    SMKeySoundList,
    SMLiftList,
    SMMineList,
    SMRollList,
)

ROOT = Path(reamber.__file__).resolve().parent.parent
RSC = ROOT / "rsc" / "maps"

LOG: list[str] = []


def log(*parts):
    LOG.append(" | ".join(str(p) for p in parts))


# --------------------------------------------------------------------------
# canonical state dumps
# --------------------------------------------------------------------------
META_FIELDS = [
    "title", "subtitle", "artist", "title_translit", "subtitle_translit",
    "artist_translit", "genre", "credit", "banner", "background",
    "lyrics_path", "cd_title", "music", "offset", "sample_start",
    "sample_length", "display_bpm", "selectable", "bg_changes", "fg_changes",
]
MAP_FIELDS = ["chart_type", "description", "difficulty", "difficulty_val",
              "groove_radar"]


def dump_df(df: pd.DataFrame) -> str:
    return "DF(cols=%r dtypes=%r index=%r(%s) values=%r)" % (
        list(df.columns),
        [str(t) for t in df.dtypes],
        list(df.index),
        type(df.index).__name__,
        [[repr(v) for v in row] for row in df.to_numpy(dtype=object).tolist()],
    )


def dump_map(m: SMMap) -> str:
    parts = ["%s=%r:%s" % (f, getattr(m, f), type(getattr(m, f)).__name__)
             for f in MAP_FIELDS]
    for k in sorted(m.objs):
        parts.append("%s:%s:%s" % (k, type(m.objs[k]).__name__, dump_df(m.objs[k].df)))
    return "MAP{" + "; ".join(parts) + "}"


def dump_ms(ms: SMMapSet) -> str:
    parts = ["%s=%r:%s" % (f, getattr(ms, f), type(getattr(ms, f)).__name__)
             for f in META_FIELDS]
    parts.append("nmaps=%d" % len(ms.maps))
    parts.extend(dump_map(m) for m in ms.maps)
    return "MS{" + "; ".join(parts) + "}"


def describe(x) -> str:
    if isinstance(x, list):
        return "list[" + ",".join(describe(i) for i in x) + "]"
    return "%s:%r" % (type(x).__name__, x)


def call(label, fn):
    """Runs fn, recording result / exception type / warnings"""
    with warnings.catch_warnings(record=True) as w:
        warnings.simplefilter("always")
        try:
            r = fn()
            out = "OK " + describe(r)
        except Exception as e:  # noqa
            r = None
            out = "EXC " + type(e).__name__
    ws = sorted("%s" % x.category.__name__ for x in w)
    log(label, out, "warnings=%r" % ws)
    return r


def exercise(name: str, ms: SMMapSet, reread: bool = True):
    before = dump_ms(ms)
    log("CASE", name)
    text = call(name + " write", ms.write)
    # once more: must be the same and input not consumed
    call(name + " write#2", ms.write)
    call(name + " meta", ms._write_metadata)
    for i, m in enumerate(ms.maps):
        call(name + " map[%d].write" % i, m.write)
    # write_file
    with tempfile.TemporaryDirectory() as d:
        p = os.path.join(d, "out.sm")

        def wf():
            r = ms.write_file(p)
            with open(p, "rb") as f:
                return [r, f.read()]

        call(name + " write_file", wf)
    after = dump_ms(ms)
    log(name + " input-state", "unchanged=%s" % (before == after), after)
    if reread and isinstance(text, str):
        def rr():
            ms2 = SMMapSet.read(text)
            t2 = ms2.write()
            return [t2 == text, t2, dump_ms(ms2)]

        call(name + " reread", rr)


# --------------------------------------------------------------------------
# generators
# --------------------------------------------------------------------------
KEYED_TYPES = [
    SMMapChartTypes.DANCE_SINGLE, SMMapChartTypes.DANCE_DOUBLE,
    SMMapChartTypes.DANCE_SOLO, SMMapChartTypes.DANCE_COUPLE,
    SMMapChartTypes.DANCE_THREEPANEL, SMMapChartTypes.DANCE_ROUTINE,
    SMMapChartTypes.KB7_SINGLE,
]
DENS = [1, 2, 3, 4, 5, 6, 7, 8, 9, 12, 16, 32, 64, 96]


def make_bpms(rng: random.Random, offset: float, n: int, on_measure: bool):
    """Tempo points as (offset_ms, bpm); successive ones a whole number of
    beats (or measures) after the previous, so they are grid-representable"""
    pts = []
    t = offset
    for i in range(n):
        bpm = rng.choice([60, 90, 120, 150, 174, 200, 222.22, 87.5, 240])
        pts.append((t, bpm))
        if on_measure:
            beats = 4 * rng.randint(1, 4)
        else:
            beats = rng.choice([1, 2, 3, 5, 6, 7, Fraction(1, 2), Fraction(3, 2), Fraction(7, 4)])
        t = t + float(beats) * 60000.0 / bpm
    return pts


def beat_to_ms(pts, total_beats_list, beat: Fraction) -> float:
    """ms of a cumulative beat position (beat counted from first tempo point)"""
    # total_beats_list[i] = cumulative beat at which tempo point i starts
    ix = 0
    for i, b in enumerate(total_beats_list):
        if b <= beat:
            ix = i
    if beat < 0:
        ix = 0
    t0, bpm = pts[ix]
    return t0 + float(beat - total_beats_list[ix]) * 60000.0 / bpm


def cum_beats(pts):
    out = [Fraction(0)]
    for (t0, b0), (t1, _) in zip(pts[:-1], pts[1:]):
        beats = Fraction((t1 - t0) * b0 / 60000.0).limit_denominator(8)
        out.append(out[-1] + beats)
    return out


def gen_map(rng: random.Random, pts, chart_type, keys, *, n_notes, dens,
            start_measure=0, span_measures=6, kinds="all", unsorted=False,
            int_columns=True, neg=False, zero_holds=False, stops=0,
            relabel=False) -> SMMap:
    m = SMMap()
    m.chart_type = chart_type
    m.description = rng.choice(["", "desc", "A:B"[:1] + "x", "généré"])
    m.difficulty = rng.choice(["Beginner", "Easy", "Medium", "Hard", "Challenge", "Edit"])
    m.difficulty_val = rng.randint(1, 20)
    m.groove_radar = [round(rng.random(), 3) for _ in range(5)]
    cb = cum_beats(pts)
    m.bpms = SMBpmList([SMBpm(t, b) for t, b in pts])

    def pos():
        meas = start_measure + rng.randrange(span_measures)
        den = rng.choice(dens)
        beat = Fraction(meas * 4) + rng.randrange(4) + Fraction(rng.randrange(den), den)
        if neg:
            beat -= 8
        return beat

    used = set()
    spans = {c: [] for c in range(keys)}  # closed hold intervals per column

    def free(c, lo, hi):
        """No object of column c lies in [lo, hi], and [lo, hi] is in no hold"""
        for (b_, c_) in used:
            if c_ == c and lo <= b_ <= hi:
                return False
        return all(hi < s0 or lo > s1 for s0, s1 in spans[c])

    hits, holds, rolls, fakes, ks, lifts, mines = [], [], [], [], [], [], []
    col = (lambda c: c) if int_columns else (lambda c: float(c))
    for _ in range(n_notes):
        k = rng.choice(["hit", "hit", "hold", "roll", "fake", "ks", "lift", "mine"]) \
            if kinds == "all" else rng.choice(kinds)
        c = rng.randrange(keys)
        b = pos()
        if not free(c, b, b):
            continue
        t = beat_to_ms(pts, cb, b)
        if k in ("hold", "roll"):
            if zero_holds and rng.random() < 0.5:
                b2 = b
                length = 0.0
            else:
                b2 = b + Fraction(rng.randint(1, 12), rng.choice([1, 2, 3, 4]))
                if not free(c, b, b2):
                    continue
                length = beat_to_ms(pts, cb, b2) - t
            spans[c].append((b, b2))
            used.add((b, c))
            used.add((b2, c))
            (holds if k == "hold" else rolls).append(
                (SMHold if k == "hold" else SMRoll)(t, col(c), length))
            continue
        used.add((b, c))
        if k == "hit":
            hits.append(SMHit(t, col(c)))
        elif k == "fake":
            fakes.append(SMFake(t, col(c)))
        elif k == "ks":
            ks.append(SMKeySound(t, col(c)))
        elif k == "lift":
            lifts.append(SMLift(t, col(c)))
        elif k == "mine":
            mines.append(SMMine(t, col(c)))
    if unsorted:
        for lst in (hits, holds, rolls, fakes, ks, lifts, mines):
            rng.shuffle(lst)
    m.hits = SMHitList(hits)
    m.holds = SMHoldList(holds)
    m.rolls = SMRollList(rolls)
    m.fakes = SMFakeList(fakes)
    m.keysounds = SMKeySoundList(ks)
    m.lifts = SMLiftList(lifts)
    m.mines = SMMineList(mines)
    if stops:
        m.stops = SMStopList([
            SMStop(beat_to_ms(pts, cb, Fraction(rng.randrange(0, 4 * span_measures * 2), 2)),
                   rng.choice([100.0, 250.0, 33.3]))
            for _ in range(stops)])
    if relabel:
        # non-default row labels: keep a boolean-filtered / re-ordered subset
        if len(m.hits) > 2:
            h = m.hits
            mask = np.array([i % 3 != 1 for i in range(len(h))])
            m.hits = h[mask]
        if len(m.holds) > 1:
            m.holds = SMHoldList(m.holds.df.iloc[::-1])
        if len(m.bpms) > 0:
            df = m.bpms.df.copy()
            df.index = [10 + 3 * i for i in range(len(df))]
            m.bpms = SMBpmList(df)
    return m


def gen_mapset(rng: random.Random, i: int, **kw) -> SMMapSet:
    ms = SMMapSet()
    offset = kw.pop("offset", rng.choice([0.0, 0.0, 12.5, -37.25, 1000.0, 333.333, -2500.0]))
    n_bpms = kw.pop("n_bpms", rng.choice([1, 1, 2, 3, 5]))
    on_measure = kw.pop("on_measure", True)
    n_maps = kw.pop("n_maps", 1)
    types = kw.pop("types", None)
    pts = make_bpms(rng, offset, n_bpms, on_measure)
    maps = []
    for j in range(n_maps):
        ct = types[j % len(types)] if types else rng.choice(KEYED_TYPES)
        keys = SMMapChartTypes.get_keys(ct) or kw.get("fallback_keys", 5)
        kw2 = {k: v for k, v in kw.items() if k != "fallback_keys"}
        maps.append(gen_map(rng, pts, ct, keys, **kw2))
    ms.maps = maps
    ms.title = rng.choice(["Title %d" % i, "", "タイトル", "a;b", "x:y", " spaced "])
    ms.subtitle = rng.choice(["", "sub"])
    ms.artist = rng.choice(["Artist", "アーティスト", ""])
    ms.title_translit = rng.choice(["", "taitoru"])
    ms.subtitle_translit = rng.choice(["", "st"])
    ms.artist_translit = rng.choice(["", "aatisuto"])
    ms.genre = rng.choice(["", "Genre"])
    ms.credit = rng.choice(["", "me"])
    ms.banner = rng.choice(["", "bn.png"])
    ms.background = rng.choice(["", "bg.png"])
    ms.lyrics_path = rng.choice(["", "l.lrc"])
    ms.cd_title = rng.choice(["", "cd.png"])
    ms.music = rng.choice(["", "audio.mp3", "audio.ogg"])
    ms.offset = offset
    ms.sample_start = rng.choice([0.0, 12345.678, 500, 1e-3])
    ms.sample_length = rng.choice([10.0, 10000.0, 7, 0.0])
    ms.display_bpm = rng.choice(["", "120", "*", "100:200"])
    ms.selectable = rng.choice([True, False])
    ms.bg_changes = rng.choice(["", "0.000=bg.avi=1.000=1=0=0"])
    ms.fg_changes = rng.choice(["", "fg"])
    return ms


def main():
    rng = random.Random(20260103)
    n_cases = 0

    # ---- A. bundled songs: read, rate, conversions -----------------------
    for fn in ["Gravity", "ICFITU", "Caravan", "Escapes"]:
        ms = SMMapSet.read_file(RSC / "sm" / (fn + ".sm"))
        exercise("read:" + fn, ms, reread=True)
        n_cases += 1
    for fn, r in [("Gravity", 1.1), ("Caravan", 0.75), ("ICFITU", 1.5)]:
        ms = SMMapSet.read_file(RSC / "sm" / (fn + ".sm")).rate(r)
        exercise("rate:%s:%s" % (fn, r), ms, reread=False)
        n_cases += 1
    ms = SMMapSet.read_file(RSC / "sm" / "Escapes.sm")
    ms.selectable = False
    exercise("read:Escapes:selectable=False", ms)
    n_cases += 1
    for fn in ["Gravity", "ICFITU"]:
        osu = OsuMap.read_file(RSC / "osu" / (fn + ".osu"))
        exercise("osu2sm:" + fn, OsuToSM.convert(osu), reread=False)
        n_cases += 1
    qua = QuaMap.read_file(RSC / "qua" / "CarryMeAway.qua") \
        if (RSC / "qua" / "CarryMeAway.qua").exists() else None
    if qua is not None:
        exercise("qua2sm:CarryMeAway", QuaToSM.convert(qua), reread=False)
        n_cases += 1

    # ---- B. generated, plain ---------------------------------------------
    for i in range(14):
        ms = gen_mapset(rng, i, n_notes=rng.randint(5, 60),
                        dens=rng.choice([[1, 2, 4], [1, 2, 3, 4, 6, 8, 12, 16], DENS[:11]]),
                        span_measures=rng.randint(1, 8),
                        start_measure=rng.choice([0, 0, 1, 3]),
                        n_maps=rng.choice([1, 1, 2, 3]),
                        unsorted=rng.random() < 0.5,
                        int_columns=rng.random() < 0.7,
                        zero_holds=rng.random() < 0.3,
                        stops=rng.choice([0, 0, 1, 3]))
        exercise("gen:%d" % i, ms)
        n_cases += 1

    # ---- C. targeted unusual inputs --------------------------------------
    # every keyed chart type, one set, several charts
    ms = gen_mapset(rng, 100, n_notes=40, dens=[1, 2, 3, 4, 8], n_maps=len(KEYED_TYPES),
                    types=KEYED_TYPES, n_bpms=2)
    exercise("all-keyed-types", ms); n_cases += 1
    # > 384 rows needed (5ths, 7ths, 9ths, 64ths, 96ths together)
    ms = gen_mapset(rng, 101, n_notes=120, dens=[5, 7, 9, 64, 96, 32], span_measures=2, n_bpms=1)
    exercise("over-384-rows", ms); n_cases += 1
    ms = gen_mapset(rng, 102, n_notes=30, dens=[5, 7, 9], span_measures=1, n_bpms=1,
                    types=[SMMapChartTypes.KB7_SINGLE])
    exercise("over-384-rows-579", ms); n_cases += 1
    # empty measures at the start and in the middle
    ms = gen_mapset(rng, 103, n_notes=6, dens=[1, 2], start_measure=5, span_measures=1, n_bpms=1)
    exercise("empty-start", ms); n_cases += 1
    ms = gen_mapset(rng, 104, n_notes=8, dens=[1, 4], start_measure=0, span_measures=30, n_bpms=3)
    exercise("sparse", ms); n_cases += 1
    # tempo changes off the measure line
    for j in range(3):
        ms = gen_mapset(rng, 105 + j, n_notes=30, dens=[1, 2, 3, 4], n_bpms=4, on_measure=False,
                        n_maps=2)
        exercise("off-measure-bpm:%d" % j, ms, reread=True); n_cases += 1
    # notes before the first tempo point (negative beats)
    ms = gen_mapset(rng, 110, n_notes=12, dens=[1, 2, 4], neg=True, n_bpms=1)
    exercise("negative-beats", ms, reread=False); n_cases += 1
    # negative & fractional offsets
    ms = gen_mapset(rng, 111, n_notes=25, dens=[1, 2, 3, 4], offset=-1234.5678, n_bpms=2)
    exercise("negative-offset", ms); n_cases += 1
    # zero-length holds/rolls only
    ms = gen_mapset(rng, 112, n_notes=20, dens=[1, 2, 4], kinds=["hold", "roll"], zero_holds=True)
    exercise("zero-length-holds", ms); n_cases += 1
    # non-default row labels after a filter; reversed frames
    for j in range(2):
        ms = gen_mapset(rng, 113 + j, n_notes=40, dens=[1, 2, 3, 4, 8], relabel=True,
                        unsorted=True, n_bpms=2)
        exercise("relabel:%d" % j, ms); n_cases += 1
    # empty lists: no notes at all; only one kind
    ms = gen_mapset(rng, 120, n_notes=0, dens=[1])
    exercise("no-notes", ms); n_cases += 1
    ms = gen_mapset(rng, 121, n_notes=0, dens=[1], n_maps=3, n_bpms=3, stops=2)
    exercise("no-notes-3maps", ms); n_cases += 1
    for j, kinds in enumerate([["mine"], ["lift"], ["fake", "ks"], ["roll"]]):
        ms = gen_mapset(rng, 122 + j, n_notes=15, dens=[1, 2, 4, 8], kinds=kinds)
        exercise("only:%s" % "+".join(kinds), ms); n_cases += 1
    # float columns
    ms = gen_mapset(rng, 130, n_notes=30, dens=[1, 2, 4], int_columns=False)
    exercise("float-columns", ms); n_cases += 1
    # unsupported chart type (keys None): with and without notes
    ms = gen_mapset(rng, 131, n_notes=10, dens=[1, 2], types=[SMMapChartTypes.PUMP_SINGLE])
    exercise("keys-none-notes", ms, reread=False); n_cases += 1
    ms = gen_mapset(rng, 132, n_notes=0, dens=[1], types=[SMMapChartTypes.PUMP_SINGLE])
    exercise("keys-none-empty", ms, reread=False); n_cases += 1
    ms = gen_mapset(rng, 133, n_notes=4, dens=[1], start_measure=3, span_measures=1,
                    types=[SMMapChartTypes.PNM_NINE])
    exercise("keys-none-padding", ms, reread=False); n_cases += 1
    # column out of range for the chart type / negative column / NaN column
    ms = gen_mapset(rng, 134, n_notes=20, dens=[1, 2], types=[SMMapChartTypes.DANCE_THREEPANEL],
                    fallback_keys=3)
    ms.maps[0].hits = SMHitList([SMHit(ms.offset, 3)])
    exercise("column-out-of-range", ms, reread=False); n_cases += 1
    ms = gen_mapset(rng, 135, n_notes=10, dens=[1, 2])
    ms.maps[0].mines = SMMineList([SMMine(ms.offset, -1)])
    exercise("negative-column", ms, reread=False); n_cases += 1
    ms = gen_mapset(rng, 136, n_notes=10, dens=[1, 2])
    ms.maps[0].lifts = SMLiftList([SMLift(ms.offset, float("nan"))])
    exercise("nan-column", ms, reread=False); n_cases += 1
    # two objects on the same row & column: the later list wins
    ms = gen_mapset(rng, 137, n_notes=0, dens=[1], n_bpms=1, offset=0.0)
    m = ms.maps[0]
    m.chart_type = SMMapChartTypes.DANCE_SINGLE
    bl = 60000.0 / float(m.bpms.bpm.iloc[0])
    m.hits = SMHitList([SMHit(0.0, 0), SMHit(bl, 1), SMHit(2 * bl, 2)])
    m.mines = SMMineList([SMMine(0.0, 0), SMMine(bl / 3, 1)])
    m.holds = SMHoldList([SMHold(bl, 1, bl), SMHold(2 * bl, 3, 0.0)])
    m.rolls = SMRollList([SMRoll(2 * bl, 3, 0.0)])
    exercise("collisions", ms, reread=False); n_cases += 1
    # metadata oddities
    ms = gen_mapset(rng, 138, n_notes=10, dens=[1, 2])
    ms.offset = None
    exercise("offset-none", ms, reread=False); n_cases += 1
    ms = gen_mapset(rng, 139, n_notes=10, dens=[1, 2], offset=0.0)
    ms.title = None
    ms.sample_start = np.float64(1500.0)
    ms.sample_length = 3
    ms.selectable = 0
    ms.display_bpm = 150
    exercise("odd-meta-types", ms, reread=False); n_cases += 1
    ms = gen_mapset(rng, 140, n_notes=10, dens=[1, 2], offset=-0.0)
    ms.selectable = "NO"
    exercise("neg-zero-offset", ms, reread=False); n_cases += 1
    # no charts in the set; chart without tempo
    ms = SMMapSet()
    ms.offset = 0.0
    exercise("no-maps", ms, reread=False); n_cases += 1
    ms = gen_mapset(rng, 141, n_notes=5, dens=[1])
    ms.maps[0].bpms = SMBpmList([])
    exercise("no-bpms", ms, reread=False); n_cases += 1
    # integer-valued bpm / offsets given as ints
    ms = SMMapSet()
    m = SMMap()
    m.bpms = SMBpmList([SMBpm(0, 120), SMBpm(4000, 240)])
    m.hits = SMHitList([SMHit(0, 0), SMHit(500, 1), SMHit(4125, 2), SMHit(250, 3)])
    m.holds = SMHoldList([SMHold(1000, 2, 500)])
    m.stops = SMStopList([SMStop(2000, 100)])
    ms.maps = [m]
    ms.offset = 0
    exercise("int-valued", ms); n_cases += 1
    # second chart has different objects but shares tempo; stops in first only
    ms = gen_mapset(rng, 142, n_notes=25, dens=[1, 2, 3, 4, 6], n_maps=4, n_bpms=3, stops=2,
                    types=[SMMapChartTypes.DANCE_DOUBLE, SMMapChartTypes.DANCE_SINGLE])
    exercise("four-charts", ms); n_cases += 1
    # rated generated sets
    for j, r in enumerate([0.5, 1.25, 2.0]):
        ms = gen_mapset(rng, 150 + j, n_notes=30, dens=[1, 2, 3, 4, 8], n_bpms=2, n_maps=2,
                        stops=1)
        exercise("gen-rate:%s" % r, ms.rate(r), reread=False); n_cases += 1

    log("n_cases", n_cases)
    text = "\n".join(LOG)
    if os.environ.get("DEMO_DUMP"):
        with open(os.environ["DEMO_DUMP"], "w", encoding="utf8") as f:
            f.write(text)
    print(n_cases, "cases", file=sys.stderr)
    print(hashlib.sha256(text.encode("utf8")).hexdigest())


if __name__ == "__main__":
    main()
