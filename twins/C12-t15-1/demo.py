"""Demonstration for property C12 (stacking writes through).

Exercises Map.stack (all include_types variants), Map.Stacker and
MapSet.Stacker.__getitem__/__setitem__ through the public API on generated
charts of all five games and prints ONE sha256 digest over a canonical text of
results, dtypes, exception types and the state of the inputs afterwards.

Run as:  cd <worktree> && PYTHONPATH=<worktree> /venv/bin/python demo.py
"""
import hashlib
import sys
import warnings

import numpy as np
import pandas as pd

import reamber
from reamber.base.Map import Map
from reamber.base.MapSet import MapSet
from reamber.base.lists.BpmList import BpmList
from reamber.base.lists.TimedList import TimedList
from reamber.base.lists.notes.HitList import HitList
from reamber.base.lists.notes.HoldList import HoldList
from reamber.base.lists.notes.NoteList import NoteList
from reamber.bms.BMSMap import BMSMap
from reamber.o2jam.O2JMap import O2JMap
from reamber.o2jam.O2JMapSet import O2JMapSet
from reamber.osu.OsuMap import OsuMap
from reamber.osu.lists.OsuSvList import OsuSvList
from reamber.quaver.QuaMap import QuaMap
from reamber.sm.SMMap import SMMap
from reamber.sm.SMMapSet import SMMapSet
from reamber.sm.lists.SMStopList import SMStopList

print(reamber.__file__, file=sys.stderr)
warnings.simplefilter("ignore")

SEED = 20261001
OUT = []


def emit(*parts):
    OUT.append(" | ".join(str(p) for p in parts))


# --------------------------------------------------------------------------
# canonical text
# --------------------------------------------------------------------------
def canon_val(v):
    if isinstance(v, (float, np.floating)):
        return "nan" if v != v else repr(float(v))
    if isinstance(v, (bool, np.bool_)):
        return "b" + str(bool(v))
    if isinstance(v, (int, np.integer)):
        return "i" + str(int(v))
    if isinstance(v, (list, tuple)):
        return type(v).__name__ + "[" + ",".join(canon_val(x) for x in v) + "]"
    if v is None:
        return "None"
    if isinstance(v, str):
        return "s" + repr(v)
    return type(v).__name__ + ":" + repr(v)


def canon_index(ix):
    return "%s(%s)[%s]" % (
        type(ix).__name__,
        ix.dtype,
        ",".join(canon_val(x) for x in ix.tolist()),
    )


def canon_obj(o):
    if isinstance(o, pd.DataFrame):
        cols = []
        for pos in range(o.shape[1]):
            s = o.iloc[:, pos]
            cols.append(
                "%s:%s=[%s]"
                % (
                    canon_val(o.columns[pos]),
                    s.dtype,
                    ",".join(canon_val(x) for x in s.tolist()),
                )
            )
        return "DF{ix=%s;cols=%s;%s}" % (
            canon_index(o.index),
            canon_index(o.columns),
            ";".join(cols),
        )
    if isinstance(o, pd.Series):
        return "SR{name=%s;dtype=%s;ix=%s;[%s]}" % (
            canon_val(o.name),
            o.dtype,
            canon_index(o.index),
            ",".join(canon_val(x) for x in o.tolist()),
        )
    return canon_val(o)


def canon_map(m):
    parts = [type(m).__name__]
    for k, v in m.objs.items():
        parts.append("%s<%s>%s" % (k, type(v).__name__, canon_obj(v.df)))
    return " ## ".join(parts)


def attempt(label, fn):
    """Runs fn, emits its canonical result or the exception type."""
    try:
        r = fn()
    except Exception as e:  # noqa
        emit(label, "EXC", type(e).__name__)
        return None
    emit(label, "OK", canon_obj(r) if r is not None else "-")
    return r


# --------------------------------------------------------------------------
# generation
# --------------------------------------------------------------------------
GAMES = [Map, OsuMap, QuaMap, SMMap, BMSMap, O2JMap]
STR_POOL = ["", "a.wav", "kick.ogg", "音.wav"]


def fill_list(rng, lst_cls, n, keys, style):
    tl = lst_cls.empty(n)
    df = tl.df
    for c in df.columns:
        dt = df[c].dtype
        if c == "offset":
            if style == "neg":
                vals = rng.uniform(-5000, 5000, n)
            elif style == "int":
                vals = rng.integers(0, 20, n).astype(float) * 250.0
            else:
                vals = np.round(rng.uniform(-100, 60000, n), 3)
            df[c] = pd.Series(vals, index=df.index, dtype=dt)
        elif c == "column":
            df[c] = pd.Series(rng.integers(0, keys, n), index=df.index, dtype=dt)
        elif c == "length":
            vals = np.round(rng.uniform(0, 2000, n), 2)
            if n:
                vals[rng.integers(0, n)] = 0.0  # zero-length hold
            df[c] = pd.Series(vals, index=df.index, dtype=dt)
        elif c == "bpm":
            df[c] = pd.Series(
                np.round(rng.uniform(30, 400, n), 4), index=df.index, dtype=dt
            )
        elif c == "metronome":
            df[c] = pd.Series(
                rng.choice([3.0, 4.0, 4.5, 7.0], n), index=df.index, dtype=dt
            )
        elif dt == bool:
            df[c] = pd.Series(rng.integers(0, 2, n).astype(bool), index=df.index)
        elif dt.kind == "i":
            df[c] = pd.Series(rng.integers(0, 100, n), index=df.index, dtype=dt)
        elif dt.kind == "f":
            df[c] = pd.Series(
                np.round(rng.uniform(0.1, 10, n), 3), index=df.index, dtype=dt
            )
        elif c in ("hitsound_file",):
            df[c] = pd.Series(
                [STR_POOL[i] for i in rng.integers(0, len(STR_POOL), n)],
                index=df.index,
                dtype=object,
            )
        # other object columns (keysounds / sample) keep their defaults
    tl.df = df
    return tl


def gen_map(rng, game):
    m = game()
    keys = int(rng.choice([1, 4, 5, 7, 9, 10]))
    style = str(rng.choice(["neg", "int", "frac"]))
    for k in list(m.objs.keys()):
        n = int(rng.choice([0, 0, 1, 2, 3, 5, 8]))
        tl = fill_list(rng, type(m.objs[k]), n, keys, style)
        mode = int(rng.integers(0, 4))
        if mode == 1 and n:  # unsorted rows, labels follow rows
            tl.df = tl.df.iloc[rng.permutation(n)]
        elif mode == 2 and n:  # filter -> gaps in the labels
            tl = tl[rng.integers(0, 2, n).astype(bool)]
        elif mode == 3 and n:  # arbitrary non-default labels
            d = tl.df
            d.index = pd.Index(rng.permutation(n) * 3 + 10)
            tl.df = d
        # public setter generated by map_props: objs[k].df = val.df
        setattr(m, k, tl)
    return m


def type_variants(m):
    """include_types arguments (label, value)."""
    hit_t = type(m.objs["hits"])
    hold_t = type(m.objs["holds"])
    bpm_t = type(m.objs["bpms"])
    v = [
        ("None", None),
        ("(HitList,)", (HitList,)),
        ("(HoldList,)", (HoldList,)),
        ("(HitList,HoldList)", (HitList, HoldList)),
        ("(HoldList,HitList)", (HoldList, HitList)),
        ("(BpmList,)", (BpmList,)),
        ("NoteList", NoteList),
        ("HitList", HitList),
        ("(TimedList,)", (TimedList,)),
        ("(game hit,)", (hit_t,)),
        ("(game hold, game bpm)", (hold_t, bpm_t)),
        ("(OsuSvList,)", (OsuSvList,)),
        ("(SMStopList,BpmList)", (SMStopList, BpmList)),
        ("nested", ((HitList, (BpmList,)),)),
        ("()", ()),
        ("(int,)", (int,)),
        ("[HitList]", [HitList]),
        ("'abc'", "abc"),
        ("(HitList,'x')", (HitList, "x")),
        ("0", 0),
        ("False", False),
        ("HitList|BpmList", HitList | BpmList),
    ]
    return v


PROPS = ["offset", "column", "length", "bpm", "metronome"]
EXTRA = {
    "OsuMap": ["volume", "kiai", "sample_set", "hitsound_file"],
    "QuaMap": ["keysounds"],
    "BMSMap": ["sample"],
}


def random_mask(rng, stack):
    n = len(stack.offset)
    kind = int(rng.integers(0, 5))
    if kind == 0:
        return rng.integers(0, 2, n).astype(bool)
    if kind == 1:
        return stack.offset > float(np.median(stack.offset)) if n else stack.offset > 0
    if kind == 2:
        return np.zeros(n, dtype=bool)
    if kind == 3:
        return np.ones(n, dtype=bool)
    return (stack.offset >= 0) & (stack.offset < 30000)


def run_ops(rng, label, m, stack, n_ops, restack_types):
    for step in range(n_ops):
        op = int(rng.integers(0, 9))
        lab = "%s.op%d" % (label, step)
        try:
            if op == 0:
                p = str(rng.choice(PROPS))
                v = float(rng.choice([2, 0.5, -1, 1.25]))
                emit(lab, "mul", p, v)
                setattr(stack, p, getattr(stack, p) * v)
            elif op == 1:
                p = str(rng.choice(PROPS))
                v = int(rng.integers(-3, 4))
                emit(lab, "iadd", p, v)
                cur = getattr(stack, p)
                cur += v
                setattr(stack, p, cur)
            elif op == 2:
                p = str(rng.choice(PROPS))
                v = float(rng.choice([1.1, 3, 0.75]))
                emit(lab, "div", p, v)
                setattr(stack, p, getattr(stack, p) / v)
            elif op == 3:
                mask = random_mask(rng, stack)
                p = str(rng.choice(PROPS))
                v = int(rng.integers(1, 5))
                emit(lab, "loc1", p, v, canon_obj(pd.Series(np.asarray(mask))))
                stack.loc[mask, p] += v
            elif op == 4:
                mask = random_mask(rng, stack)
                cols = [str(c) for c in rng.choice(PROPS, 2, replace=False)]
                v = float(rng.choice([2.0, 0.5, -1.0]))
                emit(lab, "locN", cols, v, canon_obj(pd.Series(np.asarray(mask))))
                stack.loc[mask, cols] *= v
            elif op == 5:
                mask = random_mask(rng, stack)
                p = str(rng.choice(PROPS))
                v = float(rng.choice([0.0, 123.5, -7.0]))
                emit(lab, "locset", p, v, canon_obj(pd.Series(np.asarray(mask))))
                stack.loc[mask, p] = v
            elif op == 6:
                t = restack_types[int(rng.integers(0, len(restack_types)))]
                emit(lab, "restack", t[0])
                stack = m.stack() if t[1] is None else m.stack(t[1])
            elif op == 7:
                extra = EXTRA.get(type(m).__name__, [])
                if extra:
                    p = str(rng.choice(extra))
                    emit(lab, "extra-get", p, canon_obj(getattr(stack, p)))
                    if p in ("volume", "sample_set"):
                        setattr(stack, p, getattr(stack, p) + 1)
                    elif p == "kiai":
                        stack.loc[random_mask(rng, stack), "kiai"] = True
                else:
                    emit(lab, "extra-none")
            else:
                cols = [str(c) for c in rng.choice(PROPS, 2, replace=False)]
                emit(lab, "getitem", cols, canon_obj(stack[cols]))
                emit(lab, "loc-get", canon_obj(stack.loc[random_mask(rng, stack), cols[0]]))
            emit(lab, "done")
        except Exception as e:  # noqa
            emit(lab, "EXC", type(e).__name__)
        emit(lab, "state", canon_map(m))
    return stack


# --------------------------------------------------------------------------
# Part A: Map.stack with every include_types variant, on every game
# --------------------------------------------------------------------------
def part_a(rng):
    case = 0
    for rep in range(3):
        for game in GAMES:
            m = gen_map(rng, game)
            ids_before = {k: id(v) for k, v in m.objs.items()}
            types_before = {k: type(v) for k, v in m.objs.items()}
            emit("A%d" % case, "gen", canon_map(m))
            for tlabel, t in type_variants(m):
                lab = "A%d[%s]" % (case, tlabel)
                before = canon_map(m)
                t_repr_before = repr(t)
                try:
                    st = m.stack() if t is None else m.stack(t)
                except Exception as e:  # noqa
                    emit(lab, "EXC", type(e).__name__)
                    st = None
                # argument and map untouched by stacking alone
                emit(lab, "arg-same", repr(t) == t_repr_before)
                emit(lab, "map-same", canon_map(m) == before)
                emit(
                    lab,
                    "lists-same",
                    ids_before == {k: id(v) for k, v in m.objs.items()},
                    types_before == {k: type(v) for k, v in m.objs.items()},
                )
                if st is None:
                    continue
                emit(lab, "cls", type(st).__qualname__, type(st).__module__)
                for p in PROPS:
                    attempt(lab + ".get." + p, lambda p=p: getattr(st, p))
                # a write through this restricted stack, on a copy of the map
                mc = m.deepcopy()
                stc = mc.stack() if t is None else mc.stack(t)

                def w1():
                    stc.offset += 17.5

                def w2():
                    stc.loc[stc.offset > 0, "column"] += 1

                def w3():
                    stc.length *= 2

                for wl, w in (("w-offset", w1), ("w-column", w2), ("w-length", w3)):
                    attempt(lab + "." + wl, w)
                emit(lab, "copy-state", canon_map(mc))
                emit(lab, "orig-untouched", canon_map(m) == before)
            # keyword form and a fresh default call
            attempt("A%d.kw" % case, lambda: m.stack(include_types=(HitList,)).offset)
            attempt("A%d.kwNone" % case, lambda: m.stack(include_types=None).offset)
            # two stacks of the same map are independent objects on the same lists
            s1, s2 = m.stack(), m.stack()
            emit("A%d.distinct" % case, s1 is not s2)
            s1.offset += 1
            attempt("A%d.s2-stale" % case, lambda: s2.offset)
            s2.column += 1
            emit("A%d.after-two-stacks" % case, canon_map(m))
            case += 1

    # maps whose registry was edited by the user: no lists, one list, reordered
    for game in GAMES:
        m = gen_map(rng, game)
        m.objs = {}
        attempt("A.emptyobjs.%s.None" % game.__name__, lambda: m.stack().offset)
        attempt(
            "A.emptyobjs.%s.bad" % game.__name__, lambda: m.stack([HitList]).offset
        )
        attempt(
            "A.emptyobjs.%s.tuple" % game.__name__, lambda: m.stack((HitList,)).offset
        )
        m2 = gen_map(rng, game)
        m2.objs = dict(reversed(list(m2.objs.items())))
        attempt("A.reversed.%s" % game.__name__, lambda: m2.stack().offset)
        st = m2.stack((NoteList,))
        attempt("A.reversed.%s.notes" % game.__name__, lambda: st.column)
        st.column += 2
        emit("A.reversed.%s.state" % game.__name__, canon_map(m2))


# --------------------------------------------------------------------------
# Part B: histories of operations on Map stacks
# --------------------------------------------------------------------------
def part_b(rng):
    for case in range(36):
        game = GAMES[case % len(GAMES)]
        m = gen_map(rng, game)
        emit("B%d" % case, "gen", canon_map(m))
        variants = [v for v in type_variants(m)][:13]
        t = variants[int(rng.integers(0, len(variants)))]
        emit("B%d" % case, "types", t[0])
        try:
            st = m.stack() if t[1] is None else m.stack(t[1])
        except Exception as e:  # noqa
            emit("B%d" % case, "EXC", type(e).__name__)
            continue
        run_ops(rng, "B%d" % case, m, st, 8, variants)
        # rate() is built on stack()
        attempt("B%d.rate" % case, lambda: canon_map(m.rate(1.5)))
        emit("B%d" % case, "final", canon_map(m))


# --------------------------------------------------------------------------
# Part C: MapSet stacks (get / set row-wise broadcast)
# --------------------------------------------------------------------------
def make_set(rng, game, n_maps, same_shape):
    if same_shape:
        base = gen_map(rng, game)
        maps = [base] + [base.deepcopy() for _ in range(n_maps - 1)]
        for i, mm in enumerate(maps[1:]):
            mm.stack().offset += 100.0 * (i + 1)
    else:
        maps = [gen_map(rng, game) for _ in range(n_maps)]
    if game is SMMap:
        return SMMapSet(maps=maps)
    if game is O2JMap:
        return O2JMapSet(maps=maps)
    return MapSet(maps)


def canon_set(ms):
    return " @@ ".join(canon_map(m) for m in ms)


def part_c(rng):
    for case in range(40):
        game = GAMES[case % len(GAMES)]
        n_maps = int(rng.choice([0, 1, 2, 3, 4]))
        same = bool(rng.integers(0, 2))
        try:
            ms = make_set(rng, game, n_maps, same)
        except Exception as e:  # noqa
            emit("C%d" % case, "gen-EXC", type(e).__name__)
            continue
        lab = "C%d" % case
        emit(lab, "gen", type(ms).__name__, n_maps, same, canon_set(ms))
        try:
            st = ms.stack()
        except Exception as e:  # noqa
            emit(lab, "stack-EXC", type(e).__name__)
            continue
        emit(lab, "cls", type(st).__qualname__, len(st.stackers))
        for p in PROPS:
            attempt(lab + ".get." + p, lambda p=p: getattr(st, p))
        attempt(lab + ".get.list", lambda: st[["offset", "column"]])
        attempt(lab + ".get.missing", lambda: st["nope"])

        def a1():
            st.offset *= 2

        def a2():
            st.column += 1

        def a3():
            st.length /= 3

        def a4():
            st.bpm = st.bpm + 0.5

        def a5():  # scalar value has no .iloc
            st.offset = 5.0

        def a6():  # Series value: one scalar per map
            st.metronome = pd.Series([4.0, 3.0, 7.0, 5.0, 6.0][: max(n_maps - 1, 0)])

        def a7():  # fewer rows than maps
            st.offset = st.offset.iloc[:1] + 1

        def a8():  # more rows than maps
            v = st.offset
            st.offset = pd.concat([v, v, v]) - 3

        def a9():  # numpy value has no .iloc
            st.offset = st.offset.to_numpy()

        def a10():  # frame with relabelled rows: rows are taken by position
            v = st.column
            v.index = list(range(100, 100 + len(v)))
            st.column = v + 2

        def a11():  # frame with shuffled column labels: aligned per map on labels
            v = st.offset
            st.offset = v[v.columns[::-1]] * 1.5

        def a12():
            st["offset"] = st["offset"] - 0.25

        def a13():  # unknown key: becomes a column of the concatenation only
            st["brand_new"] = st.offset

        def a14():  # list value
            st.offset = [1.0, 2.0]

        def a15():  # write via a fresh inline stack
            ms.stack().offset += 11

        acts = [a1, a2, a3, a4, a5, a6, a7, a8, a9, a10, a11, a12, a13, a14, a15]
        order = rng.permutation(len(acts))[:9]
        for i in order:
            attempt("%s.%s" % (lab, acts[i].__name__), acts[i])
            emit("%s.%s" % (lab, acts[i].__name__), "state", canon_set(ms))
        # stale outer stack vs the lists after the inline one
        for p in ("offset", "column"):
            attempt(lab + ".reget." + p, lambda p=p: getattr(st, p))
        attempt(lab + ".rate", lambda: canon_set(ms.rate(0.5)))
        emit(lab, "final", canon_set(ms))


def main():
    rng = np.random.default_rng(SEED)
    part_a(rng)
    part_b(rng)
    part_c(rng)
    text = "\n".join(OUT)
    print(len(OUT), "lines", len(text), "chars", file=sys.stderr)
    if "--dump" in sys.argv:
        with open(sys.argv[sys.argv.index("--dump") + 1], "w") as f:
            f.write(text)
    print(hashlib.sha256(text.encode("utf-8")).hexdigest())


if __name__ == "__main__":
    main()
