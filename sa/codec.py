"""A1 CODEC helpers — extracting reader / writer tables from code shapes
(DESIGN §4 A1).  Only shapes that occur in the repository are recognised; anything
else raises ``Unknown`` and the calling rule reports *undecided*."""
from __future__ import annotations

import ast
from typing import Callable, Dict, List, Optional, Tuple


class Unknown(Exception):
    pass


# ------------------------------------------------------------------ f-strings
def fstring_tokens(e: ast.AST) -> List[tuple]:
    """Flatten a string-building expression into tokens
    ('lit', text) | ('val', expr, spec) — f-strings, constants, ``+`` concatenation
    (left to right, as parsed)."""
    out: List[tuple] = []

    def add_lit(s):
        if out and out[-1][0] == "lit":
            out[-1] = ("lit", out[-1][1] + s)
        else:
            out.append(("lit", s))

    def rec(n):
        if isinstance(n, ast.Constant) and isinstance(n.value, (str, bytes)):
            add_lit(n.value if isinstance(n.value, str) else n.value.decode("latin1"))
        elif isinstance(n, ast.JoinedStr):
            for v in n.values:
                if isinstance(v, ast.Constant):
                    add_lit(str(v.value))
                elif isinstance(v, ast.FormattedValue):
                    if isinstance(v.value, ast.Constant):
                        add_lit(str(v.value.value))
                    else:
                        spec = None
                        if v.format_spec is not None:
                            spec = "".join(str(x.value) for x in v.format_spec.values if isinstance(x, ast.Constant))
                        out.append(("val", v.value, spec))
        elif isinstance(n, ast.BinOp) and isinstance(n.op, ast.Add):
            rec(n.left)
            rec(n.right)
        else:
            out.append(("val", n, None))

    rec(e)
    return out


def split_tokens(tokens: List[tuple], sep: str) -> List[List[tuple]]:
    """Split a token list at every literal occurrence of ``sep``."""
    fields: List[List[tuple]] = [[]]
    for t in tokens:
        if t[0] == "lit":
            parts = t[1].split(sep)
            for i, p in enumerate(parts):
                if i > 0:
                    fields.append([])
                if p:
                    fields[-1].append(("lit", p))
        else:
            fields[-1].append(t)
    return fields


def literal_text(tokens: List[tuple]) -> str:
    return "".join(t[1] for t in tokens if t[0] == "lit")


def count_literal(tokens: List[tuple], ch: str) -> int:
    return sum(t[1].count(ch) for t in tokens if t[0] == "lit")


# -------------------------------------------------------------- if/elif chains
def expand_table_branch(ifn: ast.If, var_pred, lit) -> List[Tuple[ast.AST, List[ast.stmt], ast.If]]:
    """``if var in TABLE: <body using TABLE[var]>`` with a literal dict TABLE is the chain ``if var == K1: <body[V1]> elif ...``.
    ``setattr(obj, "name", x)`` with the now constant name is rewritten to ``obj.name = x`` (and getattr likewise)."""
    import copy
    t = ifn.test
    if not (isinstance(t, ast.Compare) and len(t.ops) == 1 and isinstance(t.ops[0], ast.In) and var_pred(t.left)) or lit is None:
        return []
    try:
        table = lit(t.comparators[0])
    except Exception:
        return []
    if not isinstance(table, dict):
        return []
    tname = ast.unparse(t.comparators[0])
    out = []

    class Sub(ast.NodeTransformer):
        def __init__(self, val):
            self.val = val

        def visit_Subscript(self, n):
            if ast.unparse(n.value) == tname and var_pred(n.slice):
                return ast.copy_location(ast.Constant(value=self.val), n)
            return self.generic_visit(n)

        def visit_Call(self, n):
            n = self.generic_visit(n)
            if isinstance(n.func, ast.Name) and n.func.id == "getattr" and len(n.args) >= 2 and isinstance(n.args[1], ast.Constant) \
                    and isinstance(n.args[1].value, str):
                return ast.copy_location(ast.Attribute(value=n.args[0], attr=n.args[1].value, ctx=ast.Load()), n)
            return n

        def visit_Expr(self, n):
            n = self.generic_visit(n)
            c = n.value
            if isinstance(c, ast.Call) and isinstance(c.func, ast.Name) and c.func.id == "setattr" and len(c.args) == 3 and \
                    isinstance(c.args[1], ast.Constant) and isinstance(c.args[1].value, str):
                tgt = ast.Attribute(value=c.args[0], attr=c.args[1].value, ctx=ast.Store())
                return ast.fix_missing_locations(ast.copy_location(ast.Assign(targets=[tgt], value=c.args[2]), n))
            return n
    for k, v in table.items():
        body = [ast.fix_missing_locations(Sub(v).visit(copy.deepcopy(st))) for st in ifn.body]
        out.append((ast.copy_location(ast.Constant(value=k), t), body, ifn))
    return out


def eq_chain(body: List[ast.stmt], var_pred: Callable[[ast.AST], bool], lit=None) -> List[Tuple[ast.AST, List[ast.stmt], ast.If]]:
    """All branches ``if <var> == <const>: body`` (if / elif chains and sibling
    ifs) directly inside ``body``.  Returns (const node, branch body, If node).  With ``lit`` (a literal evaluator), a
    ``if <var> in TABLE:`` branch over a literal dict is expanded into one branch per entry."""
    out = []

    def take(ifn: ast.If):
        t = ifn.test
        out.extend(expand_table_branch(ifn, var_pred, lit))
        if isinstance(t, ast.Compare) and len(t.ops) == 1 and isinstance(t.ops[0], ast.Eq):
            l, r = t.left, t.comparators[0]
            if var_pred(l):
                out.append((r, ifn.body, ifn))
            elif var_pred(r):
                out.append((l, ifn.body, ifn))
        if len(ifn.orelse) == 1 and isinstance(ifn.orelse[0], ast.If):
            take(ifn.orelse[0])
        else:
            for s in ifn.orelse:
                if isinstance(s, ast.If):
                    take(s)

    for s in body:
        if isinstance(s, ast.If):
            take(s)
        elif isinstance(s, (ast.For, ast.While, ast.With, ast.Try)):
            out.extend(eq_chain(s.body, var_pred, lit))
    return out


def return_const_table(fn: ast.FunctionDef, arg: str, lit: Callable[[ast.AST], object]) -> Tuple[Dict, object]:
    """``if arg == K: return V`` chains -> ({K: V}, default).  ``lit`` evaluates
    constants / class constants and raises on anything else."""
    table = {}
    default = None
    has_default = False

    def is_arg(n):
        return isinstance(n, ast.Name) and n.id == arg

    def walk(stmts):
        nonlocal default, has_default
        for s in stmts:
            if isinstance(s, ast.If):
                t = s.test
                if not (isinstance(t, ast.Compare) and len(t.ops) == 1 and isinstance(t.ops[0], ast.Eq)):
                    raise Unknown("non-equality test in table function")
                k = t.comparators[0] if is_arg(t.left) else t.left if is_arg(t.comparators[0]) else None
                if k is None:
                    raise Unknown("test does not mention the argument")
                if not (len(s.body) == 1 and isinstance(s.body[0], ast.Return)):
                    raise Unknown("branch is not a single return")
                key = lit(k)
                if key in table:
                    raise Unknown(f"duplicate key {key!r}")
                table[key] = lit(s.body[0].value) if s.body[0].value is not None else None
                walk(s.orelse)
            elif isinstance(s, ast.Return):
                default = lit(s.value) if s.value is not None else None
                has_default = True
            elif isinstance(s, ast.Expr) and isinstance(s.value, ast.Constant):
                continue
            else:
                raise Unknown(f"unexpected statement {type(s).__name__} in table function")

    walk(fn.body)
    return table, (default if has_default else None)


# ------------------------------------------------------------ transform chains
def chain(e: ast.AST, is_leaf: Callable[[ast.AST], bool], resolve_call: Callable[[ast.AST], Optional[str]]) -> Tuple[ast.AST, List[str]]:
    """Peel wrappers around a leaf: returns (leaf, [op, ...]) innermost first.
    Ops: int float str bool strip neg call:<name> mul:<name> div_by:<k> ...
    Raises Unknown for an unmodelled wrapper."""
    ops: List[str] = []

    def rec(n):
        if is_leaf(n):
            return n
        if isinstance(n, ast.Call):
            f = n.func
            if isinstance(f, ast.Name) and f.id in ("int", "float", "str", "bool") and len(n.args) == 1 and not n.keywords:
                leaf = rec(n.args[0])
                ops.append(f.id)
                return leaf
            if isinstance(f, ast.Attribute) and f.attr in ("strip", "lstrip", "rstrip") and not n.args:
                leaf = rec(f.value)
                ops.append("strip")
                return leaf
            if isinstance(f, ast.Name) and f.id == "round" and 1 <= len(n.args) <= 2 and not n.keywords:
                leaf = rec(n.args[0])
                d = n.args[1] if len(n.args) == 2 else ast.Constant(value=0)
                ops.append(f"round:{d.value}" if isinstance(d, ast.Constant) and isinstance(d.value, int) else "round:?")      # lossy: keeps d decimals
                return leaf
            name = resolve_call(f)
            if name is not None and len(n.args) >= 1:
                leaf = rec(n.args[0])
                ops.append("call:" + name)
                return leaf
            raise Unknown(f"unmodelled call {ast.unparse(n)[:60]}")
        if isinstance(n, ast.UnaryOp) and isinstance(n.op, ast.USub):
            leaf = rec(n.operand)
            ops.append("neg")
            return leaf
        if isinstance(n, ast.IfExp) and (any(isinstance(x, ast.Call) and isinstance(x.func, ast.Name) and x.func.id == "len" for x in ast.walk(n.test)) or
                                         (isinstance(n.test, ast.Subscript) and isinstance(n.test.slice, ast.Slice) and n.test.slice.upper is None)) and \
                isinstance(n.orelse, ast.Constant):
            return rec(n.body)      # optional trailing field: `f(v[k]) if len(v) > k else <default>` decodes like f(v[k])
        if isinstance(n, ast.BinOp) and isinstance(n.op, ast.BitAnd) and isinstance(n.right, ast.Constant) and \
                isinstance(n.right.value, int):
            leaf = rec(n.left)
            ops.append(f"and:{n.right.value}")          # one bit (or mask) of a bit field
            return leaf
        if isinstance(n, ast.Compare) and len(n.ops) == 1 and isinstance(n.comparators[0], ast.Constant) and isinstance(n.left, ast.BinOp) and \
                isinstance(n.left.right, ast.Constant) and type(n.left.right.value) is int and type(n.comparators[0].value) is int:
            # a bit of a bit field tested by comparison: x % 2 == 1, x % 2 != 0, x & M == M, x & M != 0  ==  bool(x & M), M one bit
            m, c = n.left.right.value, n.comparators[0].value
            bit = None
            if isinstance(n.left.op, ast.Mod) and m == 2:
                bit = 1
            elif isinstance(n.left.op, ast.BitAnd) and m > 0 and m & (m - 1) == 0:
                bit = m
            if bit is not None and ((isinstance(n.ops[0], ast.Eq) and c == bit) or (isinstance(n.ops[0], (ast.NotEq, ast.Gt)) and c == 0)):
                leaf = rec(n.left.left)
                ops.extend([f"and:{bit}", "bool"])
                return leaf
        if isinstance(n, ast.Compare) and len(n.ops) == 1 and isinstance(n.ops[0], (ast.Eq, ast.NotEq)) and isinstance(n.comparators[0], ast.Constant) and \
                type(n.comparators[0].value) is int:
            leaf = rec(n.left)
            ops.append(f"{'eq' if isinstance(n.ops[0], ast.Eq) else 'ne'}:{n.comparators[0].value}")      # the whole value compared with one constant
            return leaf
        raise Unknown(f"unmodelled wrapper {type(n).__name__}: {ast.unparse(n)[:60]}")

    leaf = rec(e)
    return leaf, ops


def subscript_const_index(n: ast.AST) -> Optional[Tuple[str, int]]:
    """``name[3]`` / ``name[-1]`` -> (name, index)."""
    if isinstance(n, ast.Subscript) and isinstance(n.value, ast.Name):
        sl = n.slice
        if isinstance(sl, ast.Constant) and isinstance(sl.value, int):
            return n.value.id, sl.value
        if isinstance(sl, ast.UnaryOp) and isinstance(sl.op, ast.USub) and isinstance(sl.operand, ast.Constant):
            return n.value.id, -sl.operand.value
    return None


def dict_call_kwargs(n: ast.AST) -> Optional[Dict[str, ast.AST]]:
    """dict(a=..., b=...) or {"a": ...} -> {name: value node}."""
    if isinstance(n, ast.Call) and isinstance(n.func, ast.Name) and n.func.id == "dict" and not n.args:
        if any(k.arg is None for k in n.keywords):
            return None
        return {k.arg: k.value for k in n.keywords}
    if isinstance(n, ast.Dict):
        out = {}
        for k, v in zip(n.keys, n.values):
            if not (isinstance(k, ast.Constant) and isinstance(k.value, str)):
                return None
            out[k.value] = v
        return out
    return None


def self_attr(n: ast.AST, self_name="self") -> Optional[str]:
    if isinstance(n, ast.Attribute) and isinstance(n.value, ast.Name) and n.value.id == self_name:
        return n.attr
    return None


def const_str(n) -> Optional[str]:
    if isinstance(n, ast.Constant) and isinstance(n.value, str):
        return n.value
    return None
