"""Path enumeration with path-sensitive substitution and constant folding (DESIGN §12).

`enumerate_paths(body)` walks an if/else tree (a loop body, a function body) and returns one `Path` per way through it:

    conds    [(test expression, polarity)]  — tests are written over the INPUTS of the body: a local assigned on the path is
             replaced by its value (`is_hold = x >= t; if is_hold:` records `x >= t`), `not X` is recorded as (X, False)
    effects  the expression statements met on the path (calls such as `acc.append(..)`), locals substituted the same way
    env      the locals' values at the end of the path
    exit     'fall' | 'continue' | 'break' | 'return' | 'opaque' (a loop / try / with on the path)

Folding: a test that becomes a constant after substitution selects its branch (`"length" in dict(offset=.., column=..)` is
False; `(holds if <const> else hits)` is one name), so a path that cannot be taken is not reported.  Contradicting a test
already taken on the path prunes it as well.  Nothing is executed.
"""
from __future__ import annotations

import ast
import copy
from dataclasses import dataclass, field
from typing import Dict, List, Optional, Tuple


@dataclass
class Path:
    conds: List[Tuple[ast.AST, bool]] = field(default_factory=list)
    effects: List[ast.AST] = field(default_factory=list)
    env: Dict[str, ast.AST] = field(default_factory=dict)
    exit: str = "fall"
    ret: Optional[ast.AST] = None

    def cond_text(self) -> str:
        return " and ".join(("" if pol else "not ") + f"({ast.unparse(t)})" for t, pol in self.conds) or "always"


def dict_keys(e: ast.AST) -> Optional[List[str]]:
    """keys of a dict display / dict(k=..) call with constant keys"""
    if isinstance(e, ast.Dict) and all(isinstance(k, ast.Constant) for k in e.keys):
        return [k.value for k in e.keys]
    if isinstance(e, ast.Call) and isinstance(e.func, ast.Name) and e.func.id == "dict" and not e.args and all(k.arg for k in e.keywords):
        return [k.arg for k in e.keywords]
    return None


def dict_items(e: ast.AST) -> Optional[Dict[str, ast.AST]]:
    if isinstance(e, ast.Dict) and all(isinstance(k, ast.Constant) for k in e.keys):
        return {k.value: v for k, v in zip(e.keys, e.values)}
    if isinstance(e, ast.Call) and isinstance(e.func, ast.Name) and e.func.id == "dict" and not e.args and all(k.arg for k in e.keywords):
        return {k.arg: k.value for k in e.keywords}
    # dict(<such a dict>, k=v) / {**<such a dict>, "k": v}
    nested = (isinstance(e, ast.Call) and isinstance(e.func, ast.Name) and e.func.id == "dict" and len(e.args) == 1) or \
        (isinstance(e, ast.Dict) and any(k is None for k in e.keys))
    if nested:
        from .props.common import _dict_items
        it = _dict_items(e)
        if it is not None:
            return dict(it)
    return None


HAVOC_LOOPS = [False]        # set through enumerate_paths(loops="havoc")
NOT_NONE: set = set()      # names the caller declares never None (set through enumerate_paths(not_none=...))


class _Fold(ast.NodeTransformer):
    def visit_Compare(self, n):
        n = self.generic_visit(n)
        if len(n.ops) == 1:
            l, r, op = n.left, n.comparators[0], n.ops[0]
            if isinstance(op, (ast.Is, ast.IsNot)) and isinstance(r, ast.Constant) and r.value is None and \
                    (isinstance(l, (ast.BinOp, ast.JoinedStr, ast.Compare)) or (isinstance(l, ast.Name) and l.id in NOT_NONE)):
                # the result of arithmetic / a comparison / an f-string, or a name declared so, is never None
                return ast.copy_location(ast.Constant(value=isinstance(op, ast.IsNot)), n)
            if isinstance(op, (ast.In, ast.NotIn)) and isinstance(l, ast.Constant):
                ks = dict_keys(r)
                if ks is None and isinstance(r, (ast.List, ast.Tuple, ast.Set)) and all(isinstance(x, ast.Constant) for x in r.elts):
                    ks = [x.value for x in r.elts]
                if ks is not None:
                    v = l.value in ks
                    return ast.copy_location(ast.Constant(value=v if isinstance(op, ast.In) else not v), n)
            if isinstance(l, ast.Constant) and isinstance(r, ast.Constant) and isinstance(op, (ast.Eq, ast.NotEq)):
                v = l.value == r.value
                return ast.copy_location(ast.Constant(value=v if isinstance(op, ast.Eq) else not v), n)
            if isinstance(op, (ast.Is, ast.IsNot)) and isinstance(r, ast.Constant) and r.value is None and \
                    (isinstance(l, ast.Constant) or dict_keys(l) is not None or isinstance(l, (ast.List, ast.Tuple, ast.Dict))):
                v = isinstance(l, ast.Constant) and l.value is None
                return ast.copy_location(ast.Constant(value=v if isinstance(op, ast.Is) else not v), n)
        return n

    def visit_UnaryOp(self, n):
        n = self.generic_visit(n)
        if isinstance(n.op, ast.Not) and isinstance(n.operand, ast.Constant):
            return ast.copy_location(ast.Constant(value=not n.operand.value), n)
        return n

    def visit_IfExp(self, n):
        n = self.generic_visit(n)
        if isinstance(n.test, ast.Constant):
            return n.body if n.test.value else n.orelse
        return n

    def visit_BoolOp(self, n):
        n = self.generic_visit(n)
        vals = []
        for v in n.values:
            if isinstance(v, ast.Constant):
                if isinstance(n.op, ast.And) and not v.value:
                    return ast.copy_location(ast.Constant(value=False), n)
                if isinstance(n.op, ast.Or) and v.value:
                    return ast.copy_location(ast.Constant(value=True), n) if isinstance(v.value, bool) else v
                continue
            vals.append(v)
        if not vals:
            return ast.copy_location(ast.Constant(value=isinstance(n.op, ast.And)), n)
        if len(vals) == 1:
            return vals[0]
        n.values = vals
        return n

    def visit_Subscript(self, n):
        n = self.generic_visit(n)
        if isinstance(n.slice, ast.Constant):
            it = dict_items(n.value)
            if it is not None and n.slice.value in it:
                return it[n.slice.value]
        return n

    def visit_Lambda(self, n):
        return n

    def visit_Call(self, n):
        n = self.generic_visit(n)
        if isinstance(n.func, ast.Name) and n.func.id == "isinstance" and len(n.args) == 2 and not n.keywords and \
                isinstance(n.args[1], ast.Name) and n.args[1].id == "object":
            return ast.copy_location(ast.Constant(value=True), n)      # everything is an object
        return n

    def _comp(self, n):
        n = self.generic_visit(n)
        for g in n.generators:
            g.ifs = [t for t in g.ifs if not (isinstance(t, ast.Constant) and t.value is True)]
        return n
    visit_ListComp = visit_SetComp = visit_GeneratorExp = visit_DictComp = _comp


class _Sub(ast.NodeTransformer):
    def __init__(self, env):
        self.env = env

    def visit_Name(self, n):
        if isinstance(n.ctx, ast.Load) and n.id in self.env:
            return copy.deepcopy(self.env[n.id])
        return n

    def visit_Lambda(self, n):
        return n


def resolve(e: ast.AST, env: Dict[str, ast.AST]) -> ast.AST:
    return _Fold().visit(_Sub(env).visit(copy.deepcopy(e)))


def enumerate_paths(body: List[ast.stmt], env: Optional[Dict[str, ast.AST]] = None, limit: int = 256, not_none=(),
                    loops: str = "opaque") -> List[Path]:
    HAVOC_LOOPS[0] = loops == "havoc"
    NOT_NONE.clear()
    NOT_NONE.update(not_none)
    paths = [Path(env=dict(env or {}))]
    for s in body:
        nxt: List[Path] = []
        for p in paths:
            if p.exit != "fall":
                nxt.append(p)
                continue
            nxt.extend(_step(s, p, limit))
        paths = nxt
        if len(paths) > limit:
            raise OverflowError("too many paths")
    return paths


def _fold_isnan(t: ast.AST, p: Path) -> ast.AST:
    """isnan(nan) is True; isnan(X) is False on a path that has already taken an ordering comparison of X as true (a comparison
    with NaN is never true)"""
    if isinstance(t, ast.Call) and len(t.args) == 1 and ((isinstance(t.func, ast.Attribute) and t.func.attr in ("isnan", "isna", "isnull")) or
                                                         (isinstance(t.func, ast.Name) and t.func.id == "isnan")):
        a = t.args[0]
        at = ast.unparse(a)
        if at in ("np.nan", "numpy.nan", "math.nan", "float('nan')", 'float("nan")', "np.NaN", "np.NAN"):
            return ast.copy_location(ast.Constant(value=True), t)
        for c, pol in p.conds:
            if pol and isinstance(c, ast.Compare) and len(c.ops) == 1 and isinstance(c.ops[0], (ast.Lt, ast.LtE, ast.Gt, ast.GtE, ast.Eq)) and \
                    at in (ast.unparse(c.left), ast.unparse(c.comparators[0])):
                return ast.copy_location(ast.Constant(value=False), t)
    return t


def _fork(p: Path) -> Path:
    return Path(list(p.conds), list(p.effects), dict(p.env), p.exit, p.ret)


def _step(s: ast.stmt, p: Path, limit: int) -> List[Path]:
    if isinstance(s, ast.Expr) and isinstance(s.value, ast.Constant):
        return [p]
    if isinstance(s, ast.Pass):
        return [p]
    if isinstance(s, (ast.Assign, ast.AnnAssign)) and getattr(s, "value", None) is not None:
        tgts = s.targets if isinstance(s, ast.Assign) else [s.target]
        if len(tgts) == 1 and isinstance(tgts[0], ast.Name):
            out = []
            for q, v in _split_ifexp(p, resolve(s.value, p.env)):
                q.env[tgts[0].id] = v
                out.append(q)
            return out
        if len(tgts) == 1 and isinstance(tgts[0], ast.Tuple) and isinstance(s.value, ast.Tuple) and len(tgts[0].elts) == len(s.value.elts) and \
                all(isinstance(t, ast.Name) for t in tgts[0].elts):
            vals = [resolve(v, p.env) for v in s.value.elts]
            for t, v in zip(tgts[0].elts, vals):
                p.env[t.id] = v
            return [p]
        # a store through a subscript / attribute, or an unpacking of an opaque value: an effect; unpacked names become free
        for t in tgts:
            for n in ast.walk(t):
                if isinstance(n, ast.Name) and isinstance(n.ctx, ast.Store):
                    p.env.pop(n.id, None)
        st = copy.deepcopy(s)
        st.value = resolve(s.value, p.env)
        p.effects.append(st)
        return [p]
    if isinstance(s, ast.AugAssign):
        if isinstance(s.target, ast.Name):
            old = p.env.get(s.target.id, ast.Name(id=s.target.id, ctx=ast.Load()))
            p.env[s.target.id] = resolve(ast.BinOp(left=old, op=s.op, right=s.value), p.env)
            return [p]
        p.effects.append(s)
        return [p]
    if isinstance(s, ast.Expr):
        p.effects.append(resolve(s.value, p.env))
        return [p]
    if isinstance(s, ast.If):
        t = resolve(s.test, p.env)
        pol0 = True
        while isinstance(t, ast.UnaryOp) and isinstance(t.op, ast.Not):
            t, pol0 = t.operand, not pol0
        t = _fold_isnan(t, p)
        if isinstance(t, ast.Constant):
            taken = s.body if bool(t.value) == pol0 else s.orelse
            return _sub(taken, p, limit)
        txt = ast.unparse(t)
        known = [pol for (c, pol) in p.conds if ast.unparse(c) == txt]
        out = []
        for pol, blk in ((True, s.body), (False, s.orelse)):
            rec = pol if pol0 else not pol      # polarity of the un-negated test on this arm
            if known and known[0] != rec:
                continue                         # contradicts a test already taken on this path
            q = _fork(p)
            if not known:
                q.conds.append((t, rec))
            out.extend(_sub(blk, q, limit))
        return out
    if isinstance(s, ast.Continue):
        p.exit = "continue"
        return [p]
    if isinstance(s, ast.Break):
        p.exit = "break"
        return [p]
    if isinstance(s, ast.Return):
        p.exit = "return"
        p.ret = resolve(s.value, p.env) if s.value is not None else None
        return [p]
    if isinstance(s, ast.Raise):
        p.exit = "raise"
        return [p]
    if isinstance(s, (ast.For, ast.While)) and HAVOC_LOOPS[0]:
        # a nested loop is kept as one effect; what it binds or stores through is unknown afterwards
        p.effects.append(s)
        for n in ast.walk(s):
            if isinstance(n, ast.Name) and isinstance(n.ctx, (ast.Store, ast.Del)):
                p.env.pop(n.id, None)
            if isinstance(n, (ast.Subscript, ast.Attribute)) and isinstance(n.ctx, (ast.Store, ast.Del)):
                b = n
                while isinstance(b, (ast.Subscript, ast.Attribute)):
                    b = b.value
                if isinstance(b, ast.Name):
                    p.env.pop(b.id, None)
        return [p]
    p.exit = "opaque"
    p.effects.append(s)
    return [p]


def _split_ifexp(p: Path, v: ast.AST, depth: int = 0):
    """a value `A if c else B` forks the path on c (the later tests on the value can then be decided)"""
    if not isinstance(v, ast.IfExp) or depth > 3:
        return [(p, v)]
    t, pol0 = v.test, True
    while isinstance(t, ast.UnaryOp) and isinstance(t.op, ast.Not):
        t, pol0 = t.operand, not pol0
    txt = ast.unparse(t)
    known = [pol for (c, pol) in p.conds if ast.unparse(c) == txt]
    out = []
    for pol, val in ((True, v.body), (False, v.orelse)):
        rec = pol if pol0 else not pol
        if known and known[0] != rec:
            continue
        q = _fork(p)
        if not known:
            q.conds.append((t, rec))
        out.extend(_split_ifexp(q, _Fold().visit(copy.deepcopy(val)), depth + 1))
    return out


def _sub(block: List[ast.stmt], p: Path, limit: int) -> List[Path]:
    paths = [p]
    for s in block:
        nxt = []
        for q in paths:
            if q.exit != "fall":
                nxt.append(q)
            else:
                nxt.extend(_step(s, q, limit))
        paths = nxt
    return paths
