import warnings; warnings.filterwarnings("ignore")
from reamber.osu.OsuMap import OsuMap
from reamber.osu.OsuBpm import OsuBpm
from reamber.osu.OsuHit import OsuHit
from reamber.osu.lists.OsuBpmList import OsuBpmList
from reamber.osu.lists.notes.OsuHitList import OsuHitList
from reamber.algorithms.utils.dominant_bpm import dominant_bpm
m = OsuMap()
m.hits = OsuHitList([OsuHit(0,0), OsuHit(10000,0)])
m.bpms = OsuBpmList([OsuBpm(0,120), OsuBpm(8000,200)])
a = dominant_bpm(m)
m.bpms = OsuBpmList([OsuBpm(8000,200), OsuBpm(0,120)])
b = dominant_bpm(m)
print(a, b); assert a == b == 120
