"""Exercises Map.rate (through Map, OsuMap, QuaMap, SMMap, BMSMap, O2JMap and the
MapSet.rate wrappers) on generated charts and prints a digest of everything
observable: results, inputs afterwards, aliasing between both, exception types."""
import hashlib
import os
import random
import warnings

import numpy as np
import pandas as pd

from reamber.base.Bpm import Bpm
from reamber.base.Hit import Hit
from reamber.base.Hold import Hold
from reamber.base.Map import Map
from reamber.base.MapSet import MapSet
from reamber.base.lists.BpmList import BpmList
from reamber.base.lists.notes.HitList import HitList
from reamber.base.lists.notes.HoldList import HoldList
from reamber.bms.BMSMap import BMSMap
from reamber.o2jam.O2JMapSet import O2JMapSet
from reamber.osu.OsuMap import OsuMap
from reamber.osu.OsuSample import OsuSample
from reamber.osu.lists.OsuSampleList import OsuSampleList
from reamber.quaver.QuaMap import QuaMap
from reamber.sm.SMMapSet import SMMapSet

random.seed(1414)
warnings.simplefilter("ignore")  # parsers are noisy; check_rate records its own
H = hashlib.sha256()
N_LINES = 0
DUMP = open(os.environ["DEMO_DUMP"], "w") if os.environ.get("DEMO_DUMP") else None


def emit(*parts):
    global N_LINES
    N_LINES += 1
    line = " | ".join(str(p) for p in parts) + "\n"
    H.update(line.encode("utf-8"))
    if DUMP:  # optional plain-text copy of what is hashed, for diffing
        DUMP.write(line)


def cell(v):
    return f"{type(v).__name__}:{v!r}"


def dump_df(tag, df):
    emit(tag, "type", type(df).__name__, "shape", df.shape)
    emit(tag, "columns", list(df.columns))
    emit(tag, "dtypes", [str(t) for t in df.dtypes])
    emit(tag, "index", type(df.index).__name__, str(df.index.dtype), list(df.index))
    for label, row in zip(df.index, df.itertuples(index=False, name=None)):
        emit(tag, "row", cell(label), [cell(v) for v in row])


def dump_map(tag, m):
    emit(tag, type(m).__name__, list(m.objs))
    for name, lst in m.objs.items():
        emit(tag, name, type(lst).__name__)
        dump_df(f"{tag}.{name}", lst.df)
    for attr in ("samples",):
        if hasattr(m, attr):
            v = getattr(m, attr)
            if hasattr(v, "df"):
                dump_df(f"{tag}.{attr}", v.df)
            else:
                emit(tag, attr, type(v).__name__, repr(v))
    for attr in ("preview_time", "title", "version", "mode", "song_preview_time",
                 "audio_lead_in"):
        if hasattr(m, attr):
            emit(tag, attr, cell(getattr(m, attr)))


def dump_set(tag, ms):
    emit(tag, type(ms).__name__, len(ms.maps))
    for attr in ("offset", "sample_start", "sample_length", "title", "bpm"):
        if hasattr(ms, attr):
            emit(tag, attr, cell(getattr(ms, attr)))
    for i, m in enumerate(ms.maps):
        dump_map(f"{tag}[{i}]", m)


def shares_memory(a, b):
    """Whether any numeric column of the two maps lives in the same buffer."""
    out = []
    for name in a.objs:
        da, db = a.objs[name].df, b.objs[name].df
        for c in da.columns:
            if c in db.columns and da[c].dtype != object and len(da) and len(db):
                out.append(bool(np.shares_memory(da[c].to_numpy(), db[c].to_numpy())))
    return any(out)


RATES = [1.0, 1.1, 0.5, 2, 3, -1.5, 1e-3, 1e6, np.float64(0.75), np.float32(1.25),
         np.int64(2), True, 0, 0.0, float("nan"), float("inf")]
BAD_RATES = ["2", None, [2.0], (1, 2)]


def check_rate(name, m, by):
    emit("CASE", name, cell(by))
    try:
        with warnings.catch_warnings(record=True) as caught:
            warnings.simplefilter("always")
            res = m.rate(by)
        emit(name, "warnings", sorted({w.category.__name__ for w in caught}))
        emit(name, "same object", res is m, "type", type(res).__name__)
        dump_map(name + ".result", res)
        emit(name, "shares memory", shares_memory(res, m))
        # documented as a copy: writing into the result must not reach the input
        for lst in res.objs.values():
            if len(lst.df):
                lst.df.iloc[0, lst.df.columns.get_loc("offset")] = -424242.0
                lst.df.iloc[-1, 0] = lst.df.iloc[-1, 0]
        res.objs.pop(next(iter(res.objs)))
    except Exception as e:  # noqa
        emit(name, "RAISED", type(e).__name__)
    dump_map(name + ".input_after", m)


def base_map(n_hits, n_holds, n_bpms, ints=False, shuffle=False, relabel=False, lo=0):
    cast = int if ints else float
    hits = [Hit(offset=cast(lo + random.randrange(64) * 125), column=random.randrange(7))
            for _ in range(n_hits)]
    holds = [Hold(offset=cast(lo + random.randrange(64) * 125), column=random.randrange(7),
                  length=cast(random.choice([0, 1, 125, 333, 4000])))
             for _ in range(n_holds)]
    bpms = [Bpm(offset=cast(lo + i * 2000), bpm=cast(random.choice([60, 120, 175, 222])),
                metronome=random.choice([3, 4, 4, 7]))
            for i in range(n_bpms)]
    if shuffle:
        for x in (hits, holds, bpms):
            random.shuffle(x)
    m = Map()
    m.hits, m.holds, m.bpms = HitList(hits), HoldList(holds), BpmList(bpms)
    if relabel:
        for lst in m.objs.values():
            if len(lst.df):
                lst.df = lst.df.set_axis([11 - 2 * (i % 5) for i in range(len(lst.df))],
                                         axis=0)
    return m


def thin(m, keep, shuffle, relabel):
    """A generated variant of a parsed chart: a random subset of every list."""
    m = m.deepcopy()
    for key, lst in m.objs.items():
        df = lst.df
        n = len(df)
        rows = [i for i in range(n) if random.random() < keep]
        if shuffle:
            random.shuffle(rows)
        df = df.iloc[rows]
        if not relabel:
            df = df.reset_index(drop=True)
        m.objs[key] = type(lst)(df.copy())
    return m


# ---- the base class, generated ----
k = 0
for i in range(24):
    m = base_map(random.randrange(0, 30), random.randrange(0, 12), random.randrange(1, 4),
                 ints=(i % 5 == 2), shuffle=(i % 2 == 1), relabel=(i % 4 == 3),
                 lo=random.choice([0, -1000, 500]))
    check_rate(f"base{i}", m, RATES[i % len(RATES)])
check_rate("base_empty", Map(), 1.1)
check_rate("base_no_notes", base_map(0, 0, 2), 2.0)
check_rate("base_no_bpms", base_map(5, 2, 0), 2.0)
check_rate("base_no_holds", base_map(9, 0, 1), 0.8)
one = base_map(6, 3, 2)
for by in RATES:
    check_rate("base_all_rates", one, by)
for by in BAD_RATES:
    check_rate("base_bad_rate", one, by)
broken = base_map(6, 3, 2)
broken.holds.df = broken.holds.df.drop(columns=["length"])
check_rate("base_no_length_column", broken, 1.5)
broken = base_map(6, 3, 2)
broken.bpms.df = broken.bpms.df.drop(columns=["bpm"])
check_rate("base_no_bpm_column", broken, 1.5)
strs = base_map(4, 2, 1)
strs.hits.df["offset"] = strs.hits.df["offset"].astype(object)
check_rate("base_object_offsets", strs, 1.5)
nanm = base_map(6, 3, 2)
nanm.hits.df.loc[nanm.hits.df.index[1], "offset"] = np.nan
nanm.holds.df.loc[nanm.holds.df.index[0], "length"] = -0.0
check_rate("base_nan", nanm, 1.5)

# ---- every game, parsed and thinned to generated variants ----
osu = OsuMap.read_file("tests/unit_tests/osu/map_read.osu")
osu_noln = OsuMap.read_file("tests/unit_tests/osu/map_noln.osu")
qua = QuaMap.read_file("tests/unit_tests/qua/map.qua")
bms = BMSMap.read_file("tests/unit_tests/bms/map_write.bme")
sms = SMMapSet.read_file("tests/unit_tests/sm/maps/gt_icfitu.sm")
o2j = O2JMapSet.read_file("tests/unit_tests/o2jam/o2ma120.ojn")

osu_s = osu.deepcopy()
osu_s.samples = OsuSampleList([OsuSample(offset=500.0, sample_file="a.wav", volume=30),
                               OsuSample(offset=-20.0, sample_file="b.wav")])
osu_neg = osu.deepcopy()
osu_neg.preview_time = -1
osu_zero = osu.deepcopy()
osu_zero.preview_time = 0

parsed = [("osu", osu), ("osu_noln", osu_noln), ("osu_samples", osu_s),
          ("osu_no_preview", osu_neg), ("osu_zero_preview", osu_zero),
          ("qua", qua), ("bms", bms), ("sm0", sms.maps[0]), ("o2j0", o2j.maps[0]),
          ("o2j2", o2j.maps[-1])]
for j, (name, m) in enumerate(parsed):
    check_rate(name, thin(m, 0.15, False, False), RATES[(j + 1) % 6])
    for v in range(3):
        g = thin(m, random.choice([0.0, 0.02, 0.05]), shuffle=(v != 0), relabel=(v == 2))
        check_rate(f"{name}.v{v}", g, random.choice(RATES))
    check_rate(name + ".bad", thin(m, 0.02, False, False), "fast")

# ---- applied in a sequence ----
seq = thin(osu_s, 0.1, True, True)
r1 = seq.rate(1.5)
r2 = r1.rate(1 / 1.5)
r3 = r2.rate(2).rate(0.5)
for n, m in (("seq.in", seq), ("seq.r1", r1), ("seq.r2", r2), ("seq.r3", r3)):
    dump_map(n, m)

# ---- the map-set wrappers, which call Map.rate on every chart ----
small_sms = sms.deepcopy()
small_sms.maps = [thin(m, 0.05, False, False) for m in small_sms.maps]
small_o2j = o2j.deepcopy()
small_o2j.maps = [thin(m, 0.05, True, False) for m in small_o2j.maps]
generic = MapSet([base_map(5, 2, 1), base_map(0, 0, 1), base_map(8, 0, 2, ints=True)])
for name, ms in (("set.sm", small_sms), ("set.o2j", small_o2j), ("set.base", generic),
                 ("set.empty", MapSet([]))):
    for by in (1.25, 0.5, "x"):
        emit("CASE", name, cell(by))
        try:
            res = ms.rate(by)
            dump_set(name + ".result", res)
            emit(name, "maps aliased",
                 [a is b for a, b in zip(res.maps, ms.maps)], res is ms)
        except Exception as e:  # noqa
            emit(name, "RAISED", type(e).__name__)
        dump_set(name + ".input_after", ms)

emit("lines", N_LINES)
print("DIGEST", H.hexdigest())
