"""Design-time triage reproducers -- NOT a check, NOT registered in MANIFEST.json.

Each function shows, against the real code, the concrete failing input behind one
finding that a *static* rule in /verif reports on the pinned tree (see DESIGN.md,
section 7).  The brief requires a genuine defect to be demonstrable "against the
real code" before it may be recorded as a known finding or repaired; this file is
that demonstration and nothing else.  The verification machinery never imports
`reamber` and never runs this file.

Run by hand:  /venv/bin/python /verif/triage/repro_findings.py
"""
import logging
import struct
import warnings

warnings.filterwarnings("ignore")
logging.disable(logging.CRITICAL)

import numpy as np  # noqa: E402

from reamber.algorithms.convert import *  # noqa: E402,F403
from reamber.algorithms.generate import full_ln, sv_normalize  # noqa: E402
from reamber.algorithms.osu.hitsound_copy import hitsound_copy  # noqa: E402
from reamber.algorithms.pattern.filters.PtnFilter import PtnFilterChord  # noqa: E402
from reamber.algorithms.utils import dominant_bpm  # noqa: E402
from reamber.base.Hold import Hold  # noqa: E402
from reamber.base.lists.notes.HoldList import HoldList  # noqa: E402
from reamber.bms import BMSMap  # noqa: E402
from reamber.o2jam import O2JMapSet  # noqa: E402
from reamber.osu import OsuMap  # noqa: E402
from reamber.osu.OsuBpm import OsuBpm  # noqa: E402
from reamber.osu.OsuHit import OsuHit  # noqa: E402
from reamber.osu.OsuHold import OsuHold  # noqa: E402
from reamber.osu.OsuSv import OsuSv  # noqa: E402
from reamber.osu.lists.OsuBpmList import OsuBpmList  # noqa: E402
from reamber.osu.lists.OsuSvList import OsuSvList  # noqa: E402
from reamber.osu.lists.notes.OsuHitList import OsuHitList  # noqa: E402
from reamber.osu.lists.notes.OsuHoldList import OsuHoldList  # noqa: E402
from reamber.sm import SMMapSet  # noqa: E402


def _osu():
    m = OsuMap()
    m.hits = OsuHitList([OsuHit(1000, 0), OsuHit(1100, 1), OsuHit(1500, 3)])
    m.holds = OsuHoldList([OsuHold(1300, 3, 100), OsuHold(1500, 0, 50)])
    m.bpms = OsuBpmList([OsuBpm(1000, 120)])
    m.svs = OsuSvList([OsuSv(1000, 1.5)])
    return m


SM_7K = """#TITLE:t;#ARTIST:a;#OFFSET:0;#BPMS:0=120;#STOPS:;
#NOTES:
 kb7-single:
 d:
 Hard:
 5:
 0,0,0,0,0:
1000000
0M00000
0000001
0000000
,
1000000
0000000
0000000
0000000
;
"""


def _ojn(pkgs, bpm=120.0):
    hdr = struct.pack(
        "<i4sfif4h3i3i3i3ihh20sii64s32s32s32si3i3ii",
        1, b"ojn\0", 2.9, 0, bpm, 1, 1, 1, 0, 0, 0, 0, 0, 0, 0, 0, 0, 0,
        len(pkgs), 0, 0, 0, 0, b"", 0, 0, b"t", b"a", b"c", b"o.ojm", 0,
        0, 0, 0, 300, 0, 0, 0,
    )
    assert len(hdr) == 300
    body = b""
    for measure, channel, events in pkgs:
        body += struct.pack("<ihh", measure, channel, len(events)) + b"".join(events)
    return hdr + body


def F01_osu_meta_colon():
    m = OsuMap()
    m.title = "Re:Zero"
    m.bpms = OsuBpmList([OsuBpm(0, 120)])
    back = OsuMap.read("\n".join(m.write()).split("\n"))
    return m.title, back.title  # ('Re:Zero', 'Re')


def F03_sm_selectable():
    sms = SMMapSet.read(SM_7K)
    sms.selectable = False
    return [ln for ln in sms.write().split("\n") if "SELECT" in ln or ln == "NO;"]  # ['NO;']


def F04_sm_rate_offset():
    sms = SMMapSet.read(SM_7K.replace("#OFFSET:0", "#OFFSET:-0.635"))
    r = sms.rate(2.0)
    return sms.offset, r.offset, r[0].bpms.offset.min()  # (635.0, 635.0, 317.5)


def F05_sv_normalize_mutates():
    m = _osu()
    before = list(m.bpms.df.columns)
    sv_normalize(m)
    return before, list(m.bpms.df.columns)  # gains 'multiplier'


def F06_dominant_bpm_row_order():
    m = OsuMap()
    m.hits = OsuHitList([OsuHit(0, 0), OsuHit(5000, 2)])
    m.bpms = OsuBpmList([OsuBpm(0, 120), OsuBpm(1000, 200)])
    a = dominant_bpm(m)
    m.bpms = OsuBpmList([OsuBpm(1000, 200), OsuBpm(0, 120)])
    return a, dominant_bpm(m)  # (200, 120)


def F07_F08_F09_F10_cast():
    m = _osu()
    q = OsuToQua.convert(m)
    fresh = (list(q.holds.df.columns), q.holds.df.keysounds.tolist(), len(q.svs))
    q2 = OsuToQua.convert(m.rate(2.0))
    return fresh, q2.holds.df[["offset", "length"]].values.tolist(), q2.bpms.df.bpm.tolist()
    # ('index' column, keysounds NaN, 0 svs), all-NaN holds and bpm after rate


def F11_convert_merge():
    o2 = O2JMapSet.read_file("/repo/rsc/maps/o2jam/o2ma178.ojn")
    return len(o2.maps), len(O2JToSM.convert_merge(o2).maps)  # (3, 1)


def F13_sm_to_osu_keys():
    o = SMToOsu.convert(SMMapSet.read(SM_7K))[0]
    back = OsuMap.read("\n".join(o.write()).split("\n"))
    return o.circle_size, sorted(o.hits.column), sorted(back.hits.column)  # 4.0, [0,0,6] -> [0,0,3]


def F14_osu_to_sm_offset():
    m = _osu()
    m.holds = OsuHoldList([])
    back = SMMapSet.read(OsuToSM.convert(m).write())
    return m.hits.offset.tolist(), back[0].hits.offset.tolist()  # shifted by -1000


def F15_o2j_tempo_sweep():
    note = struct.pack("<hBc", 1, 0, b"\x00")
    out = []
    try:
        O2JMapSet.read(_ojn([(0, 2, [note]), (1, 2, [note])]))
    except TypeError as e:
        out.append(repr(e))  # no tempo package at all -> crash
    ms = O2JMapSet.read(_ojn([(0, 2, [note]), (2, 1, [struct.pack("<f", 240.0)]), (4, 2, [note])]))
    out.append((ms[0].hits.offset.tolist(), ms[0].bpms.offset.tolist()))  # [0, 8000] / [0, 0]; want 6000 / 4000
    return out


def F16_bms_line_order():
    head = ["#TITLE t", "#ARTIST a", "#BPM 120", "#PLAYLEVEL 1", "#LNOBJ ZZ", "#WAV01 a.wav"]
    ok = len(BMSMap.read(head + ["#00111:01", "#00211:ZZ"]).holds)
    try:
        BMSMap.read(head + ["#00211:ZZ", "#00111:01"])
        bad = "no error"
    except Exception as e:  # noqa: BLE001
        bad = repr(e)
    return ok, bad


def F17_full_ln_sm():
    sm = SMMapSet.read(SM_7K)[0]
    f = full_ln(sm, gap=10, ln_as_hit_thres=10)
    n = lambda x: {k: len(v) for k, v in x.objs.items() if len(v) and k != "bpms"}  # noqa: E731
    return n(sm), n(f)  # 3 hits + 1 mine -> 3 hits + 1 hold + 1 mine


def F18_F19_hitsound_copy():
    src, tgt = OsuMap(), OsuMap()
    src.hits = OsuHitList([OsuHit(0, c, hitsound_file=f) for c, f in enumerate(["a.wav", "b.wav", "c.wav"])])
    tgt.hits = OsuHitList([OsuHit(0, 0), OsuHit(500, 1, hitsound_set=2)])
    r = hitsound_copy(src, tgt)
    return r.hits.df[["offset", "hitsound_set", "hitsound_file"]].values.tolist(), r.samples.df.sample_file.tolist()
    # c.wav lost; the clap at 500 (absent from source) survives


def F20_chord_filter():
    f = PtnFilterChord.create([[2, 2], [1, 1]], keys=4)
    return f.filter(np.array([2, 1]))  # True, although [2, 1] is not an allowed sequence


def F21_holdlist_overrides():
    out = []
    try:
        HoldList([]).last_offset()
    except ValueError as e:
        out.append(repr(e))
    try:
        HoldList([Hold(0, 0, 100)]).between(0, 300, include_ends=True)
    except TypeError as e:
        out.append(repr(e))
    return out


def F22_osusv_extra_column():
    return list(OsuSvList([OsuSv(0, 1.5)]).df.columns), list(OsuSvList([]).df.columns)


def F23_sorted_unstable():
    import pandas as pd
    rng = np.random.default_rng(0)
    df = pd.DataFrame({"offset": rng.integers(0, 5, 50).astype(float), "column": np.arange(50)})
    return df.sort_values("offset").column.tolist() == df.sort_values("offset", kind="stable").column.tolist()  # False


def F24_sm_without_stops_tag():
    txt = SM_7K.replace("#STOPS:;", "")
    try:
        SMMapSet.read(txt)
        return "no error"
    except AttributeError as e:
        return repr(e)  # 'NoneType' object has no attribute 'sorted'


if __name__ == "__main__":
    for name, fn in sorted(globals().items()):
        if name.startswith("F") and callable(fn):
            print(name, "->", fn())
