"""Demo for C09 / change 2: BMSMap._write_notes.

Source files are generated as text in BMS, osu, Quaver and StepMania form (and
the two O2Jam files of the repository are cut down to random object subsets),
read, converted to BMS where needed and written.  The note section
(`_write_notes`) and the whole file (`write`) go into one canonical dump
together with the read-back of the written file, exception types and the
state of the written map afterwards (it must not be modified).
"""
import hashlib
import logging
import os
import random
import sys
import warnings
from pathlib import Path

import numpy as np
import pandas as pd

import reamber
from reamber.algorithms.convert.O2JToBMS import O2JToBMS
from reamber.algorithms.convert.OsuToBMS import OsuToBMS
from reamber.algorithms.convert.QuaToBMS import QuaToBMS
from reamber.algorithms.convert.SMToBMS import SMToBMS
from reamber.bms.BMSBpm import BMSBpm
from reamber.bms.BMSChannel import BMSChannel
from reamber.bms.BMSHit import BMSHit
from reamber.bms.BMSHold import BMSHold
from reamber.bms.BMSMap import BMSMap
from reamber.bms.lists.BMSBpmList import BMSBpmList
from reamber.bms.lists.notes.BMSHitList import BMSHitList
from reamber.bms.lists.notes.BMSHoldList import BMSHoldList
from reamber.o2jam.O2JMapSet import O2JMapSet
from reamber.osu.OsuMap import OsuMap
from reamber.quaver.QuaMap import QuaMap
from reamber.sm.SMMapSet import SMMapSet

warnings.simplefilter("ignore")
logging.disable(logging.CRITICAL)
random.seed(90902)

OUT = []


def emit(*a):
    OUT.append(" ".join(str(x) for x in a))


def cell(v):
    if isinstance(v, (float, np.floating)):
        return "f:" + repr(float(v))
    if isinstance(v, (bool, np.bool_)):
        return "b:" + repr(bool(v))
    if isinstance(v, (int, np.integer)):
        return "i:" + repr(int(v))
    return type(v).__name__ + ":" + repr(v)


def dump_df(tag, df: pd.DataFrame):
    emit(tag, "columns", list(df.columns), "dtypes", [str(t) for t in df.dtypes])
    emit(tag, "index", type(df.index).__name__, str(df.index.dtype), list(df.index))
    for row in df.itertuples(index=False, name=None):
        emit(tag, "row", [cell(v) for v in row])


def dump_map(tag, m):
    for k, v in m.objs.items():
        emit(tag, k, type(v).__name__)
        dump_df(f"{tag}.{k}", v.df)
    d = {k: v for k, v in vars(m).items() if k != "objs"}
    for k in sorted(d):
        emit(tag, "meta", k, cell(d[k]))


def exercise(tag, bms: BMSMap, configs=("BME",), defaults=(b"01",)):
    """Write the map in every way, dump all that can be observed"""
    dump_map(tag + ".in", bms)
    before = bms.deepcopy()
    for cfg_name in configs:
        cfg = getattr(BMSChannel, cfg_name)
        for nsd in defaults:
            t = f"{tag}.{cfg_name}.{nsd!r}"
            try:
                notes = bms._write_notes(note_channel_config=cfg, no_sample_default=nsd)
                emit(t, "notes", type(notes).__name__, len(notes), repr(notes))
            except Exception as e:
                emit(t, "notes raised", type(e).__name__)
            try:
                b = bms.write(note_channel_config=cfg, no_sample_default=nsd)
                emit(t, "file", type(b).__name__, len(b), hashlib.sha256(b).hexdigest())
            except Exception as e:
                emit(t, "file raised", type(e).__name__)
                continue
            try:
                back = BMSMap.read(b.decode("shift_jis").split("\r\n"), note_channel_config=cfg)
                dump_map(t + ".back", back)
            except Exception as e:
                emit(t, "readback raised", type(e).__name__)
    dump_map(tag + ".after", bms)
    emit(tag, "unchanged", all(
        bms.objs[k].df.equals(before.objs[k].df)
        and list(bms.objs[k].df.dtypes) == list(before.objs[k].df.dtypes)
        and list(bms.objs[k].df.index) == list(before.objs[k].df.index)
        for k in bms.objs
    ), bms.samples == before.samples, bms.misc == before.misc)


# --------------------------------------------------------------- BMS sources
B36 = "0123456789ABCDEFGHIJKLMNOPQRSTUVWXYZ"


def b36(n):
    return B36[n // 36] + B36[n % 36]


def gen_bms(case):
    cfg = getattr(BMSChannel, case["cfg"])
    note_channels = [k.decode() for k, v in cfg.items() if isinstance(v, int)][: case["keys"]]
    lines = ["#PLAYER 1", "#GENRE gen", "#TITLE t%d" % case["seed"], "#ARTIST ar", "#BPM %s" % case["bpm"],
             "#PLAYLEVEL 5"]
    if case["lnobj"]:
        lines.append("#LNOBJ " + case["lnobj"])
    n_wav = case["n_wav"]
    wav_ids = [b36(i + 1) for i in range(n_wav)]
    for w in wav_ids:
        lines.append("#WAV%s s%s.wav" % (w, w))
    if case["lnobj"] and case["lnobj_is_wav"]:
        lines.append("#WAV%s tail.wav" % case["lnobj"])
    exbpms = {}
    for i in range(case["n_exbpm"]):
        exbpms[b36(i + 1)] = random.choice(["90", "133.33", "240", "60.5"])
        lines.append("#BPM%s %s" % (b36(i + 1), exbpms[b36(i + 1)]))
    lines.append("")
    ids = wav_ids or ["0A"]
    open_ln = {}
    for measure in range(case["measures"]):
        if random.random() < case["p_sig"]:
            lines.append("#%03d02:%s" % (measure, random.choice(["0.75", "0.5", "1.25", "1.5", "0.25"])))
        if measure and random.random() < case["p_bpm"]:
            div = random.choice([1, 2, 4])
            seq = ["00"] * div
            seq[0 if random.random() < 0.7 else random.randrange(div)] = random.choice(["3C", "78", "B4", "F0"])
            lines.append("#%03d03:%s" % (measure, "".join(seq)))
        elif measure and exbpms and random.random() < case["p_bpm"]:
            lines.append("#%03d08:%s" % (measure, random.choice(list(exbpms))))
        for ch in note_channels:
            if random.random() > case["density"]:
                continue
            div = random.choice(case["divs"])
            seq = ["00"] * div
            for slot in range(div):
                r = random.random()
                if r < case["p_note"]:
                    if case["lnobj"] and open_ln.get(ch) and random.random() < 0.6:
                        seq[slot] = case["lnobj"]
                        open_ln[ch] = False
                    else:
                        seq[slot] = random.choice(ids)
                        open_ln[ch] = True
            if any(s != "00" for s in seq):
                lines.append("#%03d%s:%s" % (measure, ch, "".join(seq)))
                # a second line for the same channel and measure now and then
                if random.random() < 0.15:
                    d2 = random.choice(case["divs"])
                    s2 = ["00"] * d2
                    s2[random.randrange(d2)] = random.choice(ids)
                    open_ln[ch] = True
                    lines.append("#%03d%s:%s" % (measure, ch, "".join(s2)))
    if case["shuffle"]:
        head, body = lines[: lines.index("") + 1], lines[lines.index("") + 1:]
        # keep time signatures ahead of the other lines of their measure
        body.sort(key=lambda s: (s[4:6] != "02", random.random()))
        lines = head + body
    return lines


bms_cases = []
for seed in range(22):
    bms_cases.append(dict(
        seed=seed,
        cfg=random.choice(["BME", "BME", "BMS", "PMS"]),
        keys=random.choice([1, 4, 5, 7, 8, 9]),
        bpm=random.choice(["120", "150", "175.5", "60", "200"]),
        lnobj=random.choice(["", "ZZ", "ZZ", "0F"]),
        lnobj_is_wav=seed % 5 == 0,
        n_wav=random.choice([0, 1, 3, 6]),
        n_exbpm=random.choice([0, 0, 2]),
        measures=random.choice([1, 2, 4, 6]),
        p_sig=random.choice([0, 0, 0.3, 0.6]),
        p_bpm=random.choice([0, 0.3, 0.6]),
        density=random.choice([0.3, 0.6, 1.0]),
        divs=random.choice([[1, 2, 4], [4, 8, 16], [3, 6, 12], [4, 3, 5, 7], [16, 24, 32, 48], [9, 11, 13, 64, 96]]),
        p_note=random.choice([0.1, 0.3, 0.7]),
        shuffle=seed % 3 == 0,
    ))
for case in bms_cases:
    tag = "bms%02d" % case["seed"]
    emit(tag, "case", sorted(case.items()))
    cfg = getattr(BMSChannel, case["cfg"])
    try:
        bms = BMSMap.read(gen_bms(case), note_channel_config=cfg)
    except Exception as e:
        emit(tag, "read raised", type(e).__name__)
        continue
    exercise(tag, bms, configs=(case["cfg"], "BME") if case["seed"] % 4 == 0 else (case["cfg"],),
             defaults=(b"01", b"ZZ") if case["seed"] % 2 else (b"01",))


# --------------------------------------------------------------- osu sources
def gen_osu(keys, n_bpm, metros, n_hit, n_hold, ties, shuffle, first):
    lines = ["osu file format v14", "", "[General]", "AudioFilename: a.mp3", "Mode: 3", "", "[Metadata]",
             "Title:osu title", "TitleUnicode:osu title", "Artist:art", "ArtistUnicode:art", "Creator:c",
             "Version:v", "", "[Difficulty]", "CircleSize:%d" % keys, "", "[Events]", "", "[TimingPoints]"]
    t0, bpm = float(first), random.choice([120.0, 150.0, 180.0, 200.0])
    tps, spans = [], []
    for i in range(n_bpm):
        metro = metros[i % len(metros)]
        tps.append("%r,%r,%d,1,0,50,1,0" % (t0, 60000.0 / bpm, metro))
        nxt = t0 + 60000.0 / bpm * metro * random.randint(1, 3)
        spans.append((t0, nxt if i < n_bpm - 1 else t0 + 60000.0 / bpm * metro * 3, 60000.0 / bpm))
        t0, bpm = nxt, random.choice([90.0, 120.0, 150.0, 240.0])
    grid = []
    for a, b, beat in spans:
        for d in (1, 2, 3, 4, 6, 8):
            k = 0
            while a + beat * k / d < b - 1:
                grid.append(a + beat * k / d)
                k += 1
    objs = []
    for _ in range(n_hit):
        c = random.randrange(keys)
        objs.append("%d,192,%d,1,0,0:0:0:0:" % (int((512 * c + 256) // keys), int(random.choice(grid))))
    for _ in range(n_hold):
        c = random.randrange(keys)
        o = int(random.choice(grid))
        objs.append("%d,192,%d,128,0,%d:0:0:0:0:" % (int((512 * c + 256) // keys), o, o + random.choice([100, 250, 333, 500])))
    if ties and objs:
        objs += random.sample(objs, min(4, len(objs)))
    if shuffle:
        random.shuffle(objs)
        random.shuffle(tps)
    return lines + tps + ["", "[HitObjects]"] + objs + [""]


for i in range(12):
    keys = [1, 4, 7, 8, 9, 10, 4, 7, 5, 6, 2, 3][i]
    tag = "osu%02d" % i
    lines = gen_osu(keys, [1, 2, 3][i % 3], [[4], [3, 4], [5], [4, 7]][i % 4], [0, 5, 12, 30][i % 4],
                    [0, 3, 8][(i // 2) % 3], i % 3 == 0, i % 2 == 1, [0, 500, 1234][i % 3])
    try:
        bms = OsuToBMS.convert(OsuMap.read(lines), move_right_by=i % 2)
    except Exception as e:
        emit(tag, "raised", type(e).__name__)
        continue
    exercise(tag, bms)


# ------------------------------------------------------------ Quaver sources
def gen_qua(keys, n_hit, n_hold, n_bpm, shuffle):
    out = ["AudioFile: a.mp3", "SongPreviewTime: 100", "BackgroundFile: bg.jpg", "MapId: -1", "MapSetId: -1",
           "Mode: Keys%d" % keys, "Title: qua title", "Artist: qart", "Source: ''", "Tags: ''", "Creator: cr",
           "DifficultyName: diff", "Description: d", "EditorLayers: []", "CustomAudioSamples: []",
           "SoundEffects: []", "TimingPoints:"]
    t0 = random.choice([0, -250, 300])
    bpm = 120.0
    firsts = []
    for i in range(n_bpm):
        out += ["- StartTime: %d" % t0, "  Bpm: %r" % bpm]
        firsts.append((t0, bpm))
        t0 += int(60000 / bpm * 4 * random.randint(1, 2))
        bpm = random.choice([100.0, 150.0, 200.0])
    out += ["SliderVelocities: []", "HitObjects:"]
    objs = []
    for _ in range(n_hit):
        s, b = random.choice(firsts)
        objs.append(["- StartTime: %d" % int(s + 60000 / b * random.randint(0, 15) / random.choice([1, 2, 4])),
                     "  Lane: %d" % random.randint(1, keys), "  KeySounds: []"])
    for _ in range(n_hold):
        s, b = random.choice(firsts)
        st = int(s + 60000 / b * random.randint(0, 15) / random.choice([1, 2, 3]))
        objs.append(["- StartTime: %d" % st, "  Lane: %d" % random.randint(1, keys),
                     "  EndTime: %d" % (st + random.choice([125, 250, 1000])), "  KeySounds: []"])
    if shuffle:
        random.shuffle(objs)
    for o in objs:
        out += o
    return out


for i in range(8):
    tag = "qua%02d" % i
    try:
        qua = QuaMap.read(gen_qua([4, 7][i % 2], [0, 6, 20, 3][i % 4], [0, 4, 9][i % 3], 1 + i % 3, i % 2 == 0))
        bms = QuaToBMS.convert(qua, move_right_by=(i // 2) % 2)
    except Exception as e:
        emit(tag, "raised", type(e).__name__)
        continue
    exercise(tag, bms)


# -------------------------------------------------------- StepMania sources
def gen_sm(chart, keys, measures, divs, n_bpm, offset):
    bpms = ["0.000=%s" % random.choice(["120.000", "150.000", "175.000"])]
    for i in range(1, n_bpm):
        bpms.append("%d.000=%s" % (4 * i * random.randint(1, 2), random.choice(["90.000", "200.000", "133.000"])))
    out = ["#TITLE:sm title;", "#ARTIST:sm artist;", "#MUSIC:a.mp3;", "#OFFSET:%s;" % offset,
           "#SAMPLESTART:1.000;", "#SAMPLELENGTH:10.000;", "#BPMS:%s;" % ",".join(bpms), "#STOPS:;",
           "#NOTES:", "     %s:" % chart, "     :", "     Hard:", "     10:", "     0,0,0,0,0:"]
    held = [False] * keys
    body = []
    for m in range(measures):
        d = random.choice(divs)
        rows = []
        for _ in range(d):
            row = ""
            for k in range(keys):
                r = random.random()
                if held[k]:
                    if r < 0.4:
                        row += "3"
                        held[k] = False
                    else:
                        row += "0"
                elif r < 0.15:
                    row += "1"
                elif r < 0.22:
                    row += "2"
                    held[k] = True
                else:
                    row += "0"
            rows.append(row)
        body.append("\n".join(rows))
    # close what is still held
    if any(held):
        body.append("\n".join(["".join("3" if h else "0" for h in held), "0" * keys, "0" * keys, "0" * keys]))
    out.append("\n,\n".join(body))
    out.append(";")
    return "\n".join(out)


for i in range(8):
    tag = "sm%02d" % i
    chart, keys = [("dance-single", 4), ("dance-solo", 6), ("kb7-single", 7), ("dance-double", 8)][i % 4]
    try:
        sms = SMMapSet.read(gen_sm(chart, keys, [1, 2, 3, 5][i % 4], [[4], [4, 8], [12, 16], [4, 24, 48]][(i // 2) % 4],
                                   1 + i % 3, ["0.000", "-0.500", "0.250"][i % 3]))
        bmss = SMToBMS.convert(sms)
    except Exception as e:
        emit(tag, "raised", type(e).__name__)
        continue
    for j, bms in enumerate(bmss):
        exercise(f"{tag}.{j}", bms)


# ------------------------------------------------------------ O2Jam sources
RSC = Path(reamber.__file__).parents[1] / "rsc" / "maps" / "o2jam"
for fi, fn in enumerate(sorted(RSC.glob("*.ojn"))):
    try:
        o2js = O2JMapSet.read_file(fn.as_posix())
        bmss = O2JToBMS.convert(o2js)
    except Exception as e:
        emit("o2j", fn.name, "raised", type(e).__name__)
        continue
    for j, bms in enumerate(bmss):
        # a window of the chart: the objects and tempo of its first seconds
        end = [9000, 15000, 22000][j % 3]
        bms.hits.df = bms.hits.df[bms.hits.df.offset < end].reset_index(drop=True)
        bms.holds.df = bms.holds.df[bms.holds.df.offset + bms.holds.df.length < end].reset_index(drop=True)
        bms.bpms.df = bms.bpms.df[bms.bpms.df.offset < end].reset_index(drop=True)
        exercise(f"o2j{fi}.{j}", bms)


# -------------------------------------------- maps put together in memory
def mem_map(n_hit, n_hold, bpms, samples=None, ln=None, cols=8, step=125.0, neg=False):
    m = BMSMap()
    ids = list((samples or {}).values()) + [b"", b"unknown.wav"]
    m.hits = BMSHitList([BMSHit(offset=step * random.randint(-4 if neg else 0, 40), column=random.randrange(cols),
                                sample=random.choice(ids)) for _ in range(n_hit)])
    m.holds = BMSHoldList([BMSHold(offset=step * random.randint(0, 40), column=random.randrange(cols),
                                   length=random.choice([0.0, step, 3 * step, 1000.0]),
                                   sample=random.choice(ids)) for _ in range(n_hold)])
    m.bpms = BMSBpmList(bpms)
    if samples:
        m.samples = dict(samples)
    if ln is not None:
        m.ln_end_channel = ln
    m.title, m.artist, m.version = b"mem", b"a", b"1"
    return m


SAMPLES = {b"01": b"kick.wav", b"02": b"snare.wav", b"ZZ": b"zz.wav", b"0Z": b"hat.wav"}
mem = [
    # many objects on few channels: long groups, equal slots, every division
    ("dense", mem_map(60, 10, [BMSBpm(0, 120)], SAMPLES, cols=2, step=62.5)),
    ("ties", mem_map(40, 20, [BMSBpm(0, 120)], SAMPLES, cols=1, step=250.0)),
    ("thirds", mem_map(30, 6, [BMSBpm(0, 120)], None, cols=3, step=500.0 / 3)),
    ("odd", mem_map(40, 0, [BMSBpm(0, 100)], SAMPLES, cols=4, step=600.0 / 7)),
    ("fine", mem_map(50, 5, [BMSBpm(0, 150)], None, cols=2, step=400.0 / 48)),
    ("metros", mem_map(30, 8, [BMSBpm(0, 120, metronome=3), BMSBpm(1500, 120, metronome=4),
                                BMSBpm(3500, 240, metronome=5), BMSBpm(4750, 60, metronome=4)], SAMPLES)),
    ("metro7", mem_map(20, 4, [BMSBpm(0, 140, metronome=7)], None)),
    ("nohold_ln", mem_map(10, 0, [BMSBpm(0, 120)], SAMPLES, ln=b"")),
    ("ln_0Z", mem_map(12, 6, [BMSBpm(0, 120)], SAMPLES, ln=b"0Z")),
    ("ln_empty_holds", mem_map(5, 5, [BMSBpm(0, 120)], None, ln=b"")),
    ("neg", mem_map(10, 2, [BMSBpm(0, 120)], None, neg=True)),
    ("late_first_bpm", mem_map(10, 2, [BMSBpm(1000, 120), BMSBpm(3000, 90)], None)),
    ("unsorted_bpm", mem_map(10, 2, [BMSBpm(2000, 90), BMSBpm(0, 120)], None)),
    ("only_bpm", mem_map(0, 0, [BMSBpm(0, 120)], None)),
    ("only_bpms", mem_map(0, 0, [BMSBpm(0, 120), BMSBpm(2000, 60), BMSBpm(6000, 200, metronome=3)], None)),
    ("far", mem_map(3, 0, [BMSBpm(0, 300)], None, step=40000.0)),
    ("col15", mem_map(20, 5, [BMSBpm(0, 120)], SAMPLES, cols=16)),
    ("col_out", mem_map(6, 0, [BMSBpm(0, 120)], None, cols=20)),
    ("float_metro", mem_map(12, 3, [BMSBpm(0, 120, metronome=4.0), BMSBpm(2000, 180, metronome=3.0)], None)),
]
for name, m in mem:
    if name == "dense":
        m.hits.df.index = list(range(len(m.hits)))[::-1]
    if name == "ties":
        m.holds.df.index = [3 * k + 1 for k in range(len(m.holds))]
    exercise("mem." + name, m, configs=("BME", "BMS") if name in ("dense", "col15", "col_out") else ("BME",),
             defaults=(b"01", b"ZZ", b"0Z", b"XYZ") if name in ("ties", "ln_0Z", "nohold_ln") else (b"01",))

text = "\n".join(OUT)
if os.environ.get("DEMO_DUMP"):
    open(os.environ["DEMO_DUMP"], "w", encoding="utf-8", errors="backslashreplace").write(text)
print("LINES", len(OUT), file=sys.stderr)
print("DIGEST", hashlib.sha256(text.encode("utf-8", "backslashreplace")).hexdigest())
