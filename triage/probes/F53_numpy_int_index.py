"""F53 (C16): positional indexing with a numpy integer.
Run:  cd /repo && /venv/bin/python /verif/triage/probes/F53_numpy_int_index.py   (pinned tree: KeyError: 0)"""
import numpy as np, warnings
warnings.simplefilter("ignore")
from reamber.base import Timed
from reamber.base.lists.TimedList import TimedList
tl = TimedList([Timed(3), Timed(1)])
assert tl[np.int64(0)].offset == 3 and tl[np.int64(-1)].offset == 1
print("ok")
