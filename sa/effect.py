"""A3 EFFECT — parameter-rooted mutation and escape (DESIGN §4 A3).

Abstract value  AV = (obj, fields):
  obj     roots the value itself may share storage with,
  fields  field name -> roots reachable by loading that field ('*' = any element /
          unknown field) — this is the two-level ("object vs. contents") model,
          refined to 1-limited access paths.
A root is (parameter, first field); field '' is the parameter object itself.

Per function a summary  (mut, ret, alias)  is computed and iterated to a fixpoint
over the resolved call graph.  Library semantics come only from
``sa/models/pandas_model.py``; everything unknown is TOP (may alias, claims no
mutation, counted as unresolved).
"""
from __future__ import annotations

import ast
from dataclasses import dataclass, field
from typing import Dict, List, Optional, Set, Tuple

from .model import (Model, Fn, AnalysisError, TIMEDLIST, SERIES, MAP, MAP_STACKER, MAPSET_STACKER, params_of)
from .types import TypeWorld, Typer, is_scalar, UNKNOWN
from .models import pandas_model as PM

Root = Tuple[str, str]
FS = frozenset
E0: FS = frozenset()

REPO_KINDS = ("chart", "mapset", "list", "item", "stacker", "inst")


class AV:
    __slots__ = ("obj", "fields")

    def __init__(self, obj: FS = E0, fields: Optional[Dict[str, FS]] = None):
        self.obj = obj
        self.fields = {k: v for k, v in (fields or {}).items() if v}

    def __eq__(self, o):
        return isinstance(o, AV) and self.obj == o.obj and self.fields == o.fields

    def __repr__(self):
        return f"AV({sorted(self.obj)}, { {k: sorted(v) for k, v in self.fields.items()} })"

    def all(self) -> FS:
        out = set(self.obj)
        for v in self.fields.values():
            out |= v
        return frozenset(out)

    def is_empty(self):
        return not self.obj and not self.fields


EMPTY = AV()


def av_join(a: AV, b: AV) -> AV:
    if a is b:
        return a
    f = dict(a.fields)
    for k, v in b.fields.items():
        f[k] = f.get(k, E0) | v
    return AV(a.obj | b.obj, f)


def lift(r: Root, f: str) -> Root:
    return (r[0], f) if r[1] == "" else r


def proj(a: AV, f: str) -> FS:
    """Roots reached by loading field ``f`` ('' = the value itself)."""
    if f == "":
        return a.obj
    out = {lift(r, f) for r in a.obj}
    if f == "*":
        for v in a.fields.values():
            out |= v
    else:
        out |= a.fields.get(f, E0) | a.fields.get("*", E0)
    return frozenset(out)


def container_of(*avs: AV) -> AV:
    s = set()
    for a in avs:
        s |= a.all()
    return AV(E0, {"*": frozenset(s)})


def with_field(a: AV, f: str, roots: FS) -> AV:
    if not roots:
        return a
    fl = dict(a.fields)
    fl[f] = fl.get(f, E0) | roots
    return AV(a.obj, fl)


@dataclass
class Site:
    line: int
    text: str
    via: str = ""
    byname: bool = False


class Summary:
    def __init__(self):
        self.mut: Dict[Root, List[Site]] = {}
        self.ret: AV = EMPTY
        self.alias: Set[Tuple[Root, str]] = set()
        self.unresolved: List[Tuple[int, str]] = []
        self.byname: List[Tuple[int, str]] = []

    def sig(self):
        return (frozenset(self.mut), self.ret.obj, tuple(sorted((k, v) for k, v in self.ret.fields.items())),
                frozenset(self.alias))

    def mut_params(self) -> Set[str]:
        return {r[0] for r in self.mut}


GEN = {
    "list": ("reamber.base.Property.list_props.<locals>.gen_props.<locals>", ("list", TIMEDLIST)),
    "item": ("reamber.base.Property.item_props.<locals>.gen_props.<locals>", ("item", SERIES)),
    "chart": ("reamber.base.Property.map_props.<locals>.gen_props.<locals>", ("chart", MAP)),
    "stacker": ("reamber.base.Property.stack_props.<locals>.gen_props.<locals>", ("stacker", MAP_STACKER)),
}

OUT_OF_SCOPE = (".playField", "parse_replay")


class EffectAnalysis:
    def __init__(self, model: Model, world: TypeWorld):
        self.M = model
        self.W = world
        self.summ: Dict[str, Summary] = {}
        self.rounds = 0
        self.gen_quals: Dict[Tuple[str, str], str] = {}
        for kind, (prefix, _) in GEN.items():
            deco = prefix.split(".")[3]
            for which in ("setter", "getter"):
                q = prefix + "." + which
                if q not in self.M.funcs:
                    # the accessor bodies may live in a factory the decorator calls (Model.gen_accessor)
                    q = self.M.gen_accessor(deco, which)
                    if q is None:
                        raise AnalysisError(f"generated-property body {prefix}.{which} not found in Property.py")
                self.gen_quals[(kind, which)] = q
        self.targets = [q for q in self.M.funcs if not any(s in q for s in OUT_OF_SCOPE)]
        self._sub_memo: Dict[str, List[str]] = {}

    # ----------------------------------------------------------------- driver
    def solve(self, max_rounds=12):
        for q in self.targets:
            self.summ[q] = Summary()
        for rnd in range(max_rounds):
            changed = False
            for q in self.targets:
                s = self.analyse(q)
                if s.sig() != self.summ[q].sig():
                    changed = True
                self.summ[q] = s
            self.rounds = rnd + 1
            if not changed:
                return
        raise AnalysisError("effect analysis did not reach a fixpoint")

    def summary(self, q: str) -> Summary:
        if q not in self.summ:
            raise AnalysisError(f"no effect summary for {q}")
        return self.summ[q]

    def forced_self_kind(self, q: str):
        for kind, (prefix, k) in GEN.items():
            if q.startswith(prefix + ".setter") or q.startswith(prefix + ".getter"):
                return k
            if q in (self.gen_quals.get((kind, "setter")), self.gen_quals.get((kind, "getter"))):
                return k
        return None

    def analyse(self, q: str) -> Summary:
        fn = self.M.funcs[q]
        fk = self.forced_self_kind(q)
        ty = self.W.typer(q, None, {"self": fk} if fk else None)
        if ty is None:
            return Summary()
        return FnEffect(self, fn, ty).run()

    def overrides(self, cls: str, name: str, setter=False) -> List[str]:
        """CHA: every definition a receiver of static class ``cls`` may dispatch to."""
        key = f"{cls}|{name}|{setter}"
        if key in self._sub_memo:
            return self._sub_memo[key]
        out = []
        for c in [cls] + [c for c in self.M.classes if c != cls and cls in self.M.mro(c)]:
            m = self.M.method(c, name, setter)
            if m and m not in out:
                out.append(m)
        self._sub_memo[key] = out
        return out


class FnEffect:
    def __init__(self, ea: EffectAnalysis, fn: Fn, ty: Typer):
        self.ea = ea
        self.M = ea.M
        self.W = ea.W
        self.fn = fn
        self.ty = ty
        self.S = Summary()
        self.env: Dict[str, AV] = {}
        a = fn.node.args
        ann = {x.arg: x.annotation for x in a.posonlyargs + a.args + a.kwonlyargs}
        for p in params_of(fn.node):
            k = ty.env.get(p, UNKNOWN) if False else self._param_kind(p, ann.get(p))
            if is_scalar(k) or (k[0] == "type"):
                self.env[p] = EMPTY
            else:
                self.env[p] = AV(frozenset([(p, "")]))

    def _param_kind(self, p, ann):
        fk = self.ea.forced_self_kind(self.fn.qual)
        if p == "self" and fk:
            return fk
        first = params_of(self.fn.node)[:1]
        if self.fn.cls and not self.fn.is_static and self.fn.outer_fn is None and [p] == first:
            ck = self.W.class_instance_kind(self.fn.cls)
            return ("type", ck) if self.fn.is_classmethod else ck
        if ann is not None:
            return self.W.ann_kind(self.fn.mod, ann, self.fn.cls)
        # default value constants
        return UNKNOWN

    # -------------------------------------------------------------- utilities
    def kind(self, e):
        return self.ty.kind(e)

    def txt(self, n) -> str:
        try:
            return ast.unparse(n)[:120]
        except Exception:  # pragma: no cover
            return "?"

    def mutate(self, roots: FS, node, via="", byname=False):
        for r in roots:
            self.S.mut.setdefault(r, []).append(Site(getattr(node, "lineno", 0), self.txt(node), via, byname))

    def alias(self, dst_roots: FS, f: str, src: AV):
        srcs = {r[0] for r in src.all()}
        for d in dst_roots:
            dd = lift(d, f) if f else d
            for sp in srcs:
                self.S.alias.add((dd, sp))

    def weak_update(self, expr, f: str, roots: FS):
        """Record that ``roots`` were stored into field ``f`` of the local object
        denoted by ``expr`` (a Name or an attribute/subscript chain on a Name)."""
        if not roots:
            return
        depth = 0
        while isinstance(expr, (ast.Attribute, ast.Subscript)):
            expr = expr.value
            depth += 1
        if isinstance(expr, ast.Name) and expr.id in self.env:
            self.env[expr.id] = with_field(self.env[expr.id], f if depth == 0 else "*", roots)

    # ------------------------------------------------------------------- run
    def run(self) -> Summary:
        self.block(self.fn.node.body)
        return self.S

    def block(self, body):
        for s in body:
            self.stmt(s)

    def join_env(self, e1, e2):
        out = {}
        for k in set(e1) | set(e2):
            out[k] = av_join(e1.get(k, EMPTY), e2.get(k, EMPTY))
        return out

    def stmt(self, s):
        if isinstance(s, ast.Assign):
            v = self.ev(s.value)
            for t in s.targets:
                self.store(t, v, s.value, s)
        elif isinstance(s, ast.AnnAssign):
            if s.value is not None:
                self.store(s.target, self.ev(s.value), s.value, s)
        elif isinstance(s, ast.AugAssign):
            self.aug(s)
        elif isinstance(s, ast.Expr):
            self.ev(s.value)
        elif isinstance(s, ast.Return):
            if s.value is not None:
                self.S.ret = av_join(self.S.ret, self.ev(s.value))
        elif isinstance(s, (ast.For, ast.AsyncFor)):
            it = self.ev(s.iter)
            ek = self.W.elem_kind(self.kind(s.iter))
            for _ in range(3):
                before = dict(self.env)
                if not self.bind_zip(s.target, s.iter, s):
                    el = EMPTY if is_scalar(ek) else self.iter_elem(it, s.iter)
                    self.store(s.target, el, None, s, elementwise=True)
                self.block(s.body)
                self.env = self.join_env(before, self.env)
                if self.env == before:
                    break
            self.block(s.orelse)
        elif isinstance(s, ast.While):
            for _ in range(3):
                before = dict(self.env)
                self.ev(s.test)
                self.block(s.body)
                self.env = self.join_env(before, self.env)
                if self.env == before:
                    break
            self.block(s.orelse)
        elif isinstance(s, ast.If):
            self.ev(s.test)
            e0 = dict(self.env)
            self.block(s.body)
            e1 = self.env
            self.env = dict(e0)
            self.block(s.orelse)
            self.env = self.join_env(e1, self.env)
        elif isinstance(s, (ast.With, ast.AsyncWith)):
            for it in s.items:
                v = self.ev(it.context_expr)
                if it.optional_vars is not None:
                    self.store(it.optional_vars, v, None, s)
            self.block(s.body)
        elif isinstance(s, ast.Try):
            e0 = dict(self.env)
            self.block(s.body)
            e1 = self.env
            for h in s.handlers:
                self.env = self.join_env(e0, e1)
                self.block(h.body)
                e1 = self.join_env(e1, self.env)
            self.env = e1
            self.block(s.orelse)
            self.block(s.finalbody)
        elif isinstance(s, ast.Raise):
            if s.exc is not None:
                self.ev(s.exc)
        elif isinstance(s, ast.Assert):
            self.ev(s.test)
        elif isinstance(s, ast.Delete):
            for t in s.targets:
                if isinstance(t, (ast.Attribute, ast.Subscript)):
                    b = self.ev(t.value)
                    self.mutate(b.obj, s, "del")
        # nested defs, imports, pass, break, continue: no effect here

    # ------------------------------------------------------------ expressions
    def ev(self, e) -> AV:
        if e is None:
            return EMPTY
        av = self._ev(e)
        if is_scalar(self.kind(e)):
            return EMPTY
        return av

    def _ev(self, e) -> AV:
        if isinstance(e, ast.Name):
            return self.env.get(e.id, EMPTY)
        if isinstance(e, ast.Constant):
            return EMPTY
        if isinstance(e, ast.JoinedStr):
            for v in e.values:
                if isinstance(v, ast.FormattedValue):
                    self.ev(v.value)
            return EMPTY
        if isinstance(e, ast.Attribute):
            base = self.ev(e.value)
            return self.load_attr(base, self.kind(e.value), e.attr, e)
        if isinstance(e, ast.Subscript):
            base = self.ev(e.value)
            idx = self.ev_slice(e.slice)
            return self.load_sub(base, self.kind(e.value), e, idx)
        if isinstance(e, ast.Call):
            return self.call(e)
        if isinstance(e, ast.BinOp):
            a, b = self.ev(e.left), self.ev(e.right)
            ka, kb = self.kind(e.left), self.kind(e.right)
            if ka[0] == "pylist" or kb[0] == "pylist":
                return AV(E0, {"*": proj(a, "*") | proj(b, "*")})
            return EMPTY  # arithmetic builds a new object (pandas / numpy / scalars)
        if isinstance(e, ast.UnaryOp):
            self.ev(e.operand)
            return EMPTY
        if isinstance(e, ast.Compare):
            self.ev(e.left)
            for c in e.comparators:
                self.ev(c)
            return EMPTY
        if isinstance(e, ast.BoolOp):
            out = EMPTY
            for v in e.values:
                out = av_join(out, self.ev(v))
            return out
        if isinstance(e, ast.IfExp):
            self.ev(e.test)
            return av_join(self.ev(e.body), self.ev(e.orelse))
        if isinstance(e, (ast.List, ast.Tuple, ast.Set)):
            roots = set()
            for x in e.elts:
                if isinstance(x, ast.Starred):
                    v = self.ev(x.value)
                    if not is_scalar(self.W.elem_kind(self.kind(x.value))):
                        roots |= self.iter_elem(v, x.value).all()
                else:
                    roots |= self.ev(x).all()
            return AV(E0, {"*": frozenset(roots)})
        if isinstance(e, ast.Dict):
            roots = set()
            for k, v in zip(e.keys, e.values):
                if k is not None:
                    self.ev(k)
                    roots |= self.ev(v).all()
                else:
                    roots |= proj(self.ev(v), "*")
            return AV(E0, {"*": frozenset(roots)})
        if isinstance(e, (ast.ListComp, ast.SetComp, ast.GeneratorExp, ast.DictComp)):
            saved = dict(self.env)
            for g in e.generators:
                it = self.ev(g.iter)
                ek = self.W.elem_kind(self.kind(g.iter))
                if not self.bind_zip(g.target, g.iter, e):
                    el = EMPTY if is_scalar(ek) else self.iter_elem(it, g.iter)
                    self.store(g.target, el, None, e, elementwise=True)
                for c in g.ifs:
                    self.ev(c)
            if isinstance(e, ast.DictComp):
                self.ev(e.key)
                r = self.ev(e.value)
            else:
                r = self.ev(e.elt)
            self.env = saved
            return AV(E0, {"*": r.all()})
        if isinstance(e, ast.Lambda):
            return EMPTY
        if isinstance(e, ast.Starred):
            return self.ev(e.value)
        if isinstance(e, (ast.Yield, ast.YieldFrom)):
            if e.value is not None:
                v = self.ev(e.value)
                if isinstance(e, ast.YieldFrom):
                    v = self.iter_elem(v, e.value)
                self.S.ret = av_join(self.S.ret, AV(E0, {"*": v.all()}))
            return EMPTY
        if isinstance(e, ast.NamedExpr):
            v = self.ev(e.value)
            self.store(e.target, v, e.value, e)
            return v
        if isinstance(e, ast.FormattedValue):
            self.ev(e.value)
            return EMPTY
        return EMPTY

    def ev_slice(self, sl) -> AV:
        if isinstance(sl, ast.Slice):
            for x in (sl.lower, sl.upper, sl.step):
                if x is not None:
                    self.ev(x)
            return EMPTY
        if isinstance(sl, ast.Tuple):
            for x in sl.elts:
                self.ev_slice(x)
            return EMPTY
        return self.ev(sl)

    def bind_zip(self, target, it_node, stmt) -> bool:
        """for a, b in zip(x, y) / for i, a in enumerate(x): bind position-wise."""
        if not (isinstance(it_node, ast.Call) and isinstance(it_node.func, ast.Name) and not it_node.keywords
                and it_node.func.id in ("zip", "enumerate") and it_node.func.id not in self.env
                and isinstance(target, (ast.Tuple, ast.List))):
            return False
        if any(isinstance(a, ast.Starred) for a in it_node.args) or any(isinstance(t, ast.Starred) for t in target.elts):
            return False
        if it_node.func.id == "zip":
            if len(it_node.args) != len(target.elts):
                return False
            pairs = list(zip(target.elts, it_node.args))
        else:
            if len(target.elts) != 2 or not it_node.args:
                return False
            self.store(target.elts[0], EMPTY, None, stmt)
            pairs = [(target.elts[1], it_node.args[0])]
        for t, a in pairs:
            av = self.ev(a)
            ek = self.W.elem_kind(self.kind(a))
            el = EMPTY if is_scalar(ek) else self.iter_elem(av, a)
            self.store(t, el, None, stmt, elementwise=True)
        return True

    def iter_elem(self, it: AV, node) -> AV:
        """Element obtained by iterating ``it``; TimedList / MapSet iteration goes
        through the repo's own ``__iter__``."""
        k = self.kind(node) if node is not None else UNKNOWN
        if k[0] in REPO_KINDS and k[1] in self.M.classes:
            ms = self.ea.overrides(k[1], "__iter__")
            if ms:
                out = EMPTY
                for m in ms:
                    r = self.apply_summary(m, {"self": it}, node, None)
                    out = av_join(out, AV(proj(r, "*")))
                return out
        return AV(proj(it, "*"))

    # ------------------------------------------------------------------ loads
    def generated(self, bk, name) -> Optional[str]:
        """Is ``name`` a decorator-generated property of a value of kind bk?"""
        h = bk[0]
        if h not in ("list", "chart", "stacker", "item") or bk[1] not in self.M.classes:
            return None
        c = bk[1]
        if h == "list" and name in self.M.list_columns(c):
            return "list"
        if h == "chart" and name in self.M.map_props_names(c):
            return "chart"
        if h == "stacker" and name in self.M.stacker_props(c):
            return "stacker"
        if h == "item" and name in self.M.item_fields(c):
            return "item"
        return None

    def load_attr(self, base: AV, bk, name: str, node) -> AV:
        h = bk[0]
        if h == "union":
            out = EMPTY
            for x in bk[1]:
                out = av_join(out, self.load_attr(base, x, name, node))
            return out
        g = self.generated(bk, name)
        if g:
            if g == "stacker" and MAPSET_STACKER in self.M.mro(bk[1]):
                g = "stacker"
            q = self.ea.gen_quals[(g, "getter")]
            return self.apply_summary(q, {"self": base}, node, None)
        if h in REPO_KINDS and bk[1] in self.M.classes:
            c = bk[1]
            if name == "__class__":
                return EMPTY
            m = self.M.method(c, name)
            if m is not None:
                if self.M.funcs[m].is_property:
                    out = EMPTY
                    for mm in self.ea.overrides(c, name):
                        if self.M.funcs[mm].is_property:
                            out = av_join(out, self.apply_summary(mm, {"self": base}, node, None))
                    return out
                return base  # bound method: carries its receiver
            return AV(proj(base, name))
        if h == "type":
            return EMPTY
        if h in ("df", "series", "nd", "indexer", "groupby", "accessor", "index"):
            cls = PM.PANDAS_ATTRS.get(name)
            if cls == "scalar":
                return EMPTY
            if cls == "view":
                return AV(base.obj | proj(base, "*") if False else base.obj)
            if name in PM.PANDAS_METHODS or name in ("groupby",):
                return base  # method reference
            if h == "df":
                return AV(base.obj)  # attribute-style column access: a view of the frame
            return base
        if h in ("pylist", "dict", "set", "tuple", "str", "bytes", "frac", "num", "iter"):
            return base
        if h in ("module", "ext", "func", "bound"):
            return EMPTY
        # unknown receiver: generic field load
        return AV(proj(base, name))

    def _index_is_copying(self, sl) -> bool:
        """True when pandas/numpy indexing with this subscript returns a copy:
        boolean masks, label/position lists (fancy indexing)."""
        parts = sl.elts if isinstance(sl, ast.Tuple) else [sl]
        for p in parts:
            if isinstance(p, ast.Slice):
                continue
            k = self.kind(p)
            if k[0] in ("series", "nd", "pylist", "df", "index") or isinstance(p, (ast.List, ast.Compare, ast.BoolOp)):
                return True
            if isinstance(p, ast.BinOp) and isinstance(p.op, (ast.BitAnd, ast.BitOr)):
                return True
            if isinstance(p, ast.UnaryOp) and isinstance(p.op, ast.Invert):
                return True
        return False

    def load_sub(self, base: AV, bk, node: ast.Subscript, idx: AV) -> AV:
        h = bk[0]
        if h == "union":
            out = EMPTY
            for x in bk[1]:
                out = av_join(out, self.load_sub(base, x, node, idx))
            return out
        if h == "list" and self._index_is_copying(node.slice):
            # TimedList.__getitem__ re-wraps self.df[item] (shape decided by C16.R1); a boolean mask / list index makes pandas
            # copy the selected rows, so the new list shares nothing with the receiver (an integer slice would be a view)
            return EMPTY
        if h in REPO_KINDS and bk[1] in self.M.classes:
            ms = self.ea.overrides(bk[1], "__getitem__")
            if ms:
                out = EMPTY
                for m in ms:
                    ps = params_of(self.M.funcs[m].node)
                    b = {"self": base}
                    if len(ps) > 1:
                        b[ps[1]] = idx
                    out = av_join(out, self.apply_summary(m, b, node, None))
                return out
            return AV(proj(base, "*"))
        if h in ("df", "series", "nd", "indexer", "groupby"):
            if self._index_is_copying(node.slice):
                return EMPTY
            return AV(base.obj)
        if h in ("str", "bytes"):
            return EMPTY
        return AV(proj(base, "*"))

    # ----------------------------------------------------------------- stores
    def store(self, t, v: AV, value_node, stmt, elementwise=False):
        if isinstance(t, ast.Name):
            self.env[t.id] = EMPTY if is_scalar(self.kind(t)) and self.kind(t) != UNKNOWN else v
        elif isinstance(t, (ast.Tuple, ast.List)):
            if isinstance(value_node, (ast.Tuple, ast.List)) and len(value_node.elts) == len(t.elts) and \
                    not any(isinstance(x, ast.Starred) for x in list(t.elts) + list(value_node.elts)):
                for x, vn in zip(t.elts, value_node.elts):
                    self.store(x, self.ev(vn), vn, stmt)
            else:
                el = AV(proj(v, "*")) if not elementwise else AV(v.obj | proj(v, "*"))
                for x in t.elts:
                    self.store(x.value if isinstance(x, ast.Starred) else x, el, None, stmt)
        elif isinstance(t, ast.Starred):
            self.store(t.value, v, None, stmt)
        elif isinstance(t, ast.Attribute):
            base = self.ev(t.value)
            self.store_attr(base, self.kind(t.value), t, v, stmt)
        elif isinstance(t, ast.Subscript):
            base = self.ev(t.value)
            idx = self.ev_slice(t.slice)
            self.store_sub(base, self.kind(t.value), t, v, idx, stmt)

    def store_attr(self, base: AV, bk, t: ast.Attribute, v: AV, stmt):
        name = t.attr
        h = bk[0]
        if h == "union":
            for x in bk[1]:
                self.store_attr(base, x, t, v, stmt)
            return
        g = self.generated(bk, name)
        if g:
            q = self.ea.gen_quals[(g, "setter")]
            self.apply_summary(q, {"self": base, "val": v}, stmt, t.value)
            return
        if h in REPO_KINDS and bk[1] in self.M.classes:
            ms = [m for m in self.ea.overrides(bk[1], name, setter=True)]
            if ms:
                for m in ms:
                    ps = params_of(self.M.funcs[m].node)
                    b = {"self": base}
                    if len(ps) > 1:
                        b[ps[1]] = v
                    self.apply_summary(m, b, stmt, t.value)
                return
        if h in ("df", "series"):
            # df.col = v : in-place column write, pandas copies the value
            self.mutate(base.obj, stmt, "attribute-style column write")
            return
        # generic field store
        self.mutate(frozenset(lift(r, name) for r in base.obj), stmt, f"field store .{name}")
        self.alias(base.obj, name, v)
        self.weak_update(t.value, name, v.all())

    def store_sub(self, base: AV, bk, t: ast.Subscript, v: AV, idx: AV, stmt):
        h = bk[0]
        if h == "union":
            for x in bk[1]:
                self.store_sub(base, x, t, v, idx, stmt)
            return
        if h in REPO_KINDS and bk[1] in self.M.classes:
            ms = self.ea.overrides(bk[1], "__setitem__")
            if ms:
                for m in ms:
                    ps = params_of(self.M.funcs[m].node)
                    b = {"self": base}
                    if len(ps) > 1:
                        b[ps[1]] = idx
                    if len(ps) > 2:
                        b[ps[2]] = v
                    self.apply_summary(m, b, stmt, t.value)
                return
        if h in ("df", "series", "nd", "indexer"):
            self.mutate(base.obj, stmt, "item assignment")
            return
        self.mutate(frozenset(lift(r, "*") for r in base.obj), stmt, "item assignment")
        self.alias(base.obj, "*", v)
        self.weak_update(t.value, "*", v.all())

    def aug(self, s: ast.AugAssign):
        v = self.ev(s.value)
        t = s.target
        if isinstance(t, ast.Name):
            cur = self.env.get(t.id, EMPTY)
            k = self.kind(t)
            if is_scalar(k):
                self.env[t.id] = EMPTY
                return
            if k[0] in ("series", "nd", "df", "pylist", "set", "dict"):
                self.mutate(cur.obj, s, f"in-place {type(s.op).__name__} on a {k[0]}")
                if k[0] in ("pylist", "set"):
                    self.env[t.id] = with_field(cur, "*", proj(v, "*"))
                return
            if cur.obj:
                self.S.unresolved.append((s.lineno, f"augmented assignment on '{t.id}' of unknown kind"))
            return
        # attribute / subscript target: load then store
        self.ev(t)
        self.store(t, EMPTY, None, s)

    # ------------------------------------------------------------------ calls
    def bind(self, fn: Fn, recv: Optional[AV], recv_instance: bool, pos: List[Tuple[AV, bool]],
             kw: Dict[Optional[str], AV]) -> Dict[str, AV]:
        a = fn.node.args
        ps = [x.arg for x in a.posonlyargs + a.args]
        b: Dict[str, AV] = {}
        if fn.cls and not fn.is_static and fn.outer_fn is None and ps:
            first = ps.pop(0)
            b[first] = recv if (recv is not None and recv_instance and not fn.is_classmethod) else EMPTY
        i = 0
        for av, starred in pos:
            if starred:
                for p in ps[i:]:
                    b[p] = av_join(b.get(p, EMPTY), AV(proj(av, "*")))
                if a.vararg:
                    b[a.vararg.arg] = av_join(b.get(a.vararg.arg, EMPTY), av)
                continue
            if i < len(ps):
                b[ps[i]] = av
                i += 1
            elif a.vararg:
                b[a.vararg.arg] = av_join(b.get(a.vararg.arg, EMPTY), container_of(av))
        names = set(ps) | {x.arg for x in a.kwonlyargs}
        for k, av in kw.items():
            if k is None:
                for p in names:
                    if p not in b:
                        b[p] = AV(proj(av, "*"))
                if a.kwarg:
                    b[a.kwarg.arg] = av_join(b.get(a.kwarg.arg, EMPTY), av)
            elif k in names:
                b[k] = av
            elif a.kwarg:
                b[a.kwarg.arg] = av_join(b.get(a.kwarg.arg, EMPTY), container_of(av))
        return b

    def subst(self, roots: FS, b: Dict[str, AV]) -> FS:
        out = set()
        for (p, f) in roots:
            if p in b:
                out |= proj(b[p], f)
        return frozenset(out)

    def apply_summary(self, q: str, b: Dict[str, AV], node, recv_expr, byname=False) -> AV:
        """Apply callee summary under binding ``b``; returns the result value."""
        s = self.ea.summ.get(q)
        if s is None:
            return EMPTY
        for r, sites in s.mut.items():
            p, f = r
            if p in b:
                self.mutate(proj(b[p], f), node, f"via {q.replace('reamber.', '')}", byname)
        for (dst, srcp) in s.alias:
            dp, df_ = dst
            if dp in b and srcp in b:
                src = b[srcp]
                self.alias(proj(b[dp], ""), df_, src)
                if dp in ("self",) or True:
                    # local weak update on the expression bound to dp, when known
                    ex = recv_expr if (recv_expr is not None and dp == params_of(self.M.funcs[q].node)[0]) else None
                    if ex is not None:
                        self.weak_update(ex, df_ or "*", src.all())
        obj = self.subst(s.ret.obj, b)
        fields = {g: self.subst(rs, b) for g, rs in s.ret.fields.items()}
        res = AV(obj, fields)
        for (p, f) in s.ret.obj:
            if f == "" and p in b:
                res = av_join(res, AV(E0, b[p].fields))
        return res

    def construct(self, cls: str, pos, kw, node) -> AV:
        init = self.M.method(cls, "__init__")
        if init is not None:
            fn = self.M.funcs[init]
            b = self.bind(fn, EMPTY, True, pos, kw)
            self.apply_summary(init, b, node, None)
            s = self.ea.summ.get(init)
            out = EMPTY
            if s is not None:
                selfp = params_of(fn.node)[0]
                for (dst, srcp) in s.alias:
                    if dst[0] == selfp and srcp in b:
                        out = with_field(out, dst[1] or "*", b[srcp].all())
            return out
        flds = self.M.dataclass_fields(cls)
        out = EMPTY
        if flds:
            names = [f[0] for f in flds]
            i = 0
            for av, starred in pos:
                if starred:
                    out = with_field(out, "*", proj(av, "*"))
                elif i < len(names):
                    out = with_field(out, names[i], av.all())
                    i += 1
            for k, av in kw.items():
                out = with_field(out, k if k in names else "*", av.all())
            return out
        roots = set()
        for av, _ in pos:
            roots |= av.all()
        for av in kw.values():
            roots |= av.all()
        return AV(E0, {"*": frozenset(roots)})

    def _partial_of(self, name: str):
        """`g = partial(F, *a, **k)` bound exactly once in this function (and ``g`` not otherwise stored): the partial call node"""
        if not hasattr(self, "_partials"):
            self._partials = {}
            stores = {}
            for n in ast.walk(self.fn.node):
                if isinstance(n, ast.Name) and isinstance(n.ctx, ast.Store):
                    stores[n.id] = stores.get(n.id, 0) + 1
            for n in ast.walk(self.fn.node):
                if isinstance(n, ast.Assign) and len(n.targets) == 1 and isinstance(n.targets[0], ast.Name) and isinstance(n.value, ast.Call) and \
                        stores.get(n.targets[0].id) == 1 and n.value.args and not any(isinstance(a, ast.Starred) for a in n.value.args) and \
                        all(k.arg for k in n.value.keywords) and (
                            (isinstance(n.value.func, ast.Name) and n.value.func.id == "partial") or
                            (isinstance(n.value.func, ast.Attribute) and n.value.func.attr == "partial" and
                             isinstance(n.value.func.value, ast.Name) and n.value.func.value.id == "functools")):
                    self._partials[n.targets[0].id] = n.value
        return self._partials.get(name)

    def _const_attr_names(self, ne):
        """the string constants an attribute-name expression can take: a literal, or a loop / comprehension variable ranging over a
        literal table of this function, its class or its module (its own column of the rows); None when not a finite known set"""
        if isinstance(ne, ast.Constant) and isinstance(ne.value, str):
            return [ne.value]
        if not isinstance(ne, ast.Name):
            return None
        from .normal import _literal_items
        for n in ast.walk(self.fn.node):
            if not isinstance(n, (ast.For, ast.comprehension)):
                continue
            tg = n.target
            if not any(isinstance(x, ast.Name) and x.id == ne.id for x in ast.walk(tg)):
                continue
            try:
                items = _literal_items(self.M, self.fn, n.iter, self.fn.node)
            except Exception:
                items = None
            if not items:
                return None
            out = []
            for it in items:
                if it[0] == "kv":
                    if isinstance(tg, ast.Tuple) and len(tg.elts) == 2 and isinstance(tg.elts[0], ast.Name) and tg.elts[0].id == ne.id:
                        v = it[1]
                    elif isinstance(tg, ast.Tuple) and len(tg.elts) == 2 and isinstance(tg.elts[1], ast.Name) and tg.elts[1].id == ne.id:
                        v = it[2]
                    else:
                        return None
                elif isinstance(tg, ast.Name):
                    v = it[1]
                elif isinstance(tg, ast.Tuple) and isinstance(it[1], (ast.Tuple, ast.List)) and len(tg.elts) == len(it[1].elts):
                    pos = next((k for k, x in enumerate(tg.elts) if isinstance(x, ast.Name) and x.id == ne.id), None)
                    if pos is None:
                        return None
                    v = it[1].elts[pos]
                else:
                    return None
                if not (isinstance(v, ast.Constant) and isinstance(v.value, str)):
                    return None
                out.append(v.value)
            return sorted(set(out))
        return None

    def call(self, e: ast.Call) -> AV:
        f = e.func
        if isinstance(f, ast.Name) and self._partial_of(f.id) is not None:
            # g(x, **m) with g = partial(F, *a, **k) is F(*a, x, **k, **m)
            pc = self._partial_of(f.id)
            given = {k.arg for k in e.keywords}
            e2 = ast.Call(func=pc.args[0], args=list(pc.args[1:]) + list(e.args),
                          keywords=[k for k in pc.keywords if k.arg not in given] + list(e.keywords))
            return self.call(ast.copy_location(e2, e))
        pos: List[Tuple[AV, bool]] = []
        for a in e.args:
            if isinstance(a, ast.Starred):
                pos.append((self.ev(a.value), True))
            else:
                pos.append((self.ev(a), False))
        kw: Dict[Optional[str], AV] = {}
        for k in e.keywords:
            kw[k.arg] = self.ev(k.value)
        allargs = [av for av, _ in pos] + list(kw.values())

        # ---- super().m(...)
        if isinstance(f, ast.Attribute) and isinstance(f.value, ast.Call) and isinstance(f.value.func, ast.Name) \
                and f.value.func.id == "super":
            tgt = self.W.super_target(self.ty, f.value, f.attr)
            recv = self.env.get("self", EMPTY)
            if len(f.value.args) == 2:
                recv = self.ev(f.value.args[1])
            if tgt:
                b = self.bind(self.M.funcs[tgt], recv, True, pos, kw)
                return self.apply_summary(tgt, b, e, None)
            return EMPTY  # object.__init__ etc.

        # ---- builtin setattr / getattr: the same as the dunder forms (generated accessors of the receiver's family); on other
        # objects a plain field store / load
        if isinstance(f, ast.Name) and f.id in ("setattr", "getattr") and f.id not in self.env and len(e.args) >= 2:
            names_ = self._const_attr_names(e.args[1])
            if names_:
                # the name ranges over a finite table of constants: each is the plain attribute access `obj.<name>` (a generated
                # accessor only where <name> is one)
                recv0 = self.ev(e.args[0])
                rk0 = self.kind(e.args[0])
                if f.id == "getattr":
                    out = EMPTY
                    for nm_ in names_:
                        out = av_join(out, self.load_attr(recv0, rk0, nm_, e))
                    return out
                val = self.ev(e.args[2]) if len(e.args) > 2 else EMPTY
                for nm_ in names_:
                    t_ = ast.copy_location(ast.Attribute(value=e.args[0], attr=nm_, ctx=ast.Store()), e)
                    self.store_attr(recv0, rk0, t_, val, e)
                return EMPTY
        if isinstance(f, ast.Name) and f.id in ("setattr", "getattr") and f.id not in self.env and e.args:
            recv0 = self.ev(e.args[0])
            rk0 = self.kind(e.args[0])
            if rk0[0] in ("list", "chart", "stacker", "item"):
                kind = rk0[0]
                if f.id == "setattr":
                    val = self.ev(e.args[2]) if len(e.args) > 2 else EMPTY
                    self.apply_summary(self.ea.gen_quals[(kind, "setter")], {"self": recv0, "val": val}, e, e.args[0])
                    return EMPTY
                return self.apply_summary(self.ea.gen_quals[(kind, "getter")], {"self": recv0}, e, None)
            if f.id == "setattr":
                val = self.ev(e.args[2]) if len(e.args) > 2 else EMPTY
                self.mutate(frozenset(lift(r, "*") for r in recv0.obj), e, "setattr")
                self.alias(recv0.obj, "*", val)
                return EMPTY
            return AV(proj(recv0, "*"))
        # ---- plain builtins
        if isinstance(f, ast.Name) and f.id not in self.env and self.M.resolve(self.fn.mod, f.id) is None \
                and f.id in PM.BUILTINS and self.ty.env.get(f.id) is None:
            return self.model_result(PM.BUILTINS[f.id], EMPTY, allargs, e)

        fk = self.kind(f) if not isinstance(f, ast.Attribute) else self.ty.kind(f)
        recv = EMPTY
        if isinstance(f, ast.Attribute):
            recv = self.ev(f.value)
            rk = self.kind(f.value)
        else:
            self.ev(f)
            rk = UNKNOWN
        return self.dispatch(fk, rk, recv, f, e, pos, kw, allargs)

    def dispatch(self, fk, rk, recv: AV, f, e, pos, kw, allargs) -> AV:
        h = fk[0]
        if h == "union":
            out = EMPTY
            for x in fk[1]:
                out = av_join(out, self.dispatch(x, rk, recv, f, e, pos, kw, allargs))
            return out
        if h == "func":
            q = fk[1]
            if q in self.M.funcs:
                b = self.bind(self.M.funcs[q], None, False, pos, kw)
                return self.apply_summary(q, b, e, None)
        if h == "bound":
            q = fk[1]
            if q == "<list_props>._item_class":
                return EMPTY
            if q in self.M.funcs:
                fn = self.M.funcs[q]
                rkk = fk[2]
                inst = rkk[0] != "type"
                cands = [q]
                base_k = rkk[1] if rkk[0] == "type" else rkk
                if base_k[0] in REPO_KINDS and base_k[1] in self.M.classes:
                    cands = self.ea.overrides(base_k[1], fn.name) or [q]
                # reflective helpers used by ConvertBase.cast
                out = EMPTY
                for c in cands:
                    cf = self.M.funcs[c]
                    b = self.bind(cf, recv, inst, pos, kw)
                    out = av_join(out, self.apply_summary(c, b, e, f.value if isinstance(f, ast.Attribute) else None))
                return out
        if h == "type":
            inner = fk[1]
            if inner[0] in REPO_KINDS and inner[1] in self.M.classes:
                return self.construct(inner[1], pos, kw, e)
            return container_of(*allargs)
        if h == "ext":
            cls = PM.EXTERNAL_CALLS.get(fk[1])
            if fk[1] in ("pandas.DataFrame", "pandas.Series"):
                a0 = allargs[0] if allargs else EMPTY
                k0 = self.kind(e.args[0]) if e.args else (self.kind(e.keywords[0].value) if e.keywords else UNKNOWN)
                if k0[0] in ("df", "series", "nd"):
                    return AV(a0.obj)  # copy=False default for array-like input
                return EMPTY
            if cls is None:
                self.S.unresolved.append((e.lineno, f"external call {fk[1]} not in model"))
                cls = "top"
            return self.model_result(cls, allargs[0] if allargs else EMPTY, allargs, e)
        if h == "pdmeth":
            name = fk[2]
            if isinstance(f, ast.Attribute) and name in ("__setattr__", "__getattribute__"):
                pass
            ent = PM.PANDAS_METHODS.get(name)
            if ent is None:
                self.S.unresolved.append((e.lineno, f"pandas/numpy method .{name} not in model"))
                return AV(recv.obj | frozenset().union(*[a.all() for a in allargs]) if allargs else recv.obj)
            res, inplace = ent
            if inplace is True or (inplace == "kw" and any(
                    k.arg == "inplace" and not (isinstance(k.value, ast.Constant) and k.value.value is False)
                    for k in e.keywords)):
                self.mutate(recv.obj, e, f"in-place .{name}()")
            if res == "fresh" and any(k.arg == "copy" and not (isinstance(k.value, ast.Constant) and k.value.value is True) for k in e.keywords):
                res = "view"        # astype / rename / reindex / set_axis / infer_objects (.., copy=False): may hand back the receiver's own blocks
            return self.model_result(res, recv, allargs, e)
        if h == "pymeth":
            fam, name = fk[1], fk[2]
            if fam in ("str", "bytes", "frac", "num"):
                return EMPTY
            if fam == "tuple":
                return EMPTY
            ent = PM.PY_METHODS.get((fam, name))
            if ent is None:
                if fam == "set":
                    return AV(E0, {"*": proj(recv, "*")})
                self.S.unresolved.append((e.lineno, f"{fam}.{name} not in model"))
                return AV(recv.obj | proj(recv, "*"))
            res, inplace, stores = ent
            if inplace:
                self.mutate(frozenset(lift(r, "*") for r in recv.obj), e, f"in-place {fam}.{name}()")
            if stores and allargs:
                src = allargs[-1] if name in ("insert", "setdefault") else allargs[0]
                roots = proj(src, "*") if name in ("extend", "update") else src.all()
                self.alias(recv.obj, "*", AV(roots))
                if isinstance(f, ast.Attribute):
                    self.weak_update(f.value, "*", roots)
            return self.model_result(res, recv, allargs, e)
        # ---- reflective accessors (ConvertBase.cast): expanded as generated property access
        if isinstance(f, ast.Attribute) and f.attr in ("__setattr__", "__getattribute__", "__getattr__"):
            if rk[0] == "list" or rk == UNKNOWN or rk[0] in REPO_KINDS:
                kind = rk[0] if rk[0] in ("list", "chart", "stacker", "item") else "list"
                if f.attr == "__setattr__":
                    q = self.ea.gen_quals[(kind, "setter")]
                    val = allargs[1] if len(allargs) > 1 else EMPTY
                    self.apply_summary(q, {"self": recv, "val": val}, e, f.value)
                    return EMPTY
                q = self.ea.gen_quals[(kind, "getter")]
                return self.apply_summary(q, {"self": recv}, e, None)
        # ---- unknown callee
        if isinstance(f, ast.Attribute):
            name = f.attr
            modelled = name in PM.PANDAS_METHODS or any(k[1] == name for k in PM.PY_METHODS) or name in (
                "read", "write", "split", "join", "strip", "format", "encode", "decode", "close", "readlines",
                "writelines", "startswith", "endswith", "find", "rfind", "upper", "lower", "zfill", "replace")
            cands = [] if modelled else self.M.funcs_named(name)
            cands = [c for c in cands if not any(s in c for s in OUT_OF_SCOPE) and self.M.funcs[c].cls]
            if cands and rk == UNKNOWN:
                self.S.byname.append((e.lineno, f".{name}() resolved by name to {len(cands)} candidate(s)"))
                out = EMPTY
                for c in cands:
                    b = self.bind(self.M.funcs[c], recv, True, pos, kw)
                    out = av_join(out, self.apply_summary(c, b, e, f.value, byname=True))
                return out
            if modelled and rk == UNKNOWN:
                # a modelled method name on an unknown receiver: apply the model
                ent = PM.PANDAS_METHODS.get(name)
                pent = [v for k, v in PM.PY_METHODS.items() if k[1] == name]
                if pent and pent[0][1] and recv.obj:
                    self.S.unresolved.append((e.lineno, f".{name}() on a receiver of unknown kind"))
                if ent and ent[1] is True and recv.obj:
                    self.S.unresolved.append((e.lineno, f".{name}() on a receiver of unknown kind"))
        self.S.unresolved.append((e.lineno, f"call {self.txt(f)} unresolved"))
        roots = set(recv.all())
        for a in allargs:
            roots |= a.all()
        return AV(frozenset(roots))

    def model_result(self, cls: str, recv: AV, allargs: List[AV], e) -> AV:
        if cls in ("fresh", "scalar", "none"):
            return EMPTY
        if cls == "view":
            return AV(recv.obj)
        if cls == "elem":
            src = recv if not recv.is_empty() else (allargs[0] if allargs else EMPTY)
            out = set(proj(src, "*"))
            for a in allargs[1:]:
                out |= a.all()
            return AV(frozenset(out))
        if cls == "shallow":
            roots = set(proj(recv, "*")) if not recv.is_empty() else set()
            for a in allargs:
                roots |= proj(a, "*")
            return AV(E0, {"*": frozenset(roots)})
        roots = set(recv.all())
        for a in allargs:
            roots |= a.all()
        return AV(frozenset(roots))
