"""A8 None-flow (interprocedural): a local initialised to None and reassigned only
conditionally is returned / passed along resolved calls and finally dereferenced
with no dominating guard (DESIGN §4 A8)."""
from __future__ import annotations

import ast
from dataclasses import dataclass
from typing import Dict, List, Optional, Set, Tuple

from .model import Model, walk_no_nested, params_of


@dataclass
class Deref:
    fn: str
    line: int
    text: str
    chain: List[str]


def none_initialised(fn_node, var: str) -> Optional[ast.AST]:
    """The statement that initialises ``var`` to None at the top level of the function, if any."""
    for s in fn_node.body:
        if isinstance(s, ast.Assign):
            for t in s.targets:
                if isinstance(t, ast.Name) and t.id == var and isinstance(s.value, ast.Constant) and s.value.value is None:
                    return s
                if isinstance(t, ast.Tuple) and isinstance(s.value, ast.Tuple) and len(t.elts) == len(s.value.elts):
                    for a, b in zip(t.elts, s.value.elts):
                        if isinstance(a, ast.Name) and a.id == var and isinstance(b, ast.Constant) and b.value is None:
                            return s
    return None


def unconditionally_reassigned(fn_node, var: str, after: ast.AST) -> bool:
    seen = False
    for s in fn_node.body:
        if s is after:
            seen = True
            continue
        if seen and isinstance(s, ast.Assign) and any(isinstance(t, ast.Name) and t.id == var for t in s.targets) \
                and not (isinstance(s.value, ast.Constant) and s.value.value is None):
            return True
    return False


def _guards(test: ast.AST, var: str) -> bool:
    """Does the test examine var's None-ness / truthiness?"""
    for n in ast.walk(test):
        if isinstance(n, ast.Compare) and isinstance(n.left, ast.Name) and n.left.id == var and \
                any(isinstance(o, (ast.Is, ast.IsNot, ast.Eq, ast.NotEq)) for o in n.ops):
            return True
    if isinstance(test, ast.Name) and test.id == var:
        return True
    if isinstance(test, ast.UnaryOp) and isinstance(test.op, ast.Not) and isinstance(test.operand, ast.Name) and \
            test.operand.id == var:
        return True
    if isinstance(test, ast.BoolOp):
        return any(_guards(v, var) for v in test.values)
    return False


def derefs_in(fn_node, var: str) -> List[ast.AST]:
    """Unguarded uses of ``var`` that fail on None: attribute access, call,
    subscript, iteration, arithmetic."""
    out: List[ast.AST] = []

    def scan_expr(e, guarded):
        if guarded:
            return
        for n in ast.walk(e):
            if isinstance(n, ast.Attribute) and isinstance(n.value, ast.Name) and n.value.id == var:
                out.append(n)
            elif isinstance(n, ast.Subscript) and isinstance(n.value, ast.Name) and n.value.id == var:
                out.append(n)
            elif isinstance(n, ast.Call) and isinstance(n.func, ast.Name) and n.func.id == var:
                out.append(n)
            elif isinstance(n, ast.BinOp) and any(isinstance(x, ast.Name) and x.id == var for x in (n.left, n.right)):
                out.append(n)
            elif isinstance(n, ast.UnaryOp) and isinstance(n.op, ast.USub) and isinstance(n.operand, ast.Name) and n.operand.id == var:
                out.append(n)
            elif isinstance(n, ast.Call) and isinstance(n.func, ast.Name) and n.func.id in ("len", "sorted", "list", "iter") \
                    and any(isinstance(a, ast.Name) and a.id == var for a in n.args):
                out.append(n)

    def run(stmts, guarded):
        g = guarded
        for s in stmts:
            if isinstance(s, ast.If):
                gv = _guards(s.test, var)
                scan_expr(s.test, g or gv)
                run(s.body, g or gv)
                run(s.orelse, g or gv)
                # an early exit / reassignment under a guard protects everything after it
                if gv and any(isinstance(x, (ast.Return, ast.Raise, ast.Continue, ast.Break)) for x in s.body) or (
                        gv and any(isinstance(x, ast.Assign) and any(isinstance(t, ast.Name) and t.id == var for t in x.targets)
                                   for x in s.body)):
                    g = True
            elif isinstance(s, (ast.For, ast.AsyncFor)):
                if isinstance(s.iter, ast.Name) and s.iter.id == var and not g:
                    out.append(s.iter)
                scan_expr(s.iter, g)
                run(s.body, g)
                run(s.orelse, g)
            elif isinstance(s, ast.While):
                scan_expr(s.test, g)
                run(s.body, g)
            elif isinstance(s, (ast.With, ast.AsyncWith)):
                for it in s.items:
                    scan_expr(it.context_expr, g)
                run(s.body, g)
            elif isinstance(s, ast.Try):
                run(s.body, g)
                for h in s.handlers:
                    run(h.body, g)
                run(s.orelse, g)
                run(s.finalbody, g)
            elif isinstance(s, (ast.FunctionDef, ast.ClassDef)):
                continue
            else:
                if isinstance(s, ast.Assign) and any(isinstance(t, ast.Name) and t.id == var for t in s.targets):
                    scan_expr(s.value, g)
                    if not (isinstance(s.value, ast.Constant) and s.value.value is None):
                        g = True  # rebound to something else from here on
                    continue
                scan_expr(s, g)

    run(fn_node.body, False)
    return out


def flow(M: Model, W, start_fn: str, var: str, max_depth=5) -> Tuple[List[Deref], List[str]]:
    """Follow ``var`` (returned by start_fn) through callers' unpacking and along
    resolved calls; returns the unguarded dereferences reached and the trace."""
    derefs: List[Deref] = []
    trace: List[str] = []
    fn = M.fn(start_fn)
    # position in the returned tuple
    pos = None
    for n in walk_no_nested(fn.node):
        if isinstance(n, ast.Return) and n.value is not None:
            if isinstance(n.value, ast.Tuple):
                for i, e in enumerate(n.value.elts):
                    if isinstance(e, ast.Name) and e.id == var:
                        pos = i
            elif isinstance(n.value, ast.Name) and n.value.id == var:
                pos = -1
    for d in derefs_in(fn.node, var):
        derefs.append(Deref(start_fn, d.lineno, ast.unparse(d)[:80], [start_fn]))
    if pos is None:
        return derefs, trace
    seen: Set[Tuple[str, str]] = set()

    def follow(fq: str, name: str, chain: List[str], depth: int):
        if (fq, name) in seen or depth > max_depth:
            return
        seen.add((fq, name))
        f = M.funcs[fq]
        ty = W.typer(fq, None)
        for d in derefs_in(f.node, name):
            derefs.append(Deref(fq, d.lineno, ast.unparse(d)[:80], chain + [fq]))
        for n in walk_no_nested(f.node):
            if not isinstance(n, ast.Call):
                continue
            k = ty.kind(n.func) if ty is not None else ("unknown",)
            tgt = None
            if k[0] == "bound":
                tgt = k[1]
            elif k[0] == "func":
                tgt = k[1]
            if tgt is None or tgt not in M.funcs:
                continue
            callee = M.funcs[tgt]
            ps = [p.arg for p in callee.node.args.posonlyargs + callee.node.args.args]
            if callee.cls and not callee.is_static and callee.outer_fn is None and ps:
                ps = ps[1:]
            for i, a in enumerate(n.args):
                if isinstance(a, ast.Name) and a.id == name and i < len(ps):
                    trace.append(f"{fq} -> {tgt}({ps[i]})")
                    follow(tgt, ps[i], chain + [fq], depth + 1)
            for kw in n.keywords:
                if isinstance(kw.value, ast.Name) and kw.value.id == name and kw.arg:
                    trace.append(f"{fq} -> {tgt}({kw.arg})")
                    follow(tgt, kw.arg, chain + [fq], depth + 1)

    # callers of start_fn that unpack the result
    for q, f in M.funcs.items():
        ty = None
        for n in walk_no_nested(f.node):
            if isinstance(n, ast.Assign) and isinstance(n.value, ast.Call):
                if ty is None:
                    ty = W.typer(q, None)
                k = ty.kind(n.value.func) if ty is not None else ("unknown",)
                if k[0] in ("bound", "func") and k[1] == start_fn:
                    t = n.targets[0]
                    name = None
                    if pos == -1 and isinstance(t, ast.Name):
                        name = t.id
                    elif isinstance(t, ast.Tuple) and pos is not None and 0 <= pos < len(t.elts) and isinstance(t.elts[pos], ast.Name):
                        name = t.elts[pos].id
                    if name:
                        trace.append(f"{start_fn} returns -> {q}:{name}")
                        follow(q, name, [start_fn], 1)
    return derefs, trace
