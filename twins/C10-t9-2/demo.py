"""Demo for the refactoring of Snapper.__init__ / Snapper.snap.

Run:  cd /tmp/wt7/C10 && PYTHONPATH=/tmp/wt7/C10 /venv/bin/python demo.py
Prints one line `DIGEST <sha256>` over a canonical dump of every result.
"""
from __future__ import annotations

import hashlib
import logging
import random
import sys
from copy import deepcopy
from fractions import Fraction

import numpy as np

from reamber.algorithms.timing.TimingMap import TimingMap
from reamber.algorithms.timing.utils.BpmChangeOffset import BpmChangeOffset
from reamber.algorithms.timing.utils.BpmChangeSnap import BpmChangeSnap
from reamber.algorithms.timing.utils.Snapper import Snapper, snap as snap_fn
from reamber.algorithms.timing.utils.conf import DEFAULT_DIVISIONS
from reamber.algorithms.timing.utils.snap import Snap

logging.disable(logging.CRITICAL)
random.seed(1020261001)

OUT: list[str] = []


def emit(*parts):
    OUT.append(" | ".join(str(p) for p in parts))


def canon(x) -> str:
    if isinstance(x, BaseException):
        return f"EXC:{type(x).__name__}"
    if isinstance(x, Snap):
        return f"Snap({canon(x.measure)},{canon(x.beat)},{canon(x.metronome)})"
    if isinstance(x, BpmChangeSnap):
        return f"BCS({canon(x.bpm)},{canon(x.metronome)},{canon(x.snap)})"
    if isinstance(x, BpmChangeOffset):
        return f"BCO({canon(x.bpm)},{canon(x.metronome)},{canon(x.offset)})"
    if isinstance(x, np.ndarray):
        return (
            f"nd[{x.dtype}]{x.shape}("
            + ",".join(canon(i) for i in x.ravel().tolist())
            + ")"
        )
    if isinstance(x, (list, tuple)):
        return f"{type(x).__name__}[" + ",".join(canon(i) for i in x) + "]"
    if isinstance(x, bool) or x is None:
        return repr(x)
    if isinstance(x, Fraction):
        return f"Fr:{x.numerator}/{x.denominator}"
    if isinstance(x, (float, np.floating)):
        return f"{type(x).__name__}:{float(x).hex()}"
    if isinstance(x, (int, np.integer)):
        return f"{type(x).__name__}:{int(x)}"
    return f"{type(x).__name__}:{x!r}"


def attempt(fn, *a, **k):
    try:
        return fn(*a, **k)
    except Exception as e:  # noqa
        return e


# --------------------------------------------------------------------------
# Division sets
# --------------------------------------------------------------------------
def division_sets():
    sets = {
        "default_arg": None,  # Snapper()
        "default_tuple": DEFAULT_DIVISIONS,
        "one": [1],
        "two": [2],
        "three": (3,),
        "quarters": [1, 2, 4],
        "twelfths": [1, 2, 3, 4, 6, 12],
        "unsorted": [16, 3, 1, 8, 5],
        "duplicates": [4, 4, 2, 2, 4],
        "primes": [2, 3, 5, 7, 11, 13],
        "only_prime": [17],
        "d48": [48],
        "d64": [64],
        "d192": [192],
        "range": range(1, 10),
        "nd_int64": np.array([1, 2, 4, 8, 16], dtype=np.int64),
        "nd_int32": np.array([3, 6, 9], dtype=np.int32),
        "nd_uint8": np.array([5, 10, 20], dtype=np.uint8),
        "np_scalar_list": [np.int64(7), np.int64(14)],
        "generator_list": list(i * i for i in range(1, 6)),
        "set": {2, 4, 8},
        "frozenset": frozenset({3, 9, 27}),
        # erroneous
        "empty": [],
        "empty_tuple": (),
        "zero": [0],
        "negative": [-4],
        "floats": [1.0, 2.0],
        "scalar": 4,
        "float_scalar": 3.5,
        "nested": [[1, 2], [3, 4]],
        "strs": ["4"],
    }
    for k in range(12):
        n = random.randint(1, 6)
        sets[f"rand{k}"] = [random.randint(1, 40) for _ in range(n)]
    return sets


def make(divs):
    if divs is None:
        return attempt(Snapper)
    return attempt(Snapper, divs)


def probe_values(snapper):
    vals = []
    # exact grid values and ties between neighbours, +- one ulp
    grid = [float(v) for v in snapper.val]
    for v in grid[:60] + grid[-20:]:
        vals += [v, np.nextafter(v, 2.0), np.nextafter(v, -2.0)]
    for a, b in list(zip(grid[:-1], grid[1:]))[:80]:
        m = (a + b) / 2
        vals += [m, float(np.nextafter(m, 2.0)), float(np.nextafter(m, -2.0))]
    # random floats, beyond [0, 1) too, negatives
    vals += [random.random() for _ in range(60)]
    vals += [random.uniform(-8, 16) for _ in range(40)]
    vals += [0, 1, 2, -1, 7, 0.0, -0.0, 1.0, -1e-20, 1e-20, 1 - 1e-12, 0.5, 0.25,
             1 / 3, 2 / 3, 0.1 + 0.2, 1e9 + 0.5, -1e9 - 0.25, 123456.789]
    # Fractions (exact beat positions), numpy scalars
    for _ in range(40):
        d = random.choice([1, 2, 3, 4, 5, 6, 7, 8, 9, 12, 16, 32, 48, 64, 96, 192, 97])
        vals.append(Fraction(random.randint(-3 * d, 9 * d), d))
    vals += [np.float64(random.uniform(0, 4)) for _ in range(15)]
    vals += [np.float32(random.uniform(0, 4)) for _ in range(8)]
    vals += [np.int64(3), np.int32(-2), True, False]
    # not numbers
    vals += [float("nan"), float("inf"), float("-inf"), None, "0.5", [0.5], 1 + 2j]
    return vals


def main():
    sets = division_sets()
    built = {}
    for name, divs in sets.items():
        divs_before = canon(list(divs)) if isinstance(divs, (list, tuple)) else None
        s = make(divs)
        if isinstance(s, BaseException):
            emit("build", name, canon(s))
            continue
        built[name] = s
        emit("build", name, "attrs", sorted(vars(s)))
        for a in ("val", "num", "den"):
            emit("build", name, a, canon(getattr(s, a)))
        if divs_before is not None:
            emit("build", name, "divisions_unchanged", canon(list(divs)) == divs_before)

    # snapping ---------------------------------------------------------------
    for name, s in built.items():
        table_before = (s.val.tobytes(), s.num.tobytes(), s.den.tobytes())
        for v in probe_values(s):
            r = attempt(s.snap, v)
            emit("snap", name, canon(v), canon(r))
            if isinstance(r, Fraction):
                # idempotent on its own result, as Fraction and as float
                emit("snap2", name, canon(attempt(s.snap, r)),
                     canon(attempt(s.snap, float(r))))
        emit("snap", name, "table_unchanged",
             table_before == (s.val.tobytes(), s.num.tobytes(), s.den.tobytes()))

    # module level helper ------------------------------------------------------
    for name, divs in sets.items():
        for v in [0.0, 0.124, 0.126, 0.3333, 0.5, 0.74, 0.99, 0.999999, 3.26, -0.4,
                  Fraction(5, 7)]:
            if divs is None:
                emit("snap_fn", name, canon(v), canon(attempt(snap_fn, v)))
            else:
                emit("snap_fn", name, canon(v), canon(attempt(snap_fn, v, divs)))

    # through Snap.from_offset / TimingMap ------------------------------------
    use = ["default_arg", "quarters", "twelfths", "d192", "one", "unsorted", "rand0",
           "rand1", "rand2"]
    for t in range(30):
        n = random.randint(1, 5)
        const_met = t % 2 == 0
        met = random.randint(1, 8)
        offset = random.choice([0, -1234.5, 500, -20, random.uniform(-3000, 3000)])
        bco_s = []
        for i in range(n):
            bpm = random.choice([60, 90, 120, 128, 150.5, 174, 200, 240, 333.3])
            if not const_met:
                met = random.randint(1, 8)
            bco_s.append(BpmChangeOffset(bpm, met, offset))
            d = random.choice([1, 2, 3, 4, 6, 8, 12, 16])
            offset = offset + float(
                (random.randint(1, 4) * met + Fraction(random.randint(0, d - 1), d)
                 * random.choice([0, 1])) * (60000 / bpm)
            )
        random.shuffle(bco_s)
        first = min(b.offset for b in bco_s)
        qs = [random.uniform(first, offset + 3000) for _ in range(random.randint(0, 10))]
        for b in bco_s:
            d = random.choice([2, 3, 4, 8, 12, 16, 96])
            qs.append(float(b.offset + Fraction(random.randint(0, 5 * d), d) * (60000 / b.bpm)))
        qs += random.choices(qs, k=3)
        random.shuffle(qs)
        for name in use:
            s = built[name]
            tm = TimingMap(bpm_changes_offset=deepcopy(bco_s), snapper=s)
            bcs = attempt(tm.bpm_changes_snap)
            emit("tm", t, name, "bcs", canon(bcs))
            sn = attempt(tm.snaps, list(qs), s)
            emit("tm", t, name, "snaps", canon(sn))
            if isinstance(sn, np.ndarray):
                back = attempt(tm.offsets, list(sn))
                emit("tm", t, name, "offsets", canon(back))
                if isinstance(back, np.ndarray):
                    emit("tm", t, name, "snaps_again",
                         canon(attempt(tm.snaps, back.tolist(), s)))
            if const_met:
                emit("tm", t, name, "beats", canon(attempt(tm.beats, list(qs), s)))

    text = "\n".join(OUT)
    if "--dump" in sys.argv:
        print(text)
    print("DIGEST", hashlib.sha256(text.encode()).hexdigest())


if __name__ == "__main__":
    main()
