"""Demo for change 2 (SMMapSetMeta._write_metadata).

Writes the metadata block of many StepMania mapsets (sample files, rated
copies, random / odd metadata values, empty stops, unsorted or empty bpm
lists, no maps, offset None ...) and dumps the written lines, the whole
written file, the file read back and the mapset afterwards canonically.
Prints one line ``DIGEST <sha256>``.
"""
import dataclasses
import hashlib
import logging
import os
import random
import warnings
from pathlib import Path

import numpy as np
import pandas as pd

warnings.simplefilter("ignore")
logging.disable(logging.CRITICAL)

from reamber.base.MapSet import MapSet
from reamber.sm import SMMapSet
from reamber.sm.SMMapSetMeta import SMMapSetMeta

random.seed(20261001)
MAPS = Path(__file__).resolve().parent
if not (MAPS / "rsc").exists():
    MAPS = Path.cwd()
MAPS = MAPS / "rsc" / "maps"

OUT = []


def emit(*parts):
    OUT.append(" | ".join(str(p) for p in parts))


def fmt(v):
    if isinstance(v, (float, np.floating)):
        return type(v).__name__ + ":" + repr(float(v))
    if isinstance(v, (int, np.integer)) and not isinstance(v, (bool, np.bool_)):
        return type(v).__name__ + ":" + repr(int(v))
    if isinstance(v, pd.DataFrame):
        return dump_df(v)
    if isinstance(v, dict):
        return "{" + ",".join(f"{fmt(k)}=>{fmt(x)}" for k, x in v.items()) + "}"
    if isinstance(v, (list, tuple)):
        return type(v).__name__ + "[" + ",".join(fmt(x) for x in v) + "]"
    return type(v).__name__ + ":" + repr(v)


def dump_df(df):
    rows = [
        "cols=" + repr(list(df.columns)),
        "dtypes=" + repr([str(t) for t in df.dtypes]),
        "index=" + repr(list(df.index)) + ":" + str(df.index.dtype),
    ]
    for c in df.columns:
        rows.append(str(c) + "=" + ",".join(fmt(x) for x in df[c].tolist()))
    return "DF<" + ";".join(rows) + ">"


def dump_map(m):
    rows = ["MAP " + type(m).__name__, "objkeys=" + repr(list(m.objs.keys()))]
    for k, v in m.objs.items():
        rows.append(k + ":" + type(v).__name__ + ":" + dump_df(v.df))
    for k, v in vars(m).items():
        if k != "objs":
            rows.append(k + "=" + fmt(v))
    return "\n".join(rows)


def dump_set(ms):
    rows = ["SET " + type(ms).__name__ + " n=" + str(len(ms.maps))]
    for k, v in vars(ms).items():
        if k != "maps":
            rows.append(k + "=" + fmt(v))
    for m in ms.maps:
        rows.append(dump_map(m))
    return "\n".join(rows)


def h(text):
    return hashlib.sha256(text.encode("utf8", "backslashreplace")).hexdigest()


def call(tag, fn):
    try:
        return fn()
    except BaseException as e:  # noqa
        emit(tag, "RAISED", type(e).__name__)
        return None


# ------------------------------------------------------------------ mapsets
TEXT_FIELDS = [
    "title", "subtitle", "artist", "title_translit", "subtitle_translit",
    "artist_translit", "genre", "credit", "banner", "background", "lyrics_path",
    "cd_title", "music", "display_bpm", "bg_changes", "fg_changes",
]
ALPHABET = "abcXYZ 019_-./\\()[]!?'\"&%*+~^@$  éüßñ日本語한글★→\t"


def rand_text():
    kind = random.random()
    if kind < 0.15:
        return ""
    if kind < 0.25:
        return " " + "".join(random.choices(ALPHABET, k=4)) + "  "
    if kind < 0.35:
        # separators of the format itself
        return random.choice(["a:b", "a;b", "#TITLE:x", "x//y", "a,b=c", "{x}", "{", "%s", "\n2nd"])
    return "".join(random.choices(ALPHABET, k=random.randint(1, 30)))


ODD_TEXT = [None, 0, 12, 3.5, True, b"bytes", ("t", 1), ["l"], float("nan"), np.float64(2.0), np.str_("npstr")]


def sub(tl, lo, hi, shuffle=False):
    df = tl.df.iloc[lo:hi]
    if shuffle and len(df):
        df = df.sample(frac=1, random_state=random.randrange(10**6))
    return type(tl)(df.reset_index(drop=True))


def shrink(ms, n_notes=12):
    """Keeps the timing but only a few notes, to keep the dump small"""
    ms = ms.deepcopy()
    for m in ms.maps:
        for k in m.objs:
            if k not in ("bpms", "stops"):
                m.objs[k] = sub(m.objs[k], 0, n_notes)
    return ms


sources = {}
for f in ["Escapes.sm", "Gravity.sm", "ICFITU.sm", "Caravan.sm"]:
    sources[f] = SMMapSet.read_file((MAPS / "sm" / f).as_posix())

cases = []  # (tag, mapset)

for f, ms in sources.items():
    cases.append((f + "/as-read", ms))
    small = shrink(ms)
    cases.append((f + "/small", small))
    for r in (0.5, 1.1, 2, 1 / 3):
        cases.append((f + f"/rated{r!r}", small.rate(r)))

    # random free-text metadata
    for i in range(6):
        v = small.deepcopy()
        for name in TEXT_FIELDS:
            setattr(v, name, rand_text())
        v.selectable = random.choice([True, False])
        v.offset = random.choice([0.0, -0.0, 0, -15, 12.5, -1234.5678, 1e-7, 123456789.123, np.float64(3.25)])
        v.sample_start = random.choice([0.0, 0, 45000, 12345.678, -1.0, 1e9])
        v.sample_length = random.choice([10.0, 0, 1, 0.001, 33333.3333])
        cases.append((f + f"/text{i}", v))

    # values of an unexpected type in one field each
    for i in range(8):
        v = small.deepcopy()
        name = random.choice(TEXT_FIELDS)
        val = random.choice(ODD_TEXT)
        setattr(v, name, val)
        cases.append((f + f"/odd-{name}-{type(val).__name__}-{i}", v))

    # selectable values that are only truthy / falsy
    for val in (0, 1, None, "", "NO", [], 2.5):
        v = small.deepcopy()
        v.selectable = val
        cases.append((f + f"/selectable-{val!r}", v))

    # time fields that cannot be converted
    for name, val in [("offset", None), ("offset", "1.0"), ("sample_start", None), ("sample_length", "x"), ("sample_start", np.int64(7)), ("offset", True)]:
        v = small.deepcopy()
        setattr(v, name, val)
        cases.append((f + f"/{name}-{val!r}", v))
    v = small.deepcopy()
    v.offset = None
    v.sample_start = "x"
    v.title = 5
    cases.append((f + "/two-bad-fields", v))

    # missing attribute
    v = small.deepcopy()
    del v.music
    v.__dict__.pop("music", None)
    cases.append((f + "/music-deleted", v))

    # timing edge cases
    v = small.deepcopy()
    for m in v.maps:
        m.objs["stops"] = sub(m.objs["stops"], 0, 0)
    cases.append((f + "/no-stops", v))
    v = small.deepcopy()
    v.maps[0].objs["bpms"] = sub(v.maps[0].objs["bpms"], 0, 1)
    cases.append((f + "/one-bpm", v))
    v = small.deepcopy()
    v.maps[0].objs["bpms"] = sub(v.maps[0].objs["bpms"], 0, 0)
    cases.append((f + "/no-bpms", v))
    v = small.deepcopy()
    v.maps[0].objs["bpms"] = sub(v.maps[0].objs["bpms"], 0, 8, shuffle=True)
    v.maps[0].objs["stops"] = sub(v.maps[0].objs["stops"], 0, 8, shuffle=True)
    cases.append((f + "/unsorted-timing", v))
    v = small.deepcopy()
    for m in v.maps:
        for k in m.objs:
            if k != "bpms":
                m.objs[k] = sub(m.objs[k], 0, 0)
    cases.append((f + "/only-bpms", v))
    v = small.deepcopy()
    v.maps = []
    cases.append((f + "/no-maps", v))
    v = small.deepcopy()
    v.maps = v.maps[:1] * 3
    cases.append((f + "/three-maps", v))

blank = SMMapSet([])
cases.append(("blank-set", blank))


# --------------------------------------------------------------------- run
for tag, ms in cases:
    before = dump_set(ms)
    emit("CASE", tag, h(before))
    lines = call(tag + " _write_metadata", ms._write_metadata)
    if lines is not None:
        emit(tag, "meta-type", type(lines).__name__, len(lines), [type(x).__name__ for x in lines])
        big = len("".join(lines)) > 4000
        emit(tag, "meta", h("\x00".join(lines)) if big else repr(lines))
        # a second call gives an equal, but new, list
        again = ms._write_metadata()
        emit(tag, "again", again == lines, again is lines)
    # the unbound form, as the mixin is also callable through the class
    lines2 = call(tag + " unbound", lambda: SMMapSetMeta._write_metadata(ms))
    if lines2 is not None:
        emit(tag, "unbound-equal", lines2 == lines)
    text = call(tag + " write", ms.write)
    if text is not None:
        emit(tag, "write", type(text).__name__, len(text), h(text))
        back = call(tag + " readback", lambda: SMMapSet.read(text))
        if back is not None:
            emit(tag, "readback", h(dump_set(back)))
            meta = {f.name: getattr(back, f.name) for f in dataclasses.fields(SMMapSetMeta)}
            emit(tag, "readback-meta", fmt(meta))
            text2 = call(tag + " rewrite", back.write)
            if text2 is not None:
                emit(tag, "rewrite", h(text2), text2 == text)
    emit(tag, "input-untouched", dump_set(ms) == before, h(dump_set(ms)))

# the class itself: still the same dataclass
emit("fields", [(f.name, getattr(f.type, "__name__", f.type), repr(f.default)) for f in dataclasses.fields(SMMapSetMeta)])
emit("set-fields", [f.name for f in dataclasses.fields(SMMapSet)])
emit("repr", repr(SMMapSetMeta()))
emit("eq", SMMapSetMeta() == SMMapSetMeta(), SMMapSetMeta(title="a") == SMMapSetMeta())
emit("vars", sorted(vars(SMMapSet([])).keys()))
emit("cases", len(cases))

if os.environ.get("DEMO_DUMP"):
    Path(os.environ["DEMO_DUMP"]).write_text("\n".join(OUT), encoding="utf8", errors="backslashreplace")
print("DIGEST", h("\n".join(OUT)))
