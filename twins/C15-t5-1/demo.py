"""Demo for refactoring 1: full_ln (helper extraction).

Exercises reamber.algorithms.generate.full_ln.full_ln on many generated charts
(unsorted rows, appended rows, reverse sorted, ties, empty lists, negative and
zero offsets/lengths, several key counts, several map classes, several
gap / threshold values) and prints one DIGEST line.
"""
import hashlib
import random
import warnings

import numpy as np
import pandas as pd

from reamber.algorithms.generate.full_ln import full_ln
from reamber.base.Map import Map
from reamber.base.lists.BpmList import BpmList
from reamber.base.lists.notes.HitList import HitList
from reamber.base.lists.notes.HoldList import HoldList
from reamber.bms.BMSMap import BMSMap
from reamber.osu.OsuMap import OsuMap
from reamber.quaver.QuaMap import QuaMap
from reamber.sm.SMMap import SMMap

warnings.simplefilter("ignore")
random.seed(1501)

OUT = []


def emit(*parts):
    OUT.append(" | ".join(str(p) for p in parts))


def cell(v):
    return f"{type(v).__name__}:{v!r}"


def dump_df(tag, df):
    emit(tag, "type", type(df).__name__)
    emit(tag, "columns", list(df.columns))
    emit(tag, "dtypes", [str(t) for t in df.dtypes])
    emit(tag, "index", type(df.index).__name__, [cell(i) for i in df.index])
    for row in df.itertuples(index=False):
        emit(tag, "row", [cell(v) for v in row])


def dump_map(tag, m):
    emit(tag, "mapclass", type(m).__name__, "keys", list(m.objs.keys()))
    for k, v in m.objs.items():
        dump_df(f"{tag}.{k}:{type(v).__name__}", v.df)


MAP_CLASSES = [OsuMap, QuaMap, SMMap, BMSMap]


def make_list(list_cls, rows, mode):
    """Builds a TimedList of list_cls from row dicts, in a row order per mode."""
    rows = list(rows)
    if mode == "sorted":
        rows.sort(key=lambda r: r["offset"])
        return list_cls.from_dict(rows)
    if mode == "shuffled":
        random.shuffle(rows)
        return list_cls.from_dict(rows)
    if mode == "reverse":
        rows.sort(key=lambda r: r["offset"])
        return list_cls.from_dict(rows).sorted(reverse=True)
    if mode == "append":
        # append defaults to sort=False
        random.shuffle(rows)
        half = len(rows) // 2
        a = list_cls.from_dict(rows[:half])
        b = list_cls.from_dict(rows[half:])
        return a.append(b)
    if mode == "concat":
        # plain concatenation keeps duplicated row labels
        random.shuffle(rows)
        half = len(rows) // 2
        a = list_cls.from_dict(rows[:half])
        b = list_cls.from_dict(rows[half:])
        return list_cls(pd.concat([a.df, b.df]))
    raise ValueError(mode)


def gen_rows(n_hits, n_holds, keys, grid, allow_neg, ties):
    offsets = []
    lo = -5 if allow_neg else 0
    pool = [i * grid for i in range(lo, 40)]
    hits, holds = [], []
    for _ in range(n_hits):
        o = random.choice(pool) if ties else random.uniform(lo * grid, 40 * grid)
        hits.append(dict(offset=float(o), column=random.randrange(keys)))
    for _ in range(n_holds):
        o = random.choice(pool) if ties else random.uniform(lo * grid, 40 * grid)
        length = random.choice([0.0, 1.0, 50.0, 99.0, 100.0, 250.0, 1000.0, -30.0])
        holds.append(dict(offset=float(o), column=random.randrange(keys), length=length))
    return hits, holds


def make_map(map_cls, hits, holds, mode):
    m = map_cls()
    m.hits = make_list(type(m.hits), hits, mode)
    m.holds = make_list(type(m.holds), holds, mode)
    bpm_rows = [dict(offset=0.0, bpm=120.0), dict(offset=-500.0, bpm=200.0)]
    m.bpms = make_list(type(m.bpms), bpm_rows, mode)
    return m


def run(tag, m, **kwargs):
    emit("CASE", tag, sorted(kwargs.items()))
    before = m.deepcopy()
    try:
        out = full_ln(m, **kwargs)
    except Exception as e:  # noqa
        emit(tag, "EXC", type(e).__name__)
        out = None
    if out is not None:
        emit(tag, "same_object", out is m)
        dump_map(tag + ".out", out)
    # The input must be left as it was
    dump_map(tag + ".in_after", m)
    same = all(
        before.objs[k].df.equals(m.objs[k].df)
        and list(before.objs[k].df.index) == list(m.objs[k].df.index)
        for k in m.objs
    )
    emit(tag, "input_unchanged", same)


MODES = ["sorted", "shuffled", "reverse", "append", "concat"]
PARAMS = [
    {},
    dict(gap=0, ln_as_hit_thres=0),
    dict(gap=150, ln_as_hit_thres=100),
    dict(gap=50.5, ln_as_hit_thres=1),
    dict(gap=-20, ln_as_hit_thres=-5),
    dict(gap=1000, ln_as_hit_thres=10),
    dict(gap=100, ln_as_hit_thres=150),
    dict(gap=float("nan")),
    dict(ln_as_hit_thres=float("inf")),
]

case = 0
# Random charts
for map_cls in MAP_CLASSES:
    for mode in MODES:
        for rep in range(3):
            keys = random.choice([1, 4, 7, 10])
            n_hits = random.choice([0, 1, 2, 8, 20])
            n_holds = random.choice([0, 1, 2, 8, 20])
            ties = random.random() < 0.6
            hits, holds = gen_rows(
                n_hits, n_holds, keys, random.choice([50, 125, 250]),
                allow_neg=random.random() < 0.5, ties=ties,
            )
            m = make_map(map_cls, hits, holds, mode)
            params = random.choice(PARAMS)
            case += 1
            run(f"r{case}.{map_cls.__name__}.{mode}", m, **params)

# Permutation pairs on the very same chart: every parameter set
hits, holds = gen_rows(12, 9, 4, 125, allow_neg=True, ties=True)
for params in PARAMS:
    for mode in MODES:
        case += 1
        run(f"p{case}.{mode}", make_map(OsuMap, hits, holds, mode), **params)

# Edge cases
edge = [
    ("empty", [], []),
    ("one_hit", [dict(offset=0.0, column=0)], []),
    ("one_hold", [], [dict(offset=0.0, column=0, length=10.0)]),
    ("one_hold_zero_len", [], [dict(offset=-3.0, column=2, length=0.0)]),
    (
        "same_offset_same_column",
        [dict(offset=100.0, column=1), dict(offset=100.0, column=1)],
        [dict(offset=100.0, column=1, length=500.0)],
    ),
    (
        "exact_threshold",
        [dict(offset=0.0, column=0), dict(offset=250.0, column=0),
         dict(offset=499.0, column=0)],
        [],
    ),
    (
        "hold_last_in_column",
        [dict(offset=0.0, column=3)],
        [dict(offset=1000.0, column=3, length=-100.0)],
    ),
    (
        "int_like",
        [dict(offset=0, column=0), dict(offset=1000, column=0)],
        [dict(offset=2000, column=0, length=100)],
    ),
]
for name, hits, holds in edge:
    for map_cls in MAP_CLASSES:
        for mode in ["shuffled", "reverse"]:
            case += 1
            run(f"e{case}.{name}.{map_cls.__name__}.{mode}",
                make_map(map_cls, hits, holds, mode))

# Base Map with base lists, and a map whose hit list is an empty list
m = Map()
m.objs = dict(
    hits=HitList.from_dict([dict(offset=500.0, column=1), dict(offset=0.0, column=1)]),
    holds=HoldList.from_dict([dict(offset=250.0, column=1, length=2.0)]),
    bpms=BpmList([]),
)
run("base_map", m)
run("base_map_gap0", m, gap=0, ln_as_hit_thres=0)

# Argument types outside the float domain: the exception type is a result too
m = make_map(OsuMap, [dict(offset=0.0, column=0)], [], "sorted")
run("bad_gap_single", m, gap=None)
m = make_map(OsuMap, [dict(offset=0.0, column=0), dict(offset=9.0, column=0)], [], "sorted")
run("bad_gap_pair", m, gap="x")
run("bad_thres_pair", m, ln_as_hit_thres=None)
run("bad_thres_single",
    make_map(OsuMap, [dict(offset=0.0, column=0)], [], "sorted"),
    ln_as_hit_thres=None)

text = "\n".join(OUT)
print("DIGEST", hashlib.sha256(text.encode("utf8")).hexdigest())
