"""Demo for C17 / change 1: full_ln (reamber/algorithms/generate/full_ln.py)

Runs full_ln over a broad deterministic set of charts of every game with
all sorts of gap / threshold values and prints one line `DIGEST <hex>`:
a sha256 over a canonical text dump of every result (class, column order,
dtypes, row labels, every cell with its python type), of the raised exception
types, of the warning categories and of the input maps after the call.
"""
import hashlib
import random
import warnings
from copy import deepcopy

import numpy as np
import pandas as pd

from reamber.algorithms.generate import full_ln
from reamber.algorithms.generate.full_ln import full_ln as full_ln_direct
from reamber.base.Map import Map
from reamber.bms.BMSMap import BMSMap
from reamber.o2jam.O2JMap import O2JMap
from reamber.osu.OsuMap import OsuMap
from reamber.quaver.QuaMap import QuaMap
from reamber.sm.SMMap import SMMap

assert full_ln is full_ln_direct

random.seed(1717)
OUT = []


def emit(*parts):
    OUT.append(" ".join(str(p) for p in parts))


def cell(v):
    return f"{type(v).__name__}:{v!r}"


def dump_df(tag, df):
    emit(tag, "TYPE", type(df).__name__, "SHAPE", df.shape)
    emit(tag, "COLUMNS", type(df.columns).__name__, df.columns.dtype, list(df.columns))
    emit(tag, "DTYPES", [str(t) for t in df.dtypes])
    emit(tag, "INDEX", type(df.index).__name__, df.index.dtype, list(df.index))
    for label, row in zip(df.index, df.itertuples(index=False, name=None)):
        emit(tag, "ROW", cell(label), [cell(v) for v in row])


def dump_map(tag, m):
    emit(tag, "MAP", type(m).__name__, list(m.objs.keys()))
    for k, v in m.objs.items():
        emit(tag, "LIST", k, type(v).__name__)
        dump_df(f"{tag}.{k}", v.df)


def run(tag, m, *args, **kwargs):
    """Calls full_ln, dumping result / exception, warnings and the input after"""
    before = deepcopy(m)
    with warnings.catch_warnings(record=True) as w:
        warnings.simplefilter("always")
        try:
            out = full_ln(m, *args, **kwargs)
        except Exception as e:  # noqa
            emit(tag, "RAISED", type(e).__name__)
            out = None
    emit(tag, "ARGS", [cell(a) for a in args], {k: cell(v) for k, v in kwargs.items()})
    emit(tag, "WARNINGS", sorted(x.category.__name__ for x in w))
    if out is not None:
        emit(tag, "SAME_OBJECT", out is m, "TYPE", type(out).__name__)
        for k in m.objs:
            emit(tag, "SHARES_LIST", k, out.objs[k] is m.objs[k], out.objs[k].df is m.objs[k].df)
        dump_map(tag + ".out", out)
        # Tempo & the other lists must be as they were
        for k, v in out.objs.items():
            if k not in ("hits", "holds"):
                emit(tag, "OTHER_EQUAL", k, v.df.equals(before.objs[k].df))
    dump_map(tag + ".in_after", m)
    for k in m.objs:
        a, b = m.objs[k].df, before.objs[k].df
        emit(tag, "INPUT_UNCHANGED", k, a.equals(b), list(a.dtypes) == list(b.dtypes),
             list(a.columns) == list(b.columns), list(a.index) == list(b.index))
    return out


# ---------------------------------------------------------------- builders ---
MAPS = [Map, OsuMap, QuaMap, SMMap, BMSMap, O2JMap]
GAPS = [0, 0.0, 1, 25, 37.5, 100, 150, 150.0, 250.25, 1000, 1e9, float("inf"),
        np.float64(75.5), np.int64(50), True]
THRESHOLDS = [0, 0.0, 1, 10.5, 50, 100, 100.0, 333, 2000.0, 1e12, float("inf"),
              np.float64(20.0), np.int64(40), False]


def rand_offset(kind):
    if kind == "int":
        return random.randrange(0, 40) * 50
    if kind == "grid":
        return random.randrange(0, 60) * 62.5
    if kind == "neg":
        return random.randrange(-20, 20) * 125.0
    return round(random.uniform(0, 5000), random.choice([0, 1, 3]))


def gen_notes(n_hits, n_holds, keys, kind, stack_prob=0.0, chord_prob=0.3):
    """Random (unsorted) hits and holds, with chords and optionally
    notes stacked at the same time in one column"""
    used = set()
    rows = []
    last = None
    for i in range(n_hits + n_holds):
        for _ in range(200):
            if last is not None and random.random() < chord_prob:
                o = last
            else:
                o = rand_offset(kind)
            c = random.choice(keys)
            if (o, c) not in used or random.random() < stack_prob:
                break
        used.add((o, c))
        last = o
        rows.append((o, c))
    random.shuffle(rows)
    hits = rows[:n_hits]
    holds = [(o, c, random.choice([1, 20.0, 99.5, 100, 250, 1000.25, 5000]))
             for o, c in rows[n_hits:]]
    return hits, holds


def fill_map(M, hits, holds, as_int=False, extra=True, how="columns"):
    m = M()
    H, L = type(m.hits), type(m.holds)
    if how == "columns":
        hd = {"offset": [o for o, _ in hits], "column": [c for _, c in hits]}
        ld = {"offset": [o for o, _, _ in holds], "column": [c for _, c, _ in holds],
              "length": [l for _, _, l in holds]}
    else:
        hd = [dict(offset=o, column=c) for o, c in hits]
        ld = [dict(offset=o, column=c, length=l) for o, c, l in holds]
    m.hits = H.from_dict(hd)
    m.holds = L.from_dict(ld)
    if as_int and len(hits) and len(holds):
        m.hits.df["offset"] = m.hits.df["offset"].astype("int64")
        m.holds.df["offset"] = m.holds.df["offset"].astype("int64")
        m.holds.df["length"] = m.holds.df["length"].astype("int64")
    if extra:
        B = type(m.bpms)
        m.bpms = B.from_dict({"offset": [0.0, 1234.5, 3000.0], "bpm": [120.0, 180.5, 90.0]})
        if "svs" in m.objs:
            S = type(m.svs)
            m.svs = S.from_dict({"offset": [10.0, 500.0], "multiplier": [0.5, 2.0]})
        if isinstance(m, SMMap):
            m.mines = type(m.mines).from_dict({"offset": [111.0, 2222.0], "column": [0, 2]})
            m.rolls = type(m.rolls).from_dict(
                {"offset": [77.0, 4040.0], "column": [1, 3], "length": [300.0, 20.0]})
            m.stops = type(m.stops).from_dict({"offset": [900.0], "length": [50.0]})
    return m


# ------------------------------------------------------------- fixed cases ---
case = 0


def go(m, *args, **kwargs):
    global case
    case += 1
    return run(f"C{case:03d}", m, *args, **kwargs)


# Empty maps of each game, default arguments
for M in MAPS:
    go(M())
    go(fill_map(M, [], [], extra=True), 10, 10)

# The scenarios of the library's own test, on every game
MIN_DIST = 250
for M in MAPS:
    for hit_o, hold_o in [([0, MIN_DIST], []), ([0, MIN_DIST - 1], []), ([], [0, MIN_DIST]),
                          ([], [0, MIN_DIST - 1]), ([0], [MIN_DIST]), ([MIN_DIST], [0])]:
        go(fill_map(M, [(o, 0) for o in hit_o], [(o, 0, 100) for o in hold_o], extra=False),
           150, 100)

# Single notes / single-note columns / empty columns between used ones
for M in MAPS:
    go(fill_map(M, [(100.0, 0)], []))
    go(fill_map(M, [], [(100.0, 5, 40.0)]), 0, 0)
    go(fill_map(M, [(0.0, 0), (500.0, 6)], [(250.0, 3, 1000.0)]), gap=20, ln_as_hit_thres=30)
    go(fill_map(M, [(0.0, 9), (10.0, 9), (500.0, 2)], [(250.0, 9, 10.0), (700.0, 2, 5.0)]), 100)

# Exact-boundary cases: distance - gap == threshold, zero gap, zero threshold
for M in (Map, OsuMap, SMMap):
    for gap, thres in [(150, 100), (150.0, 100.0), (0, 250), (250, 0), (0, 0), (250.5, 0),
                       (0.1, 0.2), (249.9, 0.1), (100, 150.0000001)]:
        go(fill_map(M, [(0, 0), (250, 0), (500, 0), (0, 1), (250.0000001, 1), (499.9, 1)],
                    [(750, 0, 100), (600, 1, 10)], how="records"), gap, thres)

# Notes stacked at the same time in one column (hit+hit, hit+hold, hold+hold), gap/threshold 0
for M in (Map, QuaMap, O2JMap):
    for gap, thres in [(0, 0), (0.0, 0.0), (10, 0), (0, 10), (150, 100)]:
        go(fill_map(M, [(100.0, 0), (100.0, 0), (300.0, 1), (900.0, 1)],
                    [(300.0, 1, 50.0), (500.0, 2, 10.0), (500.0, 2, 70.0), (900.0, 0, 5.0)]),
           gap, thres)

# Integer-typed offsets / lengths (DataFrame-built lists), negative offsets
for M in MAPS:
    h, l = gen_notes(9, 6, [0, 1, 2, 3], "int")
    go(fill_map(M, h, l, as_int=True), 50, 100)
    go(fill_map(M, h, l, as_int=True), 25.5, 0)
    h, l = gen_notes(8, 5, [0, 1, 2], "neg")
    go(fill_map(M, h, l), 100, 100)

# Keyword / partial arguments
go(fill_map(OsuMap, [(0.0, 0), (1000.0, 0)], []), gap=400)
go(fill_map(OsuMap, [(0.0, 0), (1000.0, 0)], []), ln_as_hit_thres=900)
go(fill_map(OsuMap, [(0.0, 0), (1000.0, 0)], []), ln_as_hit_thres=800, gap=200)

# Lists carrying other properties (they are reset to defaults by full_ln) and odd row labels
m = fill_map(OsuMap, [(0.0, 0), (400.0, 0), (800.0, 1)], [(100.0, 1, 50.0)])
m.hits.df["volume"] = [10, 20, 30]
m.hits.df["hitsound_file"] = ["a.wav", "", "b.wav"]
m.hits.df.index = [7, 3, 5]
go(m, 100, 100)
m = fill_map(QuaMap, [(0.0, 0), (400.0, 0), (800.0, 1)], [(100.0, 1, 50.0), (100.0, 0, 20.0)])
m.hits.df["keysounds"] = [["x"], [], ["y", "z"]]
go(m, 50, 10)
m = fill_map(BMSMap, [(0.0, 0), (400.0, 0), (800.0, 1)], [(100.0, 1, 50.0)])
m.hits.df["sample"] = [b"a.wav", b"", b"c.ogg"]
go(m, 50, 10)

# ------------------------------------------------------------ random cases ---
for i in range(90):
    M = MAPS[i % len(MAPS)]
    keys = random.choice([[0], [0, 1], [0, 1, 2, 3], [0, 2, 5, 6], list(range(7)), list(range(10)),
                          [3, 17]])
    kind = random.choice(["grid", "grid", "float", "int", "neg"])
    n_hits = random.choice([0, 1, 2, 5, 12, 30])
    n_holds = random.choice([0, 1, 3, 8, 20])
    stack_prob = random.choice([0.0, 0.0, 0.5])
    h, l = gen_notes(n_hits, n_holds, keys, kind, stack_prob=stack_prob,
                     chord_prob=random.choice([0.0, 0.3, 0.7]))
    m = fill_map(M, h, l, extra=random.random() < 0.6, how=random.choice(["columns", "records"]))
    gap, thres = random.choice(GAPS), random.choice(THRESHOLDS)
    out = go(m, gap, thres)
    # idempotence style second application on the result, with other parameters
    if out is not None and i % 3 == 0:
        go(out, random.choice(GAPS), random.choice(THRESHOLDS))

text = "\n".join(OUT)
print("DIGEST", hashlib.sha256(text.encode("utf-8")).hexdigest())
