"""C19 demo 2: scroll_speed (tempo / sv frames, merge, fill) on generated charts."""
import hashlib
import random
import sys
import warnings

import numpy as np
import pandas as pd

from reamber.algorithms.analysis import scroll_speed
from reamber.algorithms.generate import sv_normalize
from reamber.algorithms.utils import dominant_bpm
from reamber.bms import BMSBpm, BMSHit, BMSHold, BMSMap
from reamber.bms.lists import BMSBpmList
from reamber.bms.lists.notes import BMSHitList, BMSHoldList
from reamber.o2jam import O2JBpm, O2JHit, O2JHold, O2JMap
from reamber.o2jam.lists import O2JBpmList
from reamber.o2jam.lists.notes import O2JHitList, O2JHoldList
from reamber.osu import OsuBpm, OsuHit, OsuHold, OsuSv
from reamber.osu.OsuMap import OsuMap
from reamber.osu.lists import OsuBpmList, OsuSvList
from reamber.osu.lists.notes import OsuHitList, OsuHoldList
from reamber.quaver import QuaBpm, QuaHit, QuaHold, QuaSv
from reamber.quaver.QuaMap import QuaMap
from reamber.quaver.lists import QuaBpmList, QuaSvList
from reamber.quaver.lists.notes import QuaHitList, QuaHoldList
from reamber.sm import SMBpm, SMHit, SMHold
from reamber.sm.SMMap import SMMap
from reamber.sm.lists import SMBpmList
from reamber.sm.lists.notes import SMHitList, SMHoldList

KINDS = {
    "osu": (OsuMap, OsuBpm, OsuBpmList, OsuHit, OsuHitList, OsuHold, OsuHoldList, OsuSv, OsuSvList),
    "qua": (QuaMap, QuaBpm, QuaBpmList, QuaHit, QuaHitList, QuaHold, QuaHoldList, QuaSv, QuaSvList),
    "sm": (SMMap, SMBpm, SMBpmList, SMHit, SMHitList, SMHold, SMHoldList, None, None),
    "bms": (BMSMap, BMSBpm, BMSBpmList, BMSHit, BMSHitList, BMSHold, BMSHoldList, None, None),
    "o2j": (O2JMap, O2JBpm, O2JBpmList, O2JHit, O2JHitList, O2JHold, O2JHoldList, None, None),
}


def build(kind, bpms, svs, hits, holds):
    """bpms: [(offset, bpm)], svs: [(offset, mult)], hits: [offset], holds: [(offset, length)]"""
    Map, Bpm, BpmL, Hit, HitL, Hold, HoldL, Sv, SvL = KINDS[kind]
    m = Map()
    extra = {"keysounds": []} if kind == "qua" else {}
    m.bpms = BpmL([Bpm(o, b) for o, b in bpms])
    m.hits = HitL([Hit(o, i % 4, **extra) for i, o in enumerate(hits)])
    m.holds = HoldL([Hold(o, i % 4, l, **extra) for i, (o, l) in enumerate(holds)])
    if Sv is not None:
        m.svs = SvL([Sv(o, x) for o, x in svs])
    return m


def canon(v):
    if isinstance(v, (float, np.floating)):
        return "%s:%s" % (type(v).__name__, float(v).hex())
    if isinstance(v, (bool, np.bool_, int, np.integer)):
        return "%s:%r" % (type(v).__name__, int(v))
    return "%s:%r" % (type(v).__name__, v)


def dump_index(ix):
    return "Index(%s|%s|%s|%s)" % (type(ix).__name__, ix.dtype, ix.names, ",".join(canon(x) for x in ix))


def dump_series(s):
    return "Series(name=%r|%s|%s|%s)" % (s.name, s.dtype, dump_index(s.index), ",".join(canon(x) for x in s))


def dump_df(df):
    cols = ";".join("%s=%s" % (c, dump_series(df[c])) for c in df.columns)
    return "DF(%s|%s|%s)" % (list(df.columns), dump_index(df.index), cols)


def dump_map(m):
    return "MAP(%s|%s)" % (type(m).__name__, "|".join("%s:%s:%s" % (k, type(v).__name__, dump_df(v.df)) for k, v in m.objs.items()))


def dump_result(r):
    if isinstance(r, pd.Series):
        return dump_series(r)
    if hasattr(r, "df"):
        return "%s:%s" % (type(r).__name__, dump_df(r.df))
    return canon(r)


def call(fn, *args):
    with warnings.catch_warnings(record=True) as w:
        warnings.simplefilter("always")
        try:
            out = "OK " + dump_result(fn(*args))
        except Exception as e:  # noqa
            out = "EXC " + type(e).__name__
    ws = ";".join(sorted("%s:%s" % (x.category.__name__, str(x.message)[:60]) for x in w))
    return out + " WARN[" + ws + "]"
BPM_PALETTE = [60, 90, 120, 120.5, 150, 180, 200, 240, 333.33, 75.0]
SV_PALETTE = [0.5, 1, 2, 0.75, 1.5, 10, 0.01, 1.0, 3, 0.1]


def gen(rng, kind):
    mode = rng.choice(["int", "int", "float", "mixed"])

    def num(lo, hi):
        if mode == "int":
            return rng.randint(lo, hi)
        if mode == "float":
            return rng.choice([round(rng.uniform(lo, hi), 3), rng.uniform(lo, hi), float(rng.randint(lo, hi))])
        return rng.choice([rng.randint(lo, hi), rng.uniform(lo, hi)])

    n_bpm = rng.choice([1, 1, 2, 3, 4, 6])
    t0 = num(-500, 500)
    span = rng.choice([10, 1000, 20000])
    offs = {t0}
    while len(offs) < n_bpm:
        offs.add(t0 + abs(num(1, span)) if mode != "float" else t0 + rng.choice([rng.uniform(0.001, span), float(rng.randint(1, span))]))
    offs = sorted(offs)
    if rng.random() < 0.3:
        # equally spaced tempo points: ties between bpm values
        offs = [t0 + i * 100 for i in range(n_bpm)]
    vals = [rng.choice(BPM_PALETTE) if rng.random() < 0.8 else rng.uniform(30, 400) for _ in offs]
    if mode == "int":
        vals = [int(v) for v in vals]
    bpms = list(zip(offs, vals))
    n_hit = rng.choice([0, 1, 2, 5])
    n_hold = rng.choice([0, 0, 1, 3])
    if n_hit + n_hold == 0:
        n_hit = 1
    top = rng.choice([offs[-1], offs[-1] + span, t0 + span // 2])
    def obj_off():
        r = rng.random()
        if r < 0.15:
            return t0
        if r < 0.3:
            return rng.choice(offs) if rng.choice(offs) >= t0 else t0
        return t0 + abs(num(0, max(1, int(top - t0) + 1)))
    hits = [obj_off() for _ in range(n_hit)]
    holds = [(obj_off(), abs(num(1, 500))) for _ in range(n_hold)]
    svs = []
    if kind in ("osu", "qua"):
        n_sv = rng.choice([0, 1, 2, 4, 8])
        for _ in range(n_sv):
            r = rng.random()
            if r < 0.3:
                o = rng.choice(offs)
            elif r < 0.45 and svs:
                o = rng.choice(svs)[0]
            elif r < 0.55:
                o = rng.choice(hits) if hits else t0
            elif r < 0.65:
                o = t0 - abs(num(1, 300))
            else:
                o = t0 + num(0, int(top - t0) + 300)
            x = rng.choice(SV_PALETTE) if rng.random() < 0.85 else rng.choice([0, -1, rng.uniform(0.01, 10)])
            svs.append((o, x))
    rng.shuffle(bpms)
    rng.shuffle(svs)
    return bpms, svs, hits, holds


HAND = [
    # (kind, bpms, svs, hits, holds)
    ("osu", [(0, 100)], [], [0], []),
    ("osu", [(0, 100)], [(0, 2)], [0], []),
    ("osu", [(0.0, 100.0)], [(0.0, 2.0), (0.0, 3.0)], [0.0], []),
    ("qua", [(0, 100)], [], [0], []),
    ("qua", [(0, 120), (100, 240), (200, 120), (300, 240)], [], [400], []),  # tie 200 vs 200
    ("sm", [(0, 240), (100, 120), (200, 240), (300, 120)], [], [400], []),  # tie
    ("sm", [(0, 100)], [], [50], []),
    ("bms", [(0, 100), (500, 200)], [], [100, 200], [(150, 20)]),  # bpm after last object
    ("o2j", [(0.5, 100.25), (500.75, 200.5)], [], [100.125], []),
    ("osu", [(0, 100), (200, 200), (300, 300)], [(0, 1), (100, 2), (300, 2)], [-100, 400], []),
    ("osu", [(0, 100), (200, 200), (300, 300)], [(-200, 3), (100, 2), (300, 2), (300, 4), (500, 7)], [0, 400], [(10, 5)]),
    ("qua", [(300, 300), (0, 100), (200, 200)], [(400, 2), (100, 2), (100, 5), (200, 0.5)], [400, 0], [(10, 5)]),
    ("qua", [(0, 100), (200, 100)], [(100, 2)], [0, 300], []),
    ("osu", [(0, 150), (1000, 150), (2000, 75)], [(1500, 0.5), (2500, 2)], [100], [(2900, 100)]),
    ("osu", [(0, 0), (100, 100)], [(50, 2)], [0, 150], []),  # zero bpm
    ("osu", [(0, -100), (100, 100)], [(50, 2)], [0, 300], []),  # negative bpm
]


def main():
    lines = []

    def scen(i, m, overrides):
        kind = type(m).__name__
        before = dump_map(m)
        lines.append("%d %s IN %s" % (i, kind, before))
        for ov in overrides:
            lines.append("%d ss[%r] %s" % (i, ov, call(scroll_speed, m, ov)))
        lines.append("%d dom %s" % (i, call(dominant_bpm, m)))
        if hasattr(m, "svs"):
            lines.append("%d svn %s" % (i, call(sv_normalize, m, overrides[-1])))
        lines.append("%d unchanged=%s" % (i, dump_map(m) == before))

    rng = random.Random(19_002)
    i = 0
    for h in HAND + HAND_SV:
        scen(i, build(*h), [None, 50, 133.7, np.float64(0.25)])
        i += 1
    # sv / tempo lists that carry their own (unordered / repeated) row labels
    for labels in ([5, 5, 7], [2, 0, 1], [9, 9, 9]):
        for kind in ("osu", "qua"):
            m = build(kind, [(300, 300), (0, 100), (200, 300)], [(100, 2), (300, 0.5), (100, 4)], [0, 450], [])
            for name in ("bpms", "svs"):
                df = getattr(m, name).df.copy()
                df.index = labels
                setattr(m, name, type(getattr(m, name))(df))
            scen(i, m, [None, 75])
            i += 1
    for kind in ["osu", "qua", "osu", "qua", "sm", "bms", "o2j"]:
        for _ in range(40 if kind in ("osu", "qua") else 12):
            bpms, svs, hits, holds = gen(rng, kind)
            scen(i, build(kind, bpms, svs, hits, holds), [None, rng.choice([50, 100.0, 0.5, 1e6, 173])])
            i += 1
    text = "\n".join(lines)
    if "--dump" in sys.argv:
        sys.stdout.write(text + "\n")
    print("DIGEST", hashlib.sha256(text.encode()).hexdigest())


HAND_SV = [
    # every list non-empty and whole-numbered: the breakpoints stay int64
    ("osu", [(0, 100), (200, 200)], [(5, 2)], [0, 300], [(10, 5)]),
    ("qua", [(0, 100), (200, 200)], [(5, 2), (200, 3)], [0, 300], [(10, 5)]),
    ("osu", [(0, 100), (200, 200)], [(0, 2), (200, 3), (300, 4)], [0, 300], [(10, 5)]),  # no sv-only offset
    # whole-number tempo, fractional svs and the reverse
    ("osu", [(0, 100), (200, 200)], [(5.5, 2.5)], [0, 300], [(10, 5)]),
    ("qua", [(0.5, 100.5), (200.5, 200.5)], [(5, 2)], [1, 300], [(10, 5)]),
    # svs on one offset: the last of the list wins, whatever the order of the list
    ("osu", [(0, 100)], [(50, 2), (50, 3), (50, 4)], [0, 100], []),
    ("osu", [(0, 100)], [(50, 4), (50, 3), (50, 2)], [0, 100], []),
    ("qua", [(0, 100), (50, 200)], [(50, 4), (50, 3)], [0, 100], []),
    # sv on the head, sv on the tail, sv ahead of the first tempo point, sv past the last note
    ("osu", [(0, 100), (100, 200)], [(0, 3)], [0, 200], []),
    ("osu", [(0, 100), (100, 200)], [(200, 3)], [0, 200], []),
    ("osu", [(0, 100), (100, 200)], [(-300, 3), (-100, 0.5)], [0, 200], []),
    ("qua", [(0, 100), (100, 200)], [(-300, 3), (0, 0.5)], [50, 200], []),
    ("qua", [(0, 100), (100, 200)], [(900, 3)], [50, 200], []),
    # sv carried over a note but reset by a tempo point
    ("osu", [(0, 100), (1000, 100)], [(500, 2)], [0, 700, 1500], []),
    ("qua", [(0, 100), (1000, 100), (2000, 50)], [(500, 2), (2000, 2)], [0, 700, 1500], [(2500, 10)]),
    # one single offset for everything
    ("osu", [(7, 100)], [(7, 2)], [7], [(7, 1)]),
    ("qua", [(7.5, 100)], [(7.5, 2), (7.5, 0.5)], [7.5], []),
    # zero and negative multipliers
    ("osu", [(0, 100), (100, 200)], [(50, 0), (150, -2)], [0, 200], []),
    # unsorted tempo and sv rows, tempo points after the last note
    ("qua", [(5000, 300), (0, 100), (1000, 200)], [(6000, 2), (-10, 3), (1000, 0.5), (500, 0.25)], [10], []),
    ("sm", [(5000, 300), (0, 100), (1000, 200)], [], [10], [(20, 7000)]),
    ("bms", [(5000.5, 300), (0.25, 100), (1000, 200)], [], [10, 10, 6000], []),
    ("o2j", [(0, 100)], [], [0, 0], []),
]


if __name__ == "__main__":
    main()
