"""Demo for change 2: HoldList.after / before / between (head / tail and inclusive flags).

Prints one line ``DIGEST <sha256>`` over a canonical dump of every result.
"""
import hashlib
import importlib
import random
import warnings

import numpy as np
import pandas as pd

for _m in ("reamber.base", "reamber.base.lists", "reamber.osu", "reamber.sm",
           "reamber.bms", "reamber.o2jam", "reamber.quaver",
           "reamber.osu.lists", "reamber.sm.lists", "reamber.bms.lists",
           "reamber.o2jam.lists", "reamber.quaver.lists",
           "reamber.sm.lists.notes", "reamber.osu.lists.notes",
           "reamber.bms.lists.notes", "reamber.o2jam.lists.notes",
           "reamber.quaver.lists.notes"):
    importlib.import_module(_m)

from reamber.base.Series import Series
from reamber.base.lists.TimedList import TimedList

random.seed(160002)
OUT = []


def emit(*parts):
    OUT.append(" | ".join(str(p) for p in parts))


def all_list_classes():
    seen, stack = {}, [TimedList]
    while stack:
        c = stack.pop()
        for s in c.__subclasses__():
            key = f"{s.__module__}.{s.__qualname__}"
            if key not in seen:
                seen[key] = s
                stack.append(s)
    seen["reamber.base.lists.TimedList.TimedList"] = TimedList
    return [seen[k] for k in sorted(seen)]


def cell(v):
    if isinstance(v, (float, np.floating)):
        return f"f:{float(v)!r}"
    if isinstance(v, (bool, np.bool_)):
        return f"b:{bool(v)!r}"
    if isinstance(v, (int, np.integer)):
        return f"i:{int(v)!r}"
    return f"{type(v).__name__}:{v!r}"


def dump_df(df):
    if not isinstance(df, pd.DataFrame):
        return f"<not a frame {type(df).__name__}>"
    cols = [repr(c) for c in df.columns]
    dt = [str(t) for t in df.dtypes]
    idx = f"{type(df.index).__name__}{[cell(i) for i in df.index]}"
    rows = [[cell(v) for v in df[c].tolist()] for c in df.columns] if len(cols) == len(set(cols)) \
        else [[cell(v) for v in r] for r in df.to_numpy().tolist()]
    return f"cols={cols} dtypes={dt} index={idx} data={rows}"


def dump(o):
    if isinstance(o, TimedList):
        try:
            d = o.df
        except AttributeError:
            return f"{type(o).__name__}<no df>"
        return f"{type(o).__name__}({dump_df(d)})"
    if isinstance(o, Series):
        s = o.data
        return (f"{type(o).__name__}(dtype={s.dtype} index={[repr(i) for i in s.index]} "
                f"vals={[cell(v) for v in s.tolist()]})")
    if isinstance(o, pd.DataFrame):
        return f"DF({dump_df(o)})"
    if isinstance(o, pd.Series):
        return (f"PS(name={o.name!r} dtype={o.dtype} index={[cell(i) for i in o.index]} "
                f"vals={[cell(v) for v in o.tolist()]})")
    if isinstance(o, np.ndarray):
        return f"ND(dtype={o.dtype} {[cell(v) for v in o.tolist()]})"
    if isinstance(o, tuple):
        return "(" + ", ".join(dump(x) for x in o) + ")"
    return cell(o)


def run(label, fn):
    with warnings.catch_warnings(record=True) as w:
        warnings.simplefilter("always")
        try:
            res = dump(fn())
        except Exception as e:  # noqa
            res = f"EXC {type(e).__name__}"
    ws = sorted(f"{x.category.__name__}:{x.message}" for x in w
                if issubclass(x.category, UserWarning))
    emit(label, res, f"warn={ws}")


OFFSETS = [-1000.0, -0.5, 0.0, 0.0, 0.25, 1.0, 1.0, 1.0, 2.5, 100.0, 1e6, 333.3333]


def make_list(cls, n):
    """n rows of defaults with random offsets/columns/lengths (dupes, negatives, fractions)"""
    tl = cls.empty(n)
    df = tl.df.copy()
    if n:
        df["offset"] = [random.choice(OFFSETS) for _ in range(n)]
        if "column" in df.columns:
            df["column"] = [random.randrange(0, 10) for _ in range(n)]
        if "length" in df.columns:
            df["length"] = [random.choice([0.0, 0.5, 1.0, 50.0, 1000.0]) for _ in range(n)]
        if "bpm" in df.columns:
            df["bpm"] = [random.choice([60.0, 120.0, 0.5, 333.0]) for _ in range(n)]
    return cls(df)


def pre_ops(tl, k):
    """leave the list in a non-initial state (labels no longer 0..n-1 in order)"""
    if k == 0:
        return tl
    if k == 1:
        return tl.sorted()
    if k == 2:
        return tl.sorted(reverse=True)
    if k == 3:
        return tl.after(0.0, include_end=True)
    return tl[::2]



from reamber.base.lists.notes.HoldList import HoldList

CLASSES = all_list_classes()
HOLD_CLASSES = [c for c in CLASSES if issubclass(c, HoldList)]
emit("classes", [c.__name__ for c in CLASSES])
emit("hold classes", [c.__name__ for c in HOLD_CLASSES])

LENGTHS_POS = [0.0, 0.0, 0.25, 0.5, 1.0, 1.5, 99.0, 1000.0]
LENGTHS_ANY = LENGTHS_POS + [-0.5, -1.0, -1000.0]


def make_holds(cls, n, variant):
    tl = make_list(cls, n)
    df = tl.df.copy()
    if n:
        pool = LENGTHS_ANY if variant in ("neg", "nan") else LENGTHS_POS
        df["length"] = [random.choice(pool) for _ in range(n)]
        if variant == "int":
            df["offset"] = [random.choice([-3, -1, 0, 0, 1, 1, 2, 5]) for _ in range(n)]
            df["length"] = [random.choice([0, 1, 1, 2, 4]) for _ in range(n)]
        if variant == "nan":
            df.loc[df.index[random.randrange(n)], "length"] = float("nan")
            df.loc[df.index[random.randrange(n)], "offset"] = float("nan")
        if variant == "object":
            df["offset"] = df["offset"].astype(object)
            df["length"] = df["length"].astype(object)
    return cls(df)


def bounds_for(tl):
    """bounds that tie with heads and tails, lie between them and outside of everything"""
    b = [-1e9, 1e9, 0.0, 1.0, 0.75, float("inf"), float("-inf")]
    if len(tl):
        heads = [x for x in tl.offset.tolist() if x == x]
        tails = [x for x in (tl.offset + tl.length).tolist() if x == x]
        b += random.sample(heads, min(2, len(heads))) + random.sample(tails, min(2, len(tails)))
    return b


case = 0
for cls in HOLD_CLASSES:
    for n, k, variant in [(0, 0, "pos"), (1, 0, "pos"), (4, 0, "pos"), (6, 1, "pos"), (6, 2, "neg"),
                          (8, 4, "neg"), (5, 3, "int"), (5, 2, "nan"), (5, 1, "object"),
                          (9, 2, "pos")]:
        try:
            tl = pre_ops(make_holds(cls, n, variant), k)
        except Exception as e:  # noqa
            emit(cls.__name__, n, k, variant, "SETUP-EXC", type(e).__name__)
            continue
        snapshot = dump(tl)
        emit(cls.__name__, n, k, variant, "input", snapshot)
        run(f"{cls.__name__} {n} {k} {variant} head/tail", lambda: (tl.head_offset, tl.tail_offset,
                                                                    tl.first_offset(), tl.last_offset(),
                                                                    tl.first_last_offset()))
        bs = bounds_for(tl)
        for b in bs:
            for inc in (False, True, 0, 1, None):
                for flag in (False, True):
                    case += 2
                    run(f"{cls.__name__} {n} {k} {variant} after({b!r},{inc!r},tail={flag})",
                        lambda: tl.after(b, include_end=inc, include_tail=flag))
                    run(f"{cls.__name__} {n} {k} {variant} before({b!r},{inc!r},head={flag})",
                        lambda: tl.before(b, include_end=inc, include_head=flag))
            # defaults / positional
            run(f"{cls.__name__} {n} {k} {variant} after-default({b!r})", lambda: tl.after(b))
            run(f"{cls.__name__} {n} {k} {variant} before-default({b!r})", lambda: tl.before(b))
            run(f"{cls.__name__} {n} {k} {variant} after-pos({b!r})", lambda: tl.after(b, True, True))
            run(f"{cls.__name__} {n} {k} {variant} before-pos({b!r})", lambda: tl.before(b, True, False))
        for lo in bs[2:]:
            hi = random.choice(bs)
            for ends in (True, False, (True, False), (False, True), (True, True), (False, False), [1, 0]):
                for head in (False, True):
                    for tail in (False, True):
                        case += 1
                        run(f"{cls.__name__} {n} {k} {variant} between({lo!r},{hi!r},{ends!r},h={head},t={tail})",
                            lambda: tl.between(lo, hi, include_ends=ends, include_head=head,
                                               include_tail=tail))
            run(f"{cls.__name__} {n} {k} {variant} between-default({lo!r},{hi!r})",
                lambda: tl.between(lo, hi))
        # unusual bound types
        for b in (np.float64(1.0), np.int64(0), 1, float("nan"), "abc", None, [1.0], (1.0, 2.0)):
            for flag in (False, True):
                run(f"{cls.__name__} {n} {k} {variant} after-odd({b!r},tail={flag})",
                    lambda: tl.after(b, include_end=True, include_tail=flag))
                run(f"{cls.__name__} {n} {k} {variant} before-odd({b!r},head={flag})",
                    lambda: tl.before(b, include_end=False, include_head=flag))
        # chained filters after filters; result still an ordered collection
        def chain():
            r = tl.after(0.0, True, True).before(1000.0, True, False).sorted(reverse=True)
            return (r, len(r), [x.offset for x in r], r[0] if len(r) else None,
                    r.after(1.0, include_tail=True), r.before(1.0, include_head=False))
        run(f"{cls.__name__} {n} {k} {variant} chain", chain)
        emit(cls.__name__, n, k, variant, "input-unchanged", snapshot == dump(tl))

emit("cases", case)
text = "\n".join(OUT)
import os
if os.environ.get("DEMO_DUMP"):
    open(os.environ["DEMO_DUMP"], "w").write(text)
print("DIGEST", hashlib.sha256(text.encode()).hexdigest())
