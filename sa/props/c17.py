"""C17 — full-LN generation keeps every note and fills gaps by the stated rule (DESIGN §5 C17)."""
from __future__ import annotations

import ast
from typing import Dict, List, Optional, Tuple

from ..model import AnalysisError, walk_no_nested, params_of, HITLIST, HOLDLIST, MAP
from .. import report as R
from ..report import RuleSpec
from .. import sym
from ..flow import ctor_kwargs
from .common import unparse, call_name, local_defs, concrete_classes, short, inline_locals

FULL_LN = "reamber.algorithms.generate.full_ln.full_ln"


def _fn(ctx):
    """full_ln on the normal form (private helpers inlined), the row variables named after the frame columns they receive:
    `for a, b, c, d in g.itertuples(index=False)` unpacks positionally, so the k-th variable carries the k-th column whatever it
    is called (sa/normal.py: with_roles)"""
    from ..normal import with_roles
    fn = ctx.M.nfn(FULL_LN)
    try:
        outer, inner = _row_loop(fn)
    except AnalysisError:
        return fn
    cols = _row_columns(fn, outer)
    if cols and "?" not in cols and len(_flat_names(inner.target)) == len(cols):
        def at(k):
            return lambda n, v, st: isinstance(st, ast.For) and (_itertuples_call(st.iter) is not None or _column_zip(st.iter) is not None) and \
                k < len(_flat_names(st.target)) and _flat_names(st.target)[k] == n
        fn = with_roles(fn, tuple((c, at(k)) for k, c in enumerate(cols)))
    return fn


def _row_columns(fn, outer) -> List[str]:
    """what the flattened row variables receive, in order: the projected frame columns, the columns added to the frame (or to the
    group) before the rows are taken, and one pseudo-column 'diff' for a gap Series zipped with the rows"""
    proj = None
    for n in walk_no_nested(fn.node):
        if isinstance(n, ast.Subscript) and isinstance(n.value, ast.Attribute) and n.value.attr == "loc" and \
                isinstance(n.slice, ast.Tuple) and len(n.slice.elts) == 2 and isinstance(n.slice.elts[1], ast.List):
            proj = [e.value for e in n.slice.elts[1].elts if isinstance(e, ast.Constant)]
    if proj is None:
        return []
    try:
        _, inner = _row_loop(fn)
    except AnalysisError:
        return []
    cz = _column_zip(inner.iter) or _column_zip(inner.iter, mixed=True)
    if cz is not None and _itertuples_call(inner.iter) is None:
        out = []
        for a in cz:
            if isinstance(a, ast.Subscript) and isinstance(a.slice, ast.Constant):
                out.append(a.slice.value)
            elif isinstance(a, ast.Attribute):
                out.append(a.attr)
            elif isinstance(a, ast.Name) and any(kind == "series" and nm == a.id for kind, nm, _ in _gap_sources(fn)):
                out.append("diff")
            else:
                out.append("?")
        return out
    added = [nm for kind, nm, n in _gap_sources(fn) if kind == "column" and n.lineno < inner.lineno]
    it = inner.iter
    zipped = []
    if isinstance(it, ast.Call) and call_name(it) == "zip":
        for a in it.args[1:]:
            if isinstance(a, ast.Name) and any(kind == "series" and nm == a.id for kind, nm, _ in _gap_sources(fn)):
                zipped.append("diff")
            else:
                zipped.append("?")
    return proj + added + zipped


def _row_paths(inner: ast.For):
    """paths through the per-row body, tests and appended notes written over the row's inputs (sa/sympaths.py)"""
    from .. import sympaths as SP
    # the row values come out of numeric columns (NaN marks "no length" / "no next note"): none of them is None
    rowvars = [x for x in _flat_names(inner.target) if x != "*"]
    return SP.enumerate_paths(inner.body, not_none=rowvars)


def _set_sinks(fn):
    _SINKS.clear()
    _SINKS.update(_sinks(fn) or {"hits": "hits", "holds": "holds"})


_SINKS: Dict[str, str] = {}      # accumulator name -> 'hits' | 'holds' (set per function by _sinks)


def _sinks(fn) -> Dict[str, str]:
    """which local lists end up, completely, in the result's hit list / hold list:
    `m.hits = <HitList>.from_dict(N)` makes N a hit sink; `N.extend(L)` / `N += L` / `N = L` / `a, b = x, y` pass that on"""
    kind: Dict[str, str] = {}
    for n in walk_no_nested(fn.node):
        if isinstance(n, ast.Assign) and isinstance(n.targets[0], ast.Attribute) and n.targets[0].attr in ("hits", "holds") and \
                isinstance(n.value, ast.Call) and call_name(n.value) == "from_dict" and n.value.args and isinstance(n.value.args[0], ast.Name):
            kind[n.value.args[0].id] = n.targets[0].attr
    flows = []      # (into, from)
    for n in walk_no_nested(fn.node):
        if isinstance(n, ast.Expr) and isinstance(n.value, ast.Call) and call_name(n.value) == "extend" and \
                isinstance(n.value.func.value, ast.Name) and n.value.args and isinstance(n.value.args[0], ast.Name):
            flows.append((n.value.func.value.id, n.value.args[0].id))
        if isinstance(n, ast.AugAssign) and isinstance(n.op, ast.Add) and isinstance(n.target, ast.Name) and isinstance(n.value, ast.Name):
            flows.append((n.target.id, n.value.id))
        if isinstance(n, ast.Assign) and len(n.targets) == 1:
            t, v = n.targets[0], n.value
            if isinstance(t, ast.Name) and isinstance(v, ast.Name):
                flows.append((t.id, v.id))
            if isinstance(t, ast.Tuple) and isinstance(v, ast.Tuple) and len(t.elts) == len(v.elts):
                for a, b in zip(t.elts, v.elts):
                    if isinstance(a, ast.Name) and isinstance(b, ast.Name):
                        flows.append((a.id, b.id))
    for _ in range(6):
        for into, frm in flows:
            if into in kind and frm not in kind:
                kind[frm] = kind[into]
    return kind


def _note_appends(path) -> List[Tuple[str, ast.Call]]:
    out = []
    for e in path.effects:
        for n in ast.walk(e):
            if isinstance(n, ast.Call) and call_name(n) == "append" and isinstance(n.func.value, ast.Name) and n.func.value.id in _SINKS:
                out.append((_SINKS[n.func.value.id], n))
    return out


def _note_fields(call: ast.Call):
    from .. import sympaths as SP
    return SP.dict_items(call.args[0]) if call.args else None


def _itertuples_call(e) -> Optional[ast.Call]:
    for x in ast.walk(e):
        if isinstance(x, ast.Call) and call_name(x) in ("itertuples", "iterrows"):
            return x
    return None


def _column_zip(it, mixed: bool = False) -> Optional[List[ast.AST]]:
    """zip(G["a"], G["b"], .., S): the arguments, when at least two are columns of one frame G (the rows walked column-wise)"""
    if not (isinstance(it, ast.Call) and call_name(it) == "zip" and isinstance(it.func, ast.Name) and len(it.args) >= 2):
        return None
    frames = [unparse(a.value) for a in it.args if isinstance(a, ast.Subscript) and isinstance(a.slice, ast.Constant) and isinstance(a.slice.value, str)]
    frames += [unparse(a.value) for a in it.args if isinstance(a, ast.Attribute) and isinstance(a.value, ast.Name)]
    if len(frames) >= 2 and (len(set(frames)) == 1 or mixed):
        return list(it.args)
    return None


def _row_loop(fn) -> Tuple[ast.For, ast.For]:
    """(loop over the column groups, loop over the rows).  The row loop is the one whose iterable yields the rows of a frame through
    itertuples — directly, zipped with a parallel Series, or chained over the groups (then there is no separate group loop and the
    row loop is returned for both)"""
    fors = sorted((n for n in walk_no_nested(fn.node) if isinstance(n, ast.For)), key=lambda n: n.lineno)
    inner = next((n for n in fors if _itertuples_call(n.iter) is not None), None)
    if inner is None:
        inner = next((n for n in fors if _column_zip(n.iter) is not None), None)      # rows walked column-wise: zip(G["a"], G["b"], ...)
    if inner is None:
        inner = next((n for n in fors if _column_zip(n.iter, mixed=True) is not None), None)    # ... of DIFFERENT frames: reported by R1
    if inner is None:
        raise AnalysisError("full_ln: per-column / per-row loops not found")
    outer = next((n for n in fors if n is not inner and any(x is inner for x in ast.walk(n))), None)
    return (outer or inner), inner


def _flat_names(t) -> List[str]:
    if isinstance(t, ast.Name):
        return [t.id]
    if isinstance(t, (ast.Tuple, ast.List)):
        return [x for e in t.elts for x in _flat_names(e)]
    return ["*"]


def _gap_sources(fn) -> List[Tuple[str, ast.AST, ast.AST]]:
    """where the gap to the next note of the column is computed: ('column', name, expr) for a frame column store F["name"] = expr,
    ('series', name, expr) for a local Series zipped with the rows"""
    out = []
    used_in = set()
    for n in walk_no_nested(fn.node):
        if isinstance(n, ast.Assign) and len(n.targets) == 1 and any(isinstance(x, ast.Call) and call_name(x) in ("shift", "diff") for x in ast.walk(n.value)):
            t = n.targets[0]
            # F = F.assign(name=<expr>) is the column store F["name"] = <expr> (assign appends the new column last, like the store)
            v_ = n.value
            if isinstance(t, ast.Name) and isinstance(v_, ast.Call) and isinstance(v_.func, ast.Attribute) and v_.func.attr == "assign" and \
                    isinstance(v_.func.value, ast.Name) and v_.func.value.id == t.id and not v_.args and len(v_.keywords) == 1 and v_.keywords[0].arg and \
                    not isinstance(v_.keywords[0].value, ast.Lambda):
                kw = v_.keywords[0]
                n = ast.copy_location(ast.Assign(targets=[ast.Subscript(value=ast.Name(id=t.id, ctx=ast.Load()), slice=ast.Constant(value=kw.arg), ctx=ast.Store())],
                                                 value=kw.value), n)
                ast.fix_missing_locations(n)
                t = n.targets[0]
            # a step of the chain named first (d = col.diff(); F["diff"] = d.shift(-1)) is read in place
            full = inline_locals(fn.node, n.value)
            if unparse(full) != unparse(n.value):
                used_in |= {x.id for x in ast.walk(n.value) if isinstance(x, ast.Name)}
                n = ast.copy_location(ast.Assign(targets=n.targets, value=full), n)
                ast.fix_missing_locations(n)
            if isinstance(t, ast.Subscript) and isinstance(t.slice, ast.Constant) and isinstance(t.value, ast.Name):
                out.append(("column", t.slice.value, n))
            elif isinstance(t, ast.Name):
                out.append(("series", t.id, n))
    return [o for o in out if not (o[0] == "series" and o[1] in used_in)]


def _branch_paths(body: List[ast.stmt], conds=()) -> List[Tuple[tuple, List[ast.stmt], str]]:
    """[(conditions, simple statements, exit)] for every path through an if/else tree"""
    paths = [(tuple(conds), [], "fall")]
    for s in body:
        nxt = []
        for c, st, ex in paths:
            if ex != "fall":
                nxt.append((c, st, ex))
                continue
            if isinstance(s, ast.If):
                for sub in _branch_paths(s.body, ()):
                    nxt.append((c + ((s.test, True),) + sub[0], st + sub[1], sub[2]))
                for sub in _branch_paths(s.orelse, ()):
                    nxt.append((c + ((s.test, False),) + sub[0], st + sub[1], sub[2]))
            elif isinstance(s, ast.Continue):
                nxt.append((c, st, "continue"))
            elif isinstance(s, ast.Break):
                nxt.append((c, st, "break"))
            elif isinstance(s, ast.Return):
                nxt.append((c, st + [s], "return"))
            elif isinstance(s, (ast.For, ast.While, ast.Try, ast.With)):
                nxt.append((c, st + [s], "opaque"))
            else:
                nxt.append((c, st + [s], ex))
        paths = nxt
    return paths


def _appends(stmts) -> List[Tuple[str, ast.Call]]:
    out = []
    for s in stmts:
        for n in ast.walk(s):
            if isinstance(n, ast.Call) and call_name(n) == "append" and isinstance(n.func.value, ast.Name):
                out.append((n.func.value.id, n))
    return out


def rule_r1(ctx) -> List[R.Inst]:
    M = ctx.M
    rid = "C17.R1"
    fn = _fn(ctx)
    _set_sinks(fn)
    file = M.mods[fn.mod].rel
    outer, inner = _row_loop(fn)
    insts = []
    # row variables: positional unpack must match the projected columns (+ the added gap column)
    cols = _row_columns(fn, outer)
    names = _flat_names(inner.target)
    itc = _itertuples_call(inner.iter)
    idx_false = itc is None or any(k.arg == "index" and isinstance(k.value, ast.Constant) and k.value.value is False for k in itc.keywords)
    mixed_zip = _itertuples_call(inner.iter) is None and _column_zip(inner.iter) is None and _column_zip(inner.iter, mixed=True) is not None
    if mixed_zip:
        frs = sorted({unparse(a.value) for a in inner.iter.args if isinstance(a, (ast.Subscript, ast.Attribute)) and isinstance(a.value, ast.Name)})
        insts.append(R.viol(rid, "row-unpack", file, inner.lineno,
                            f"the rows are walked as a zip of columns of DIFFERENT frames {frs}: zip pairs by position and stops at the shortest, "
                            f"so a column of the whole frame next to columns of one group gives every note of the group the values of the frame's first rows",
                            construct=f"zip over columns of {frs}"))
    elif not cols or not names or "?" in cols:
        insts.append(R.undec(rid, "row-unpack", file, inner.lineno, "projection / row unpacking not recognised"))
    elif names == cols and idx_false:
        insts.append(R.ok(rid, "row-unpack", file, inner.lineno, idiom=f"rows unpacked as {names} = projected columns + added"))
    else:
        insts.append(R.viol(rid, "row-unpack", file, inner.lineno,
                            f"rows are unpacked positionally as {names} but the frame's columns are {cols}"
                            f"{'' if idx_false else ' preceded by the index'}: values land in the wrong variables",
                            construct=f"{names} vs {cols}"))
    # every column group reaches the per-row loop: no early exit from the per-column body before it
    pre = []
    for st in (outer.body if outer is not inner else []):
        if st is inner or any(x is inner for x in ast.walk(st)):
            break
        pre.append(st)
    early = [(c, ex) for c, sts, ex in _branch_paths(pre) if ex != "fall"]
    if early:
        c, ex = early[0]
        ctxt = " and ".join(("" if pol else "not ") + f"({unparse(t)})" for t, pol in c) or "always"
        insts.append(R.viol(rid, "column-groups", file, outer.lineno,
                            f"when [{ctxt}] a whole column is skipped ({ex}) before its notes are processed: the result lists are "
                            f"rebuilt from scratch, so those notes disappear", construct=f"per-column body: {ctxt} -> {ex}"))
    else:
        insts.append(R.ok(rid, "column-groups", file, outer.lineno, idiom="every column group reaches the per-row loop"))
    # every path appends exactly one note carrying the row's offset and column
    try:
        paths = _row_paths(inner)
    except OverflowError:
        insts.append(R.undec(rid, "paths", file, inner.lineno, "too many paths through the per-row body"))
        return insts
    if paths and not any(_note_appends(p_) for p_ in paths):
        # no path of the per-row body feeds a list that becomes the result's hits / holds: the rows are collected in intermediate
        # lists and distributed afterwards in a way the extractors do not follow — no verdict (not "0 output notes")
        insts.append(R.undec(rid, "paths", file, inner.lineno,
                             "the per-row body appends to intermediate lists only; how they are split into hits and holds afterwards is not followed"))
        return insts
    for pth in paths:
        apps = _note_appends(pth)
        cond_txt = pth.cond_text()
        key = f"path:{cond_txt[:70]}"
        ex = pth.exit
        if ex in ("break", "return", "opaque", "raise"):
            insts.append(R.viol(rid, key, file, inner.lineno, f"a row path leaves the loop early ({ex}): later notes of the column are lost",
                                construct=f"{cond_txt}: {ex}"))
            continue
        if len(apps) != 1:
            insts.append(R.viol(rid, key, file, inner.lineno,
                                f"on the path [{cond_txt}] a note produces {len(apps)} output notes (must be exactly one)",
                                construct=f"{cond_txt}: {len(apps)} appends"))
            continue
        nm, call = apps[0]
        kw = _note_fields(call)
        if kw is None:
            insts.append(R.undec(rid, key, file, inner.lineno, f"the appended note '{unparse(call)[:80]}' is not a dict of constant keys"))
            continue
        if unparse(kw.get("offset", ast.Constant(value=None))) != "offset" or \
                unparse(kw.get("column", ast.Constant(value=None))) != "column":
            insts.append(R.viol(rid, key, file, getattr(call, "lineno", inner.lineno), "the output note does not carry the input row's offset and column unchanged",
                                construct=unparse(call)))
            continue
        if nm == "holds" and "length" not in kw:
            insts.append(R.viol(rid, key, file, getattr(call, "lineno", inner.lineno), "a hold is produced without a length", construct=unparse(call)))
            continue
        if nm == "hits" and "length" in kw:
            insts.append(R.viol(rid, key, file, getattr(call, "lineno", inner.lineno), "a hit is produced with a length", construct=unparse(call)))
            continue
        insts.append(R.ok(rid, key, file, getattr(call, "lineno", inner.lineno), idiom=f"exactly one {nm[:-1]}(offset, column{', length' if nm == 'holds' else ''})"))
    return insts


def _sign_test_of_gap(txt: str, name: str = "diff") -> bool:
    """`diff > 0`, `diff <= 0`, `0 < diff` …: an ordering comparison of the gap with zero (always False for NaN, so it can stand in for
    isnan — except at gap 0)"""
    try:
        e = ast.parse(txt, mode="eval").body
    except SyntaxError:
        return False
    while isinstance(e, ast.UnaryOp) and isinstance(e.op, ast.Not):
        e = e.operand
    if isinstance(e, ast.Compare) and len(e.ops) == 1 and isinstance(e.ops[0], (ast.Gt, ast.GtE, ast.Lt, ast.LtE)):
        sides = [e.left, e.comparators[0]]
        return any(isinstance(x, ast.Name) and x.id == name for x in sides) and \
            any(isinstance(x, ast.Constant) and x.value == 0 and not isinstance(x.value, bool) for x in sides)
    return False


def rule_r2(ctx) -> List[R.Inst]:
    M = ctx.M
    rid = "C17.R2"
    fn = _fn(ctx)
    _set_sinks(fn)
    file = M.mods[fn.mod].rel
    outer, inner = _row_loop(fn)
    ps = params_of(fn.node)
    gap, thres = ps[1], ps[2]
    insts = []
    # (0) the caller's gap and threshold are used as given (0 is a legal value for both)
    from .. import cmp as P
    for prm in (gap, thres):
        rb = P.rebinds(fn.node, prm)
        if rb:
            insts.append(R.viol(rid, f"parameter:{prm}", file, rb[0].lineno,
                                f"'{prm}' is replaced before use ('{unparse(rb[0])}'): with `x or default` an explicit 0 silently becomes "
                                f"the default, so gap = 0 / threshold = 0 do not follow the stated rule", construct=unparse(rb[0])))
        else:
            insts.append(R.ok(rid, f"parameter:{prm}", file, fn.node.lineno, idiom=f"'{prm}' is never rebound"))
    # (a) sorted by offset, then grouped by column
    grp = None
    for n in walk_no_nested(fn.node):
        if isinstance(n, ast.Call) and call_name(n) == "groupby":
            grp = n
    if grp is None:
        insts.append(R.undec(rid, "sort-then-group", file, fn.node.lineno, "groupby not found"))
    else:
        chain = []
        e = grp
        for _ in range(4):
            while isinstance(e, (ast.Call, ast.Subscript)) and (isinstance(e, ast.Subscript) or isinstance(e.func, ast.Attribute)):
                if isinstance(e, ast.Subscript):
                    e = e.value.value if isinstance(e.value, ast.Attribute) and e.value.attr in ("loc", "iloc") else e.value
                    continue
                chain.insert(0, e)
                e = e.func.value
            # the grouped frame through a name: the last binding of it before the groupby
            if isinstance(e, ast.Name):
                ds = sorted((x for x in walk_no_nested(fn.node) if isinstance(x, ast.Assign) and len(x.targets) == 1 and
                             isinstance(x.targets[0], ast.Name) and x.targets[0].id == e.id and x.lineno < grp.lineno), key=lambda x: x.lineno)
                if ds:
                    e = ds[-1].value
                    continue
            break
        names = [c.func.attr for c in chain]
        gkey = unparse(grp.args[0]).strip("'\"[]") if grp.args else ""
        srt = [c for c in chain if c.func.attr == "sort_values"]
        skey = unparse(srt[0].args[0]).strip("'\"[]") if srt and srt[0].args else ""
        desc = srt and any(k.arg == "ascending" and unparse(k.value) == "False" for k in srt[0].keywords)
        if srt and names.index("sort_values") < names.index("groupby") and skey == "offset" and gkey == "column" and not desc:
            insts.append(R.ok(rid, "sort-then-group", file, grp.lineno, idiom="sort_values(offset) then groupby(column): each group is one column in time order"))
        else:
            insts.append(R.viol(rid, "sort-then-group", file, grp.lineno,
                                f"notes must be ordered by time and then split per column (found sort key '{skey or 'none'}'"
                                f"{' descending' if desc else ''}, group key '{gkey}'): 'next note of the column' is otherwise "
                                f"not the next row", construct=" . ".join(names) + f" sort={skey} group={gkey}"))
    # (b) gap to next = diff().shift(-1) of the offset
    d = [n for kind, nm, n in _gap_sources(fn) if (kind == "column" and nm == "diff") or kind == "series"]
    if len(d) != 1:
        insts.append(R.undec(rid, "gap-to-next", file, outer.lineno, "computation of the gap to the next note not found"))
    else:
        v = d[0].value
        t_ = unparse(v).replace('"', "'").replace(" ", "")
        import re as _re
        # per-group form: G['offset'].diff().shift(-1)  (or G['offset'].shift(-1) - G['offset'])
        f1 = _re.fullmatch(r"(\w+)\['offset'\]\.diff\(\)\.shift\(-1\)", t_) or \
            (lambda m_: m_ if m_ and m_.group(1) == m_.group(2) else None)(_re.fullmatch(r"(\w+)\['offset'\]\.shift\(-1\)-(\w+)\['offset'\]", t_))
        # whole-frame form: F.groupby('column')['offset'].shift(-1) - F['offset']
        f2 = (lambda m_: m_ if m_ and m_.group(1) == m_.group(2) else None)(
            _re.fullmatch(r"(\w+)\.groupby\('column'\)\['offset'\]\.shift\(-1\)-(\w+)\['offset'\]", t_))
        # whole-frame form, per-group lambda: F.groupby('column')['offset'].transform(lambda o: o.diff().shift(-1))
        f3 = (lambda m_: m_ if m_ and m_.group(2) == m_.group(3) else None)(
            _re.fullmatch(r"(\w+)\.groupby\('column'\)\['offset'\]\.(?:transform|apply)\(lambda(\w+):(\w+)\.diff\(\)\.shift\(-1\)\)", t_))
        # list form: G['offset'].diff().tolist()[1:] + [nan]  — the diffs moved up one place, none for the last row
        f4 = _re.fullmatch(r"(\w+)\['offset'\]\.diff\(\)\.(?:tolist|to_list)\(\)\[1:\]\+\[(?:np\.nan|numpy\.nan|float\('nan'\)|math\.nan|nan)\]", t_)
        f1 = f1 or f3 or f4
        ops_ = {x.func.attr for x in ast.walk(v) if isinstance(x, ast.Call) and isinstance(x.func, ast.Attribute)}
        if f1 or f2:
            insts.append(R.ok(rid, "gap-to-next", file, d[0].lineno, idiom="next offset of the same column - own offset (diff().shift(-1) / shift(-1) - offset)"))
        elif ops_ and ops_ <= {"diff", "shift", "groupby", "transform", "apply"}:
            insts.append(R.viol(rid, "gap-to-next", file, d[0].lineno,
                                f"the gap must be (next note's time - own time) = diff().shift(-1); found {unparse(v)}",
                                construct=unparse(v)))
        else:
            insts.append(R.undec(rid, "gap-to-next", file, d[0].lineno, f"gap expression not recognised: {unparse(v)}"))
    # (c)/(d) over the paths of the per-row body, every test and every appended note written over the row's inputs
    try:
        paths = _row_paths(inner)
    except OverflowError:
        insts.append(R.undec(rid, "decision-table", file, inner.lineno, "too many paths through the per-row body"))
        return insts
    want_len = f"diff - {gap}"
    compared = []          # the expressions compared with the threshold

    def isnan_of(t, name):
        return isinstance(t, ast.Call) and call_name(t) in ("isnan", "isna", "isnull") and len(t.args) == 1 and unparse(t.args[0]) == name

    def cls(t: ast.AST) -> Optional[str]:
        if isnan_of(t, "diff"):
            return "last"
        if isnan_of(t, "length"):
            return "was_hit"
        if isinstance(t, ast.Compare) and len(t.ops) == 1:
            l, r = t.left, t.comparators[0]
            op = type(t.ops[0])
            if unparse(r) == thres:
                other, tab = l, {ast.GtE: "long_enough", ast.Gt: "long_enough_strict", ast.Lt: "!long_enough", ast.LtE: "!long_enough_strict"}
            elif unparse(l) == thres:
                other, tab = r, {ast.LtE: "long_enough", ast.Lt: "long_enough_strict", ast.Gt: "!long_enough", ast.GtE: "!long_enough_strict"}
            else:
                return None
            # the last-note case folded into the compared value: (length if isnan(diff) else diff - gap) >= threshold
            if isinstance(other, ast.IfExp) and isnan_of(other.test, "diff"):
                return "folded"
            compared.append(other)
            return tab.get(op)
        return None
    if paths and not any(_note_appends(p_) for p_ in paths):
        insts.append(R.undec(rid, "decision-table", file, inner.lineno,
                             "the per-row body appends to intermediate lists only; how they are split into hits and holds afterwards is not followed"))
        return insts
    table = {}
    und = None
    for pth in paths:
        facts = {}
        for t, pol in pth.conds:
            c = cls(t)
            if c is None:
                und = unparse(t)
                continue
            if c == "folded":
                facts["folded"] = True
                continue
            if c.startswith("!"):
                c, pol = c[1:], not pol
            facts[c] = pol
        apps = _note_appends(pth)
        if len(apps) == 1:
            kw = _note_fields(apps[0][1]) or {}
            table[tuple(sorted(facts.items()))] = (apps[0][0], kw.get("length"))
    # (c) the value compared with the threshold, and written as the generated hold's length: (gap to next) - gap, nothing else
    cmp0 = compared[0] if compared else None
    if cmp0 is None:
        insts.append(R.undec(rid, "hold-length", file, inner.lineno, "hold length expression not recognised"))
    elif isinstance(cmp0, ast.Call) and call_name(cmp0) in ("max", "min", "abs", "clip", "round", "int"):
        insts.append(R.viol(rid, "hold-length", file, getattr(cmp0, "lineno", inner.lineno),
                            f"the length compared with the threshold is '{unparse(cmp0)}', not (gap to next) - {gap} itself: clamping or "
                            f"rounding changes the hit/hold decision (with threshold 0 a note closer than '{gap}' to the next one "
                            f"becomes a zero-length hold instead of a hit)", construct=unparse(cmp0)))
    elif sym.same_formula(cmp0, want_len):
        insts.append(R.ok(rid, "hold-length", file, getattr(cmp0, "lineno", inner.lineno),
                          idiom=f"length = gap to next - {gap}: the hold ends exactly {gap} before the next note"))
    elif sym.only_modelled(cmp0, {"diff", gap, thres}):
        insts.append(R.viol(rid, "hold-length", file, getattr(cmp0, "lineno", inner.lineno),
                            f"a generated hold must end exactly '{gap}' before the next note: length = (gap to next) - {gap}",
                            construct=unparse(cmp0)))
    else:
        insts.append(R.undec(rid, "hold-length", file, inner.lineno, "hold length expression not recognised"))
    # (d) decision table
    folded = any("folded" in dict(k) for k in table) or any(cls(t) == "folded" for pth in paths for t, _ in pth.conds)
    if folded:
        insts.append(R.viol(rid, "decision-table", file, inner.lineno,
                            "the last note of a column is sent through the threshold test with its own length: a final hold shorter than "
                            "the threshold is turned into a hit, although the last note keeps its kind and length",
                            construct="last-note case folded into the threshold comparison"))
    elif und is not None and _sign_test_of_gap(und):
        insts.append(R.viol(rid, "decision-table", file, inner.lineno,
                            f"the last note of a column is the one WITHOUT a next note (its gap is NaN); the branch tests the gap's sign "
                            f"('{und[:60]}'), which also decides for two notes of one column at the same time (gap 0): one of them is "
                            f"treated as the last note and keeps its length, and which one depends on the row order",
                            construct=f"gap compared with 0: {und[:80]}"))
    elif und is not None and _sign_test_of_gap(und, "length"):
        insts.append(R.viol(rid, "decision-table", file, inner.lineno,
                            f"'was a hit' means the stacked row has NO length (NaN); the branch tests the length's sign ('{und[:60]}'), which "
                            f"also holds for a hold of length 0 (or less): such a hold, as the last note of its column, comes out as a hit "
                            f"although the last note keeps its kind and length", construct=f"length compared with 0: {und[:80]}"))
    elif und is not None:
        insts.append(R.undec(rid, "decision-table", file, inner.lineno,
                             f"a branch condition ('{und[:60]}') is not one of: last note / was a hit / long enough"))
    else:
        def len_kind(e):
            if e is None:
                return None
            if unparse(e) == "length":
                return "length"
            if sym.same_formula(e, want_len) or (cmp0 is not None and unparse(e) == unparse(cmp0)):
                return "inv_length"
            return unparse(e)
        want = {
            (("last", True), ("was_hit", True)): ("hits", None),
            (("last", True), ("was_hit", False)): ("holds", "length"),
            (("last", False), ("long_enough", True)): ("holds", "inv_length"),
            (("last", False), ("long_enough", False)): ("hits", None),
        }
        strict = any("long_enough_strict" in dict(k) for k in table)
        got = {tuple((a.replace("_strict", ""), b) for a, b in k): (v[0], len_kind(v[1])) for k, v in table.items()}
        probs = []
        if strict:
            probs.append("the threshold comparison is strict: a gap that leaves exactly the threshold length becomes a hit, the rule says 'at least'")
        for k, v in want.items():
            kk = tuple(sorted(k))
            g = got.get(kk)
            if g is None:
                # the code may test more than the case needs (e.g. was_hit on a non-last note with the same outcome on both arms)
                sup = [val for key_, val in got.items() if set(kk) <= set(key_)]
                if sup and all(x == sup[0] for x in sup):
                    g = sup[0]
            if g != v:
                probs.append(f"case {dict(k)} yields {g} instead of {v}")
        if probs:
            insts.append(R.viol(rid, "decision-table", file, inner.lineno, "; ".join(probs), construct="; ".join(probs)))
        else:
            insts.append(R.ok(rid, "decision-table", file, inner.lineno,
                              idiom="last note keeps kind and length; otherwise hold(gap-to-next - gap) iff >= threshold else hit"))
    return insts


def rule_r3(ctx) -> List[R.Inst]:
    M, E = ctx.M, ctx.E
    rid = "C17.R3"
    fn = _fn(ctx)
    file = M.mods[fn.mod].rel
    insts = []
    s = E.summary(FULL_LN)
    if s.mut:
        (p, f), sites = sorted(s.mut.items())[0]
        insts.append(R.viol(rid, "works-on-copy", file, sites[0].line, f"full_ln modifies its input '{p}': {sites[0].text}",
                            construct=sites[0].text))
    else:
        insts.append(R.ok(rid, "works-on-copy", file, fn.node.lineno, idiom="every write is rooted in m.deepcopy()"))
    p0 = params_of(fn.node)[0]
    written = sorted({n.targets[0].attr for n in walk_no_nested(fn.node) if isinstance(n, ast.Assign) and
                      isinstance(n.targets[0], ast.Attribute) and isinstance(n.targets[0].value, ast.Name) and
                      n.targets[0].value.id == p0})
    if written == ["hits", "holds"]:
        insts.append(R.ok(rid, "write-set", file, fn.node.lineno, idiom="only hits and holds of the copy are reassigned"))
    else:
        insts.append(R.viol(rid, "write-set", file, fn.node.lineno,
                            f"full_ln reassigns {written}; only the hit and hold lists may change (tempo and other lists stay)",
                            construct=f"writes {written}"))
    # the new lists are built by the chart's own list classes from the collected dicts
    for slot in ("hits", "holds"):
        a = [n for n in walk_no_nested(fn.node) if isinstance(n, ast.Assign) and isinstance(n.targets[0], ast.Attribute) and
             n.targets[0].attr == slot]
        key = f"rebuild:{slot}"
        if len(a) == 1:
            # (the list class named first: cls = type(m.hits); m.hits = cls.from_dict(hits))
            v_ = inline_locals(fn.node, a[0].value)
            if unparse(v_) != unparse(a[0].value) and isinstance(v_, ast.Call) and v_.args and isinstance(a[0].value, ast.Call) and a[0].value.args:
                v_.args[0] = a[0].value.args[0]       # the record list itself stays a name (its role is decided by _sinks)
                a = [ast.copy_location(ast.Assign(targets=a[0].targets, value=v_), a[0])]
                ast.fix_missing_locations(a[0])
        def _records(e):
            """the record list handed over: a name, or `name if <name non-empty> else []` (an empty collection handed over as [])"""
            if isinstance(e, ast.IfExp):
                arms = [x for x in (e.body, e.orelse) if not (isinstance(x, (ast.List, ast.Tuple)) and not x.elts)]
                if len(arms) == 1 and isinstance(arms[0], ast.Name) and any(isinstance(x, ast.Name) and x.id == arms[0].id for x in ast.walk(e.test)):
                    return arms[0]
            return e
        if len(a) == 1 and isinstance(a[0].value, ast.Call) and call_name(a[0].value) == "from_dict" and \
                unparse(a[0].value.func.value) in (f"type({p0}.{slot})", f"{p0}.{slot}.__class__") and \
                a[0].value.args and isinstance(_records(a[0].value.args[0]), ast.Name) and _sinks(fn).get(_records(a[0].value.args[0]).id) in (slot, None) and \
                (_sinks(fn).get(_records(a[0].value.args[0]).id) == slot or _records(a[0].value.args[0]).id == slot):
            # (which records the list named there holds — hits without, holds with a length — is decided per path by R1)
            insts.append(R.ok(rid, key, file, a[0].lineno, idiom=f"type(m.{slot}).from_dict({slot})"))
        else:
            insts.append(R.viol(rid, key, file, (a[0] if a else fn.node).lineno,
                                f"m.{slot} must be rebuilt by its own list class from the collected '{slot}' records",
                                construct=unparse(a[0]) if a else f"no assignment to {slot}"))
    return insts


def stack_filter_classes(ctx) -> List[str]:
    """list base classes the notes are selected by: m.stack((HitList, HoldList))"""
    M = ctx.M
    fn = _fn(ctx)
    for n in walk_no_nested(fn.node):
        if isinstance(n, ast.Call) and call_name(n) == "stack" and n.args:
            a = n.args[0]
            elts = a.elts if isinstance(a, (ast.Tuple, ast.List)) else [a]
            out = []
            for e in elts:
                r = M.resolve_expr(fn.mod, e)
                if r and r[0] == "class":
                    out.append(r[1])
            return out
    if any(isinstance(n, ast.Call) and call_name(n) == "stack" for n in walk_no_nested(fn.node)):
        return []
    # the lists of the chart picked by class, one by one: [.. for v in m.objs.values() if isinstance(v, (HitList, HoldList))]
    for n in walk_no_nested(fn.node):
        if isinstance(n, (ast.ListComp, ast.GeneratorExp)) and len(n.generators) == 1 and len(n.generators[0].ifs) == 1 and \
                isinstance(n.generators[0].target, ast.Name) and unparse(n.generators[0].iter).endswith(".objs.values()"):
            t = n.generators[0].ifs[0]
            if isinstance(t, ast.Call) and call_name(t) == "isinstance" and len(t.args) == 2 and isinstance(t.args[0], ast.Name) and \
                    t.args[0].id == n.generators[0].target.id:
                a = t.args[1]
                out = []
                for e in (a.elts if isinstance(a, (ast.Tuple, ast.List)) else [a]):
                    r = M.resolve_expr(fn.mod, e)
                    if r and r[0] == "class":
                        out.append(r[1])
                return out
    return None


def rule_r4(ctx) -> List[R.Inst]:
    M = ctx.M
    rid = "C17.R4"
    fn = _fn(ctx)
    file = M.mods[fn.mod].rel
    flt = stack_filter_classes(ctx)
    if flt is None:
        return [R.undec(rid, "note-filter", file, fn.node.lineno, "how the notes are selected (a stack with a type filter, an isinstance test "
                                                                  "over the chart's lists) was not found")]
    if sorted(flt) != sorted([HITLIST, HOLDLIST]):
        return [R.viol(rid, "note-filter", file, fn.node.lineno,
                       f"notes are selected by {[short(c) for c in flt] or 'no type filter'}; the rule is about hits and holds",
                       construct=f"stack filter {[short(c) for c in flt]}")]
    insts = [R.ok(rid, "note-filter", file, fn.node.lineno, idiom="stack((HitList, HoldList))")]
    for chart in concrete_classes(M, "chart"):
        slots = M.map_slots(chart)
        read = sorted(s for s, lc in slots.items() if any(M.is_sub(lc, b) for b in flt))
        key = f"{chart.rsplit('.', 1)[1]}:read=write"
        cfile = M.mods[M.cls(chart).mod].rel
        if read == ["hits", "holds"]:
            insts.append(R.ok(rid, key, cfile, M.cls(chart).node.lineno, idiom="lists selected by the filter = lists rewritten (hits, holds)"))
        else:
            extra = [s for s in read if s not in ("hits", "holds")]
            insts.append(R.viol(rid, key, cfile, M.cls(chart).node.lineno,
                                f"the note filter also selects {extra} (hit/hold-typed lists of this game); their objects are folded "
                                f"into the new hits/holds AND kept in their own lists: the result has more notes than the input",
                                construct=f"{chart.rsplit('.', 1)[1]}: reads {read}, writes ['hits', 'holds']"))
    return insts


def rule_dep(ctx):
    """obligations inherited from shared code reached through the call graph (sa/props/deps.py)"""
    from .deps import dep_insts
    return dep_insts(ctx, "C17", [FULL_LN], skip_groups=())


SPECS = [
    RuleSpec("C17.R1", rule_r1, 6, "A8", "one output note per input note on every path, carrying offset and column; positional row unpack"),
    RuleSpec("C17.R2", rule_r2, 6, "A7", "sorted by time then grouped by column; gap = next - own; length = gap - 'gap'; decision table"),
    RuleSpec("C17.R3", rule_r3, 4, "A3", "works on a deep copy; reassigns only hits and holds, rebuilt by their own classes"),
    RuleSpec("C17.R4", rule_r4, 7, "A2", "lists selected by the note filter = lists rewritten, for every chart class"),
    RuleSpec("C17.D", rule_dep, 1, "M0", "rules of the shared code (timing engine, list classes, stacker) that the operations of this property reach"),
]

META = dict(
    explanation=(
        "full_ln: every path through the per-row body (enumerated with its branch conditions) appends exactly one note "
        "carrying the row's offset and column, rows are unpacked in the order of the projected columns; notes are "
        "sorted by offset and then grouped by column, the gap to the next note is diff().shift(-1) of the offsets "
        "(symbolic index algebra), a generated hold has length gap-to-next minus 'gap', and the decision table over the "
        "three conditions (last note of the column / was a hit / at least the threshold) equals the stated rule; the "
        "function works on a deep copy (effect analysis) and reassigns only hits and holds through their own list "
        "classes; and for every chart class the lists selected by the (HitList, HoldList) filter are exactly the lists "
        "rewritten. 'was a hit' is the absence of a length, not its sign (R2)."),
    not_decided="notes stacked at one time in one column (either processing order accepted), float comparison at the threshold",
)
