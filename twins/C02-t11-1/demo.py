"""Demo / regression digest for property C02 (StepMania reading).

Generates several dozen .sm texts inside (and a few just outside) the
quantified domain, reads them with SMMapSet.read, also calls the lower level
readers (SMMapSetMeta._read_metadata, SMMap.read, SMMapSet._read_maps)
directly, and prints a sha256 over a canonical dump of everything that came
out (values, dtypes, column order, row labels, exception types, and the
arguments afterwards).
"""
import copy
import hashlib
import logging
import random
from fractions import Fraction

import numpy as np
import pandas as pd

logging.disable(logging.CRITICAL)

from reamber.sm.SMMap import SMMap
from reamber.sm.SMMapMeta import SMMapChartTypes
from reamber.sm.SMMapSet import SMMapSet
from reamber.sm.lists.SMStopList import SMStopList

OUT = []


def emit(*parts):
    OUT.append(" | ".join(str(p) for p in parts))


# --------------------------------------------------------------------------
# canonical dumps
# --------------------------------------------------------------------------
def dump_value(v):
    if isinstance(v, (float, np.floating)):
        return f"{type(v).__name__}:{float(v).hex()}"
    if isinstance(v, (list, tuple)):
        return type(v).__name__ + "[" + ",".join(dump_value(x) for x in v) + "]"
    return f"{type(v).__name__}:{v!r}"


def dump_df(name, df: pd.DataFrame):
    emit("  df", name, type(df).__name__, "shape", df.shape)
    emit("    columns", list(df.columns), "dtypes", [str(t) for t in df.dtypes])
    emit("    index", type(df.index).__name__, str(df.index.dtype), list(df.index))
    for row in df.itertuples(index=True, name=None):
        emit("    row", ",".join(dump_value(x) for x in row))


def dump_timed_list(name, tl):
    emit("  list", name, type(tl).__name__, "len", len(tl))
    dump_df(name, tl.df)


META_FIELDS = [
    "title", "subtitle", "artist", "title_translit", "subtitle_translit",
    "artist_translit", "genre", "credit", "banner", "background",
    "lyrics_path", "cd_title", "music", "offset", "sample_start",
    "sample_length", "display_bpm", "selectable", "bg_changes", "fg_changes",
]
MAP_FIELDS = ["chart_type", "description", "difficulty", "difficulty_val",
              "groove_radar"]
MAP_LISTS = ["hits", "holds", "rolls", "mines", "lifts", "fakes", "keysounds",
             "bpms", "stops"]


def dump_map(m: SMMap):
    emit(" map", type(m).__name__)
    for f in MAP_FIELDS:
        emit("  field", f, dump_value(getattr(m, f)))
    emit("  objs keys", sorted(m.objs.keys()))
    for name in MAP_LISTS:
        dump_timed_list(name, getattr(m, name))


def dump_meta(ms):
    for f in META_FIELDS:
        emit(" meta", f, dump_value(getattr(ms, f)))


def dump_mapset(ms: SMMapSet):
    emit("mapset", type(ms).__name__, "n_maps", len(ms.maps))
    dump_meta(ms)
    for m in ms.maps:
        dump_map(m)


def dump_bcs(bcs_s):
    if bcs_s is None:
        emit(" bcs None")
        return
    emit(" bcs", type(bcs_s).__name__, len(bcs_s))
    for b in bcs_s:
        emit("  bcs", dump_value(b.bpm), dump_value(b.metronome),
             dump_value(b.snap.measure), repr(b.snap.beat),
             type(b.snap.beat).__name__, dump_value(b.snap.metronome))


def attempt(label, fn):
    emit("CASE", label)
    try:
        res = fn()
    except Exception as e:  # noqa
        emit(" raised", type(e).__name__)
        return None
    return res


# --------------------------------------------------------------------------
# generator of .sm texts
# --------------------------------------------------------------------------
CHART_KEYS = [
    ("dance-single", 4), ("dance-double", 8), ("dance-solo", 6),
    ("dance-couple", 4), ("dance-threepanel", 3), ("dance-routine", 8),
    ("kb7-single", 7), ("pump-single", 5), ("pump-double", 10),
    ("pump-halfdouble", 6), ("bm-single5", 6), ("bm-single7", 8),
    ("bm-double7", 16), ("pnm-nine", 9), ("techno-double8", 16),
    ("kickbox-human", 4), ("maniax-double", 8), ("ez2-real", 7),
    ("some-unknown-type", 18), ("one-key", 1),
]
ROWS = [4, 8, 12, 16, 24, 32, 48, 64, 96, 192]
DIFFS = ["Beginner", "Easy", "Medium", "Hard", "Challenge", "Edit"]
SIMPLE = "1MLFK"


def gen_chart_body(rng, keys, n_measures, density, close_all=True,
                   comments=False, blanks=False):
    """Returns the note data text of one chart"""
    open_kind = [None] * keys  # open hold/roll per column
    measures = []
    for mi in range(n_measures):
        rows = rng.choice(ROWS)
        lines = []
        for r in range(rows):
            row = []
            for c in range(keys):
                last_row = mi == n_measures - 1 and r == rows - 1
                if open_kind[c] is not None:
                    if (close_all and last_row) or rng.random() < 0.15:
                        row.append("3")
                        open_kind[c] = None
                    else:
                        row.append("0")
                    continue
                if rng.random() >= density:
                    row.append("0")
                    continue
                kind = rng.random()
                if kind < 0.2 and not last_row:
                    row.append("2")
                    open_kind[c] = "2"
                elif kind < 0.35 and not last_row:
                    row.append("4")
                    open_kind[c] = "4"
                elif kind < 0.6:
                    row.append("1")
                else:
                    row.append(rng.choice(SIMPLE))
            lines.append("".join(row))
        out_lines = []
        if comments and rng.random() < 0.7:
            out_lines.append(f"  // measure {mi}")
        for ln in lines:
            pad = rng.choice(["", " ", "  ", "\t"]) if blanks else ""
            out_lines.append(pad + ln + pad)
            if blanks and rng.random() < 0.1:
                out_lines.append("")
            if comments and rng.random() < 0.05:
                out_lines.append("// inner, with : and ; and , inside")
        measures.append("\n".join(out_lines))
    return "\n,\n".join(measures) + "\n"


def gen_bpms(rng, n, total_beats, fine=False):
    """Tempo changes on the 1/48 grid, first at beat 0"""
    beats = {Fraction(0)}
    while len(beats) < n:
        if fine:
            beats.add(Fraction(rng.randrange(1, total_beats * 48), 48))
        else:
            beats.add(Fraction(rng.randrange(1, total_beats * 4), 4))
    beats = sorted(beats)
    out = []
    for b in beats:
        bpm = rng.choice([60, 90, 120, 150, 174.5, 200, 222.22, 87.125, 300, 45])
        out.append((b, bpm))
    return out


def fmt_beat(rng, b: Fraction):
    f = float(b)
    return rng.choice([repr(f), f"{f:.6f}", f"{f:.3f}"]) if (
        b.denominator in (1, 2, 4, 8, 16)) else repr(f)


def gen_sm(rng, n_charts, n_bpms, fine=False, comments=False, blanks=False,
           offset="rand", shuffle_bpms=False, stops=None, extra_tags=True,
           close_all=True, density=0.12, n_measures=None, chart_choices=None):
    n_measures = n_measures or rng.randint(1, 5)
    bpms = gen_bpms(rng, n_bpms, n_measures * 4, fine)
    if shuffle_bpms:
        head, tail = bpms[:1], bpms[1:]
        rng.shuffle(tail)
        bpms = head + tail
    sep = rng.choice([",", ",\n", "\n,"])
    bpm_txt = sep.join(f"{fmt_beat(rng, b)}={bpm}" for b, bpm in bpms)
    tags = []
    if extra_tags:
        tags += [
            ("TITLE", rng.choice(["Song", "A: B", "  padded  ", "", "#hash"])),
            ("SUBTITLE", rng.choice(["", "sub"])),
            ("ARTIST", rng.choice(["me", "them & us", "x#y"])),
            ("TITLETRANSLIT", rng.choice(["", "tt"])),
            ("SUBTITLETRANSLIT", ""),
            ("ARTISTTRANSLIT", rng.choice(["", "at"])),
            ("GENRE", rng.choice(["", "Core"])),
            ("CREDIT", rng.choice(["", "cr"])),
            ("BANNER", "bn.png"),
            ("BACKGROUND", "bg.png"),
            ("LYRICSPATH", rng.choice(["", "ly.lrc"])),
            ("CDTITLE", "cd.png"),
            ("MUSIC", "audio.mp3"),
        ]
    if offset == "rand":
        off = rng.choice(["0", "0.000", "-0.5", "1.25", "-12.345", "0.009"])
        tags.append(("OFFSET", off))
    elif offset is not None:
        tags.append(("OFFSET", offset))
    tags.append(("BPMS", bpm_txt))
    if stops is not None:
        tags.append(("STOPS", stops))
    if extra_tags:
        tags += [
            ("SAMPLESTART", rng.choice(["0", "12.5", "100.125"])),
            ("SAMPLELENGTH", rng.choice(["10", "15.000"])),
            ("DISPLAYBPM", rng.choice(["*", "120", "100:200", ""])),
            ("SELECTABLE", rng.choice(["YES", "NO", "yes", ""])),
            ("BGCHANGES", rng.choice(["", "0=a.png=1"])),
            ("FGCHANGES", ""),
            ("UNKNOWNTAG", "whatever"),
        ]
    parts = []
    for name, val in tags:
        if comments and rng.random() < 0.3:
            parts.append(f"// comment before {name} with : ; , #X:1;\n")
        lead = rng.choice(["", " ", "\n"]) if blanks else ""
        parts.append(f"{lead}#{name}:{val};\n")
        if blanks and rng.random() < 0.2:
            parts.append("\n\n")
    for _ in range(n_charts):
        ct, keys = rng.choice(chart_choices or CHART_KEYS)
        radar = ",".join(
            rng.choice(["0", "0.5", "1.000", "0.123"]) for _ in range(5))
        if comments:
            parts.append(f"//--------- {ct} - desc ----------\n")
        body = gen_chart_body(rng, keys, n_measures, density, close_all,
                              comments, blanks)
        ind = rng.choice(["     ", "", "\t"])
        parts.append(
            f"#NOTES:\n{ind}{ct}:\n{ind}{rng.choice(['', 'desc', 'K. Ward'])}:\n"
            f"{ind}{rng.choice(DIFFS)}:\n{ind}{rng.randint(1, 25)}:\n"
            f"{ind}{radar}:\n{body};\n"
        )
    return "".join(parts)


# --------------------------------------------------------------------------
# cases
# --------------------------------------------------------------------------
def full_read(label, text):
    ms = attempt(label, lambda: SMMapSet.read(text))
    if ms is not None:
        dump_mapset(ms)


def lower_level(label, text):
    """Drives _read_metadata / _read_maps / SMMap.read by hand, like
    SMMapSet.read does, and checks that the arguments stay untouched"""
    tokens = [t.strip() for t in text.split(";")]
    maps = [t for t in tokens if "#NOTES:" in t]
    meta = [t for t in tokens if "#NOTES:" not in t]
    meta_before = list(meta)
    maps_before = list(maps)

    ms = SMMapSet()
    res = attempt(label + " _read_metadata", lambda: ms._read_metadata(meta))
    emit(" meta arg unchanged", meta == meta_before)
    dump_meta(ms)
    if res is None:
        return
    bcs_s, stops = res
    emit(" result type", type(res).__name__, len(res))
    dump_bcs(bcs_s)
    dump_timed_list("stops", stops)

    bcs_copy = copy.deepcopy(bcs_s)
    stops_copy = stops.deepcopy()
    r = attempt(label + " _read_maps",
                lambda: ms._read_maps(maps=maps, bcs_s=bcs_s, stops=stops))
    emit(" _read_maps returned", repr(r))
    emit(" maps arg unchanged", maps == maps_before)
    emit(" bcs arg unchanged", bcs_s == bcs_copy)
    emit(" stops arg unchanged", stops.df.equals(stops_copy.df),
         list(stops.df.columns), [str(t) for t in stops.df.dtypes])
    emit(" maps container", type(ms.maps).__name__, len(ms.maps))
    for m in ms.maps:
        dump_map(m)
    # One by one through the static reader, positional arguments
    for i, s in enumerate(maps):
        m = attempt(f"{label} SMMap.read {i}",
                    lambda: SMMap.read(s, bcs_s, ms.offset, stops))
        if m is not None:
            dump_map(m)
    emit(" bcs arg unchanged after", bcs_s == bcs_copy)


def main():
    rng = random.Random(20261001)

    # ---- inside the domain: generated files ------------------------------
    for i in range(30):
        text = gen_sm(
            rng,
            n_charts=rng.choice([0, 1, 1, 2, 3, 4]),
            n_bpms=rng.choice([1, 1, 2, 3, 5, 8]),
            fine=rng.random() < 0.4,
            comments=rng.random() < 0.5,
            blanks=rng.random() < 0.5,
            shuffle_bpms=rng.random() < 0.3,
            density=rng.choice([0.02, 0.1, 0.3, 0.8]),
            stops=rng.choice([None, None, ""]),
        )
        full_read(f"gen {i}", text)
        if i % 3 == 0:
            lower_level(f"gen {i} low", text)
        if i % 5 == 0:
            full_read(f"gen {i} as lines", text.split("\n"))

    # ---- every supported chart type, one chart each -----------------------
    for ct, keys in CHART_KEYS:
        text = gen_sm(rng, 1, 2, chart_choices=[(ct, keys)], density=0.25,
                      n_measures=2)
        full_read(f"type {ct}", text)
    for name in sorted(n for n in vars(SMMapChartTypes) if n.isupper()):
        ct = getattr(SMMapChartTypes, name)
        emit("keys", ct, SMMapChartTypes.get_keys(ct))

    # ---- edge cases -----------------------------------------------------
    empty_chart = ("#NOTES:\n dance-single:\n:\n Easy:\n 1:\n 0,0,0,0,0:\n"
                   "0000\n0000\n0000\n0000\n;\n")
    one_note = ("#NOTES:\n dance-single:\n d:\n Hard:\n 9:\n 1,2,3,4,5:\n"
                "0000\n0000\n0000\n0001\n;\n")
    full_read("no charts", "#TITLE:t;\n#OFFSET:0;\n#BPMS:0=120;\n")
    full_read("empty chart", "#OFFSET:0.1;\n#BPMS:0.000=120.000;\n" + empty_chart)
    full_read("no offset tag", "#BPMS:0=100;\n" + one_note)
    full_read("offset after bpms", "#BPMS:0=100,4=50;\n#OFFSET:-1.5;\n" + one_note * 2)
    full_read("empty stops", "#OFFSET:0;\n#BPMS:0=100;\n#STOPS:;\n" + one_note)
    full_read("duplicate tags",
              "#TITLE:a;#TITLE:b;#OFFSET:1;#OFFSET:2;#BPMS:0=10;#BPMS:0=240,2=60;\n"
              + one_note)
    full_read("comment glued to tag",
              "// HELLO\n#TITLE:WORLD;\n//x\n\n#OFFSET:0; // tail\n#BPMS:0=60; \n"
              + one_note)
    full_read("junk before tag", "junk#TITLE:T;x #ARTIST : A ;#OFFSET:0;#BPMS:0=60;\n"
              "#A#GENRE:G;nohash:val;:novalue;#:x;  ;\n" + one_note)
    full_read("lower case tags", "#title:t;#Offset:3;#OFFSET:0;#BPMS:0=60;\n" + one_note)
    full_read("selectable variants",
              "#SELECTABLE:NO;#OFFSET:0;#BPMS:0=60;#SELECTABLE: YES ;\n" + one_note)
    full_read("value with colons",
              "#TITLE:a:b:c;#DISPLAYBPM:100:200;#OFFSET:0;#BPMS:0=60;\n" + one_note)
    full_read("long description header",
              "#OFFSET:0;#BPMS:0=60;\n#NOTES:\n dance-single:\n a:\n Easy:\n 3:\n"
              " 0,0,0,0,0:\n extra:\n0001\n0010\n0100\n1000\n;\n")
    full_read("ties: all columns one row",
              "#OFFSET:0;#BPMS:0=60;\n#NOTES:\n dance-single:\n:\n Easy:\n 3:\n"
              " 0,0,0,0,0:\n1MLF\nK1K1\n2424\n3333\n;\n")
    full_read("many holds per column",
              "#OFFSET:-0.25;#BPMS:0=60,1=120,2.5=90;\n#NOTES:\n dance-solo:\n:\n"
              " Edit:\n 3:\n 0,0,0,0,0:\n"
              "240000\n330000\n420000\n330000\n,\n"
              "240000\n000000\n000000\n000000\n000000\n000000\n000000\n330001\n;\n")
    full_read("hold over measures + tempo change inside",
              "#OFFSET:0.5;#BPMS:0=100,3.5=200,6.25=50;\n#NOTES:\n kb7-single:\n:\n"
              " Edit:\n 3:\n 0,0,0,0,0:\n"
              "2000004\n0000000\n0000000\n0000000\n,\n"
              "0000000\n0000000\n0000000\n0000000\n,\n"
              "0000000\n0000000\n3000003\n0000000\n;\n")

    # ---- just outside the domain: same exceptions -------------------------
    full_read("no bpms tag", "#OFFSET:0;\n" + one_note)
    full_read("no bpms no charts", "#TITLE:x;\n")
    full_read("bad offset", "#OFFSET:abc;#BPMS:0=60;\n" + one_note)
    full_read("bad bpm", "#OFFSET:0;#BPMS:0=6x0;\n" + one_note)
    full_read("bpm without =", "#OFFSET:0;#BPMS:60;\n" + one_note)
    full_read("bpm with two =", "#OFFSET:0;#BPMS:0=60=1;\n" + one_note)
    full_read("empty bpms", "#OFFSET:0;#BPMS:;\n" + one_note)
    full_read("first bpm not at 0", "#OFFSET:0;#BPMS:1=60;\n" + one_note)
    full_read("tag without colon", "#OFFSET:0;#BPMS:0=60;#TITLE;\n" + one_note)
    full_read("unknown tag without colon", "#OFFSET:0;#BPMS:0=60;#WHAT;stray;\n" + one_note)
    full_read("offset without colon", "#OFFSET;#BPMS:0=60;\n" + one_note)
    full_read("bad sample start", "#OFFSET:0;#BPMS:0=60;#SAMPLESTART:;\n" + one_note)
    full_read("stops before bpms", "#OFFSET:0;#STOPS:1=1;#BPMS:0=60;\n" + one_note)
    full_read("stops before offset", "#BPMS:0=60;#STOPS:1=1;#OFFSET:0;\n" + one_note)
    full_read("with stops",
              "#OFFSET:0;#BPMS:0=60,2=120;#STOPS:1=0.5,3=0.25,\n2.5=1;\n"
              + one_note + one_note)
    full_read("bad stop", "#OFFSET:0;#BPMS:0=60;#STOPS:1;\n" + one_note)
    full_read("unclosed hold",
              "#OFFSET:0;#BPMS:0=60;\n#NOTES:\n dance-single:\n:\n Easy:\n 1:\n"
              " 0,0,0,0,0:\n2000\n0000\n0000\n0001\n;\n")
    full_read("unclosed roll after closed one",
              "#OFFSET:0;#BPMS:0=60;\n#NOTES:\n dance-single:\n:\n Easy:\n 1:\n"
              " 0,0,0,0,0:\n4000\n3000\n4000\n0001\n;\n")
    full_read("tail without head",
              "#OFFSET:0;#BPMS:0=60;\n#NOTES:\n dance-single:\n:\n Easy:\n 1:\n"
              " 0,0,0,0,0:\n3000\n0000\n0000\n0001\n;\n")
    full_read("short header",
              "#OFFSET:0;#BPMS:0=60;\n#NOTES:\n dance-single:\n:\n Easy:\n"
              "0000\n0000\n0000\n0001\n;\n")
    full_read("four header fields",
              "#OFFSET:0;#BPMS:0=60;\n#NOTES:\n dance-single:\n:\n Easy:\n 4:\n"
              "0000\n0000\n0000\n0001\n;\n")
    full_read("four header fields bad meter",
              "#OFFSET:0;#BPMS:0=60;\n#NOTES:\n dance-single:\n:\n Easy:\n x:\n"
              "0000\n0000\n0000\n0001\n;\n")
    full_read("bad meter",
              "#OFFSET:0;#BPMS:0=60;\n#NOTES:\n dance-single:\n:\n Easy:\n 1.5:\n"
              " 0,0,0,0,0:\n0000\n0000\n0000\n0001\n;\n")
    full_read("bad radar",
              "#OFFSET:0;#BPMS:0=60;\n#NOTES:\n dance-single:\n:\n Easy:\n 1:\n"
              " :\n0000\n0000\n0000\n0001\n;\n")
    full_read("notes only", "#NOTES:")
    full_read("too many columns",
              "#OFFSET:0;#BPMS:0=60;\n#NOTES:\n x:\n:\n Easy:\n 1:\n 0,0,0,0,0:\n"
              + ("0" * 18 + "1\n") * 4 + ";\n")
    full_read("unknown symbols",
              "#OFFSET:0;#BPMS:0=60;\n#NOTES:\n dance-single:\n:\n Easy:\n 1:\n"
              " 0,0,0,0,0:\nX000\n0k00\n00m0\n0009\n;\n")

    # ---- direct calls of _read_metadata on hand-made token lists ----------
    for label, lines in [
        ("direct empty", []),
        ("direct blanks", ["", "", ""]),
        ("direct basic", ["#TITLE:x", "", "#OFFSET:-0.1", "#BPMS:0=120,\n4=60"]),
        ("direct no offset", ["#BPMS:0=120"]),
        ("direct spaced", ["  #TITLE  :  x y  ", "#OFFSET : 1 ", "#BPMS : 0=1 , 1=2 "]),
    ]:
        before = list(lines)
        ms = SMMapSet()
        res = attempt(label, lambda: ms._read_metadata(lines))
        emit(" arg unchanged", lines == before)
        dump_meta(ms)
        if res is not None:
            dump_bcs(res[0])
            dump_timed_list("stops", res[1])
            emit(" stops type", type(res[1]) is SMStopList)

    digest = hashlib.sha256("\n".join(OUT).encode("utf8")).hexdigest()
    import sys; print(f"lines {len(OUT)}", file=sys.stderr)
    print(f"DIGEST {digest}")


if __name__ == "__main__":
    main()
