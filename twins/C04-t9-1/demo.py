"""Demo for C04: exercises BMSMap.read (line classification, header and note reading).

Run:  cd /tmp/wt7/C04 && PYTHONPATH=/tmp/wt7/C04 /venv/bin/python demo.py
Prints one line `DIGEST <sha256>` over a canonical dump of every result.
"""
import copy
import hashlib
import logging
import random
import warnings

from numpy import base_repr

from reamber.bms.BMSChannel import BMSChannel
from reamber.bms.BMSMap import BMSMap

warnings.simplefilter("ignore")
random.seed(20261001)

OUT = []


def emit(*parts):
    OUT.append(" | ".join(str(p) for p in parts))


class Capture(logging.Handler):
    """Collects the debug records of the BMS reader (they are part of what it does)"""

    def __init__(self):
        super().__init__(level=logging.DEBUG)
        self.records = []

    def emit(self, record):
        self.records.append(f"{record.levelname}:{record.getMessage()}")


CAPTURE = Capture()
bms_log = logging.getLogger("reamber.bms.BMSMap")
bms_log.setLevel(logging.DEBUG)
bms_log.addHandler(CAPTURE)
bms_log.propagate = False
logging.getLogger().setLevel(logging.CRITICAL)  # silence the "Reseating" warning

LAYOUTS = dict(
    BMS=BMSChannel.BMS,
    BME=BMSChannel.BME,
    PMS=BMSChannel.PMS,
    PMS_BME=BMSChannel.PMS_BME,
    PMS_5B=BMSChannel.PMS_5B,
)


def dump_df(name, df):
    emit(name, "columns", list(df.columns), "dtypes", [str(t) for t in df.dtypes])
    emit(name, "index", type(df.index).__name__, list(df.index))
    for col in df.columns:
        emit(name, col, [f"{type(v).__name__}:{v!r}" for v in df[col].tolist()])


def dump_map(m):
    dump_df("hits", m.hits.df)
    dump_df("holds", m.holds.df)
    dump_df("bpms", m.bpms.df)
    for attr in ("title", "artist", "version", "ln_end_channel"):
        v = getattr(m, attr)
        emit(attr, type(v).__name__, repr(v))
    emit("misc", type(m.misc).__name__, list(m.misc.items()))
    emit("exbpms", [(k, type(v).__name__, repr(v)) for k, v in m.exbpms.items()])
    emit("samples", list(m.samples.items()))
    emit("objs", list(m.objs.keys()))


def run_read(tag, lines, layout_name=None):
    """Reads, dumps the result or the exception, the log and the inputs afterwards"""
    emit("CASE", tag, layout_name)
    lines_before = copy.deepcopy(lines)
    config = LAYOUTS[layout_name] if layout_name else None
    config_before = copy.deepcopy(config)
    CAPTURE.records.clear()
    try:
        if config is None:
            m = BMSMap.read(lines)
        else:
            m = BMSMap.read(lines, note_channel_config=config)
    except BaseException as e:  # noqa
        emit("RAISED", type(e).__name__, repr(e.args))
    else:
        dump_map(m)
    emit("LOG", len(CAPTURE.records), hashlib.sha256(
        "\n".join(CAPTURE.records).encode("utf8", "backslashreplace")).hexdigest())
    emit("lines unchanged", lines == lines_before, type(lines).__name__)
    emit("config unchanged", config == config_before,
         list(config.items()) == list(config_before.items()) if config else None)
    for name, layout in LAYOUTS.items():  # the shipped layouts are never touched
        assert layout == PRISTINE[name] and list(layout) == list(PRISTINE[name])


PRISTINE = copy.deepcopy(LAYOUTS)

# --------------------------------------------------------------------------- #
# Generator of BMS texts of the quantified domain
# --------------------------------------------------------------------------- #
B36 = "0123456789ABCDEFGHIJKLMNOPQRSTUVWXYZ"
TITLES = ["Sea Road", "a  b   c", "星の器", "ﾃｽﾄ song", "title:with colon", "42", "x" * 60,
          "カタカナ ひらがな", "tab\tinside", "#hash in title", "¥ yen"]
ARTISTS = ["someone", "作者 / obj: 誰か", "A", "0", "a b"]
OTHER_HEADERS = [("GENRE", "genre one"), ("PLAYER", "1"), ("RANK", "2"), ("TOTAL", "300"),
                 ("STAGEFILE", "stage.bmp"), ("BMP01", "bg.bmp"), ("DIFFICULTY", "4"),
                 ("SUBTITLE", "[ANOTHER]"), ("LNTYPE", "1"), ("BPMS", "1"), ("BPMXYZ", "2"),
                 ("STOP01", "48"), ("WAVES", "x"), ("1ST", "first"), ("VOLWAV", "100")]


def ids(n, exclude=()):
    pool = [a + b for a in B36 for b in B36 if a + b != "00" and a + b not in exclude]
    return random.sample(pool, n)


def gen_text(layout_name, *, lnobj=True, tempo=True, shuffle=False, dup_lines=False,
             lower=False, crlf_ws=False, junk=False, zero_bpm_change=False):
    layout = LAYOUTS[layout_name]
    note_channels = [k.decode() for k, v in layout.items() if isinstance(v, int)]
    ln_id = random.choice(["ZZ", "ZY", "01", "zz"]) if lnobj else None
    wav_ids = ids(random.randint(0, 12), exclude=(ln_id,) if ln_id else ())
    exbpm_ids = ids(random.randint(1, 4)) if tempo else []

    head = [f"#TITLE {random.choice(TITLES)}", f"#ARTIST {random.choice(ARTISTS)}",
            f"#BPM {random.choice(['120', '133.33', '60', '200.5', '1e2', ' 150', '90 '])}",
            f"#PLAYLEVEL {random.randint(0, 25)}"]
    if random.random() < 0.2:
        head.pop(random.randrange(0, 2))  # no title / no artist
    if random.random() < 0.2:
        head = [h for h in head if not h.startswith("#PLAYLEVEL")]
    if ln_id:
        head.append(f"#LNOBJ {ln_id}")
    for k, v in random.sample(OTHER_HEADERS, random.randint(0, 6)):
        head.append(f"#{k} {v}")
    for i in exbpm_ids:
        key = "bpm" if lower and random.random() < 0.5 else "BPM"
        head.append(f"#{key}{i} {random.choice(['75.5', '180', '222.22', '33', '400'])}")
    for i in wav_ids:
        key = "wav" if lower and random.random() < 0.5 else "WAV"
        head.append(f"#{key}{i} {random.choice(['kick', 'スネア', 'dir/hat 01'])}{i}.wav")
    if random.random() < 0.3:
        head.append(random.choice(["#TITLE second title", "#ARTIST again", "#GENRE dup"]))
    if random.random() < 0.3:
        head.append(random.choice(["#TITLE", "#SUBARTIST", "#RANDOM", "#ENDIF", "#IF"]))

    body = []
    n_measures = random.randint(1, 6)
    measures = sorted(random.sample(range(0, 12), n_measures))
    open_ln = {}
    for measure in measures:
        for channel in note_channels:
            if random.random() < 0.5:
                continue
            for _ in range(2 if dup_lines and random.random() < 0.4 else 1):
                division = random.choice([1, 2, 3, 4, 6, 8, 12, 16, 24, 48, 192])
                cells = []
                for _i in range(division):
                    r = random.random()
                    if r < 0.6 or division > 24 and r < 0.95:
                        cells.append("00")
                    elif ln_id and open_ln.get(channel) and r < 0.8:
                        cells.append(ln_id)
                        open_ln[channel] = False
                    else:
                        cells.append(random.choice(wav_ids) if wav_ids and r < 0.97
                                     else random.choice(["0A", "a1", "Zz"]))
                        open_ln[channel] = True
                body.append(f"#{measure:03}{channel}:{''.join(cells)}")
        if random.random() < 0.4:  # a channel outside the layout (BGM / BGA)
            body.append(f"#{measure:03}{random.choice(['01', '04', '06', '1A', '31'])}:"
                        f"{''.join(random.choice(['00', '01', 'AB']) for _ in range(4))}")
        if tempo and random.random() < 0.6:
            division = random.choice([1, 2, 4, 8, 3])
            cells = ["00"] * division
            for pos in random.sample(range(division), random.randint(1, min(2, division))):
                cells[pos] = random.choice(["3C", "78", "B4", "FF", "1e", "5a"])
            if measure == 0 and not zero_bpm_change:
                cells[0] = "00"
            body.append(f"#{measure:03}03:{''.join(cells)}")
        if tempo and random.random() < 0.6:
            division = random.choice([1, 2, 4, 16])
            cells = ["00"] * division
            for pos in random.sample(range(division), 1):
                cells[pos] = random.choice(exbpm_ids)
            if measure == 0 and not zero_bpm_change:
                cells[0] = "00"
            body.append(f"#{measure:03}08:{''.join(cells)}")
    if zero_bpm_change:
        body.insert(0, "#00003:96")

    lines = head + [""] + body
    if shuffle:
        # an LN tail has to stay behind its head: shuffle blocks only when no LNOBJ is used
        if ln_id is None:
            random.shuffle(lines)
        else:
            random.shuffle(head)
            lines = body + ["", "*---- header below"] + head
    if junk:
        for _ in range(random.randint(1, 6)):
            lines.insert(random.randrange(len(lines) + 1), random.choice(
                ["", "   ", "*---------------------- HEADER FIELD", "; comment", "// x",
                 "plain text #BPM 5", "＃TITLE fullwidth hash", "é€ not shift-jis",
                 "%URL http://x", "00111:0101", "\t"]))
    if crlf_ws:
        lines = [random.choice(["", " ", "\t", "　"]) + ln +
                 random.choice(["", "\r\n", "\n", "  ", "\t\r\n", "　"]) for ln in lines]
    return lines


# --------------------------------------------------------------------------- #
# 1. generated texts
# --------------------------------------------------------------------------- #
n = 0
for layout_name in LAYOUTS:
    for flags in (
        dict(),
        dict(lnobj=False, tempo=False),
        dict(shuffle=True),
        dict(shuffle=True, lnobj=False),
        dict(dup_lines=True, lower=True),
        dict(crlf_ws=True, junk=True),
        dict(zero_bpm_change=True, dup_lines=True, junk=True),
        dict(lnobj=True, tempo=False, junk=True, crlf_ws=True, lower=True),
    ):
        for rep in range(2):
            n += 1
            run_read(f"gen{n} {sorted(flags.items())} {rep}", gen_text(layout_name, **flags),
                     layout_name)

# default layout argument, tuple / generator inputs
text = gen_text("BME", dup_lines=True)
run_read("default layout", list(text))
run_read("tuple input", tuple(text), "BME")
emit("CASE generator input")
dump_map(BMSMap.read((ln for ln in text), BMSChannel.BME))
# the same text under every layout
for layout_name in LAYOUTS:
    run_read("cross layout", list(text), layout_name)

# --------------------------------------------------------------------------- #
# 2. hand-written edge cases
# --------------------------------------------------------------------------- #
H = ["#TITLE t", "#ARTIST a", "#BPM 120", "#PLAYLEVEL 1"]
EDGE = {
    "empty list": [],
    "only blank": ["", "  ", "\t"],
    "no BPM header": ["#TITLE t", "#00111:01"],
    "only BPM": ["#BPM 150"],
    "headers only": H,
    "lower case bpm key only": ["#bpm 120"],
    "lone hash": H + ["#"],
    "lone hash first": ["#"] + H,
    "hash space": H + ["# x"],
    "hash digit no colon": H + ["#0"],
    "hash digits no colon": H + ["#00111"],
    "two colons": H + ["#00111:01:02"],
    "colon only": H + ["#00111:"],
    "short command": H + ["#1:01", "#001:0101", "#0011:01"],
    "long command": H + ["#0011100:01"],
    "valueless headers": H + ["#TITLE", "#ENDIF", "#a", "#:", "#:01"],
    "digit header with value": H + ["#1ST one", "#00111:01 02", "#9 9"],
    "space separated twice": H + ["#GENRE  two  spaces ", "#COMMENT a b c d"],
    "tab separated header": H + ["#GENRE\tgenre", "#00111:01\t"],
    "fullwidth space header": H + ["#GENRE　x"],
    "fullwidth digit": H + ["#００１１１:01"],
    "unencodable in command": H + ["#GENRE café €"],
    "unencodable before lone hash": H + ["#GENRE €", "#"],
    "lone hash before unencodable": H + ["#", "#GENRE €"],
    "unencodable in comment": H + ["café €", "#00111:01"],
    "yen and overline": H + ["#GENRE ¥‾", "#¥", "#‾0"],
    "halfwidth katakana": H + ["#ｱｲ x", "#ｱ"],
    "duplicate headers": H + ["#TITLE second", "#BPM 60", "#TITLE third"],
    "odd length sequence": H + ["#00111:011", "#00112:0"],
    "single char sequence": H + ["#00111:1"],
    "single zero sequence": H + ["#00111:0", "#00112:00", "#00113:0000"],
    "unknown channel": H + ["#00101:0101", "#001ZZ:01", "#00199:01"],
    "unmatched ln tail": H + ["#LNOBJ ZZ", "#00111:ZZ"],
    "tail before head (line order)": H + ["#LNOBJ ZZ", "#00211:ZZ", "#00111:01"],
    "lnobj after notes": H + ["#00111:01ZZ", "#LNOBJ ZZ"],
    "double tail": H + ["#LNOBJ ZZ", "#00111:0102ZZZZ", "#00211:03ZZ00ZZ"],
    "tail in other lane": H + ["#LNOBJ ZZ", "#00111:01", "#00112:ZZ"],
    "lnobj lower": H + ["#LNOBJ zz", "#00111:01ZZ", "#00112:01zz"],
    "unknown exbpm": H + ["#00108:01"],
    "exbpm known": H + ["#BPM01 99.5", "#00108:0001", "#00211:01"],
    "exbpm lower key": H + ["#bpm01 99.5", "#Bpm02 77", "#00108:0102", "#00211:01"],
    "bad exbpm value": H + ["#WAV01 a.wav", "#BPM01 abc", "#WAV02 b.wav"],
    "bad bpm value": ["#BPM fast"],
    "bad hex bpm": H + ["#00103:GG"],
    "bpm change at 0.0": H + ["#00003:3C", "#00011:01010101"],
    "bpm change at 0.0 twice": H + ["#00003:3C", "#00003:78", "#00111:01"],
    "bpm changes unsorted": H + ["#00303:3C", "#00103:0078", "#00203:B400", "#00411:01"],
    "hex lower": H + ["#00103:3c", "#00211:01"],
    "wav keys": H + ["#WAV01 a", "#WAVZZ z", "#wav02 b", "#WAV1 short", "#WAVEFORM f",
                     "#XWAV01 no", "#00111:0102ZZ1 "],
    "wav collides": H + ["#WAV01 first", "#WAVX01 second", "#00111:01"],
    "bpm five chars": H + ["#BPMAB 10", "#BPMA 11", "#BPMABC 12", "#BPM.5 13", "#00111:01"],
    "non numeric measure": H + ["#0a111:01"],
    "high measure": H + ["#99911:01", "#99803:3C"],
    "time signature": H + ["#00102:0.75", "#00111:0101", "#00211:01"],
    "everything in one": H + ["#LNOBJ ZZ", "#WAV01 a.wav", "#WAV02 b.wav", "#BPM01 133.5",
                              "#00111:0102", "#00211:01ZZ", "#00208:0001", "#00103:0000003C",
                              "#00116:01", "#00116:0002", "#00121:02000000ZZ000000"],
}
for tag, lines in EDGE.items():
    run_read("edge " + tag, list(lines), "BME")
    run_read("edge " + tag, list(lines), "PMS_5B")

# --------------------------------------------------------------------------- #
# 3. the two private readers called directly (their arguments afterwards)
# --------------------------------------------------------------------------- #
HEADERS = [
    {b"BPM": b"120"},
    {b"TITLE": b"t", b"BPM": b"120.5", b"WAV01": b"a", b"BPM01": b"60", b"GENRE": b"g",
     b"WAVZZ": b"z", b"bpm02": b"61", b"wav03": b"c", b"LNOBJ": b"ZZ", b"BPMXYZ": b"9"},
    {b"WAV01": b"a", b"BPM01": b"oops", b"WAV02": b"b", b"BPM02": b"3", b"BPM": b"1"},
    {b"WAV01": b"a", b"BPM01": b"5"},
    {b"BPM": b"x", b"BPM01": b"5", b"WAV01": b"a"},
    {},
]
for e, header in enumerate(HEADERS):
    emit("CASE _read_file_header", e)
    m = BMSMap()
    m.exbpms[b"QQ"] = 1.0
    m.samples[b"QQ"] = b"kept"
    data = dict(header)
    try:
        ret = m._read_file_header(data)
        emit("returned", repr(ret), "misc is data", m.misc is data)
    except BaseException as exc:  # noqa
        emit("RAISED", type(exc).__name__, repr(exc.args))
    emit("data after", list(data.items()))
    dump_map(m)

NOTE_ROWS = [
    [],
    [dict(measure=b"001", channel=b"11", sequence=b"01000200")],
    [dict(measure=b"002", channel=b"11", sequence=b"ZZ"),
     dict(measure=b"001", channel=b"11", sequence=b"01")],
    [dict(measure=b"001", channel=b"11", sequence=b"01"),
     dict(measure=b"001", channel=b"03", sequence=b"003C"),
     dict(measure=b"002", channel=b"11", sequence=b"00ZZ"),
     dict(measure=b"000", channel=b"08", sequence=b"01")],
]
for e, rows in enumerate(NOTE_ROWS):
    for layout_name in ("BMS", "PMS_BME"):
        emit("CASE _read_notes", e, layout_name)
        m = BMSMap()
        m._read_file_header({b"BPM": b"100", b"LNOBJ": b"ZZ", b"BPM01": b"50", b"WAV01": b"w"})
        rows_in = copy.deepcopy(rows)
        try:
            m._read_notes(rows_in, LAYOUTS[layout_name])
        except BaseException as exc:  # noqa
            emit("RAISED", type(exc).__name__, repr(exc.args))
        emit("rows unchanged", rows_in == rows)
        dump_map(m)

# a fresh map is not affected by the maps read before
emit("CASE fresh")
dump_map(BMSMap())

text_dump = "\n".join(OUT)
import os
if os.environ.get("DEMO_DUMP"):
    open(os.environ["DEMO_DUMP"], "w", encoding="utf8", errors="backslashreplace").write(text_dump)
print("DIGEST", hashlib.sha256(text_dump.encode("utf8", "backslashreplace")).hexdigest())
