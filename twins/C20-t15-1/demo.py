"""Demonstration for the refactoring of Pattern.group (property C20, k = 1).

Exercises Pattern.group through the public API on many generated inputs and
prints ONE line: a sha256 digest of a canonical text of all results (values,
container / array types, dtypes), exception types and the state of the inputs
afterwards.

Run as:  cd /tmp/r15/C20 && PYTHONPATH=/tmp/r15/C20 /venv/bin/python demo.py
"""
import hashlib
import os
import random
import sys

import numpy as np
import pandas as pd

import reamber
from reamber.algorithms.pattern import Pattern
from reamber.algorithms.pattern.combos import PtnCombo
from reamber.base.Hit import Hit
from reamber.base.Hold import Hold, HoldTail
from reamber.base.lists.notes.HitList import HitList
from reamber.base.lists.notes.HoldList import HoldList
from reamber.osu.OsuMap import OsuMap
from reamber.sm.SMMapSet import SMMapSet

print(reamber.__file__, file=sys.stderr)

ROOT = os.path.dirname(os.path.dirname(os.path.abspath(reamber.__file__)))
rng = random.Random(20)
OUT = []
N_CASES = [0]


def emit(*parts):
    OUT.append(" | ".join(str(p) for p in parts))


def canon_scalar(x):
    if isinstance(x, type):
        return "T:" + x.__module__ + "." + x.__qualname__
    return type(x).__name__ + ":" + repr(x)


def canon_array(a):
    """type, dtype, shape and every element of a (structured) array"""
    head = f"{type(a).__module__}.{type(a).__name__} dtype={a.dtype!r} shape={a.shape}"
    rows = []
    for row in a.reshape(-1).tolist() if a.dtype.names else a.reshape(-1):
        if isinstance(row, tuple):
            rows.append("(" + ",".join(canon_scalar(v) for v in row) + ")")
        else:
            rows.append(canon_scalar(row))
    return head + " [" + ";".join(rows) + "]"


def canon_df(df):
    cols = ",".join(f"{c}:{df[c].dtype}" for c in df.columns)
    ix = f"{type(df.index).__name__}:{df.index.dtype}:{list(df.index)}"
    body = ";".join(
        "(" + ",".join(canon_scalar(v) for v in row) + ")"
        for row in df.itertuples(index=False, name=None)
    )
    return f"DF cols={cols} index={ix} rows=[{body}]"


def canon_result(res):
    if isinstance(res, list):
        return "list[" + " ## ".join(canon_array(a) for a in res) + "]"
    return canon_scalar(res)


def check_partition(p, groups, v_window, h_window, avoid_jack):
    """Facts of the documented property, recorded in the digest as well"""
    n = sum(len(g) for g in groups)
    ok_v = all(
        len(g) == 0 or bool(np.all(g["offset"] <= g["offset"][0] + v_window))
        for g in groups
    )
    ok_j = (not avoid_jack) or all(
        len(set(g["column"].tolist())) == len(g) for g in groups
    )
    return f"n={n}/{len(p)} v={ok_v} j={ok_j}"


def run_group(tag, p, args, kwargs=None, combos=False):
    kwargs = kwargs or {}
    N_CASES[0] += 1
    before = canon_df(p.df)
    try:
        groups = p.group(*args, **kwargs)
        emit(tag, args, sorted(kwargs.items()), "OK", type(groups).__name__,
             canon_result(groups))
        if len(args) == 3:
            emit(tag, "facts", check_partition(p, groups, *args))
        if combos:
            for size in (2, 3):
                try:
                    c = PtnCombo(groups).combinations(size=size, make_size2=True)
                    emit(tag, "combo", size, canon_result(c))
                except Exception as e:  # noqa
                    emit(tag, "combo", size, "EXC", type(e).__name__)
            for ml, keys in ((2, 4), (3, 7)):
                try:
                    c = PtnCombo(groups).template_jacks(ml, keys)
                    emit(tag, "jacks", ml, keys, canon_result(c))
                except Exception as e:  # noqa
                    emit(tag, "jacks", ml, keys, "EXC", type(e).__name__)
    except Exception as e:  # noqa
        emit(tag, args, sorted(kwargs.items()), "EXC", type(e).__name__)
    after = canon_df(p.df)
    emit(tag, "input-unchanged", before == after, after)


V_WINDOWS = [0, 0.0, 0.5, 1, 25.5, 50.0, 100, 250, 1e9]
H_WINDOWS = [None, 0, 1, 2, 3, 9]


def rand_args():
    return (rng.choice(V_WINDOWS), rng.choice(H_WINDOWS), rng.choice([True, False]))


def rand_raw(n, keys, style):
    cols = [rng.randrange(keys) for _ in range(n)]
    if style == "int_ties":
        offs = [rng.randrange(0, 6) * 50 for _ in range(n)]
    elif style == "frac":
        offs = [round(rng.uniform(-300, 300), 3) for _ in range(n)]
    elif style == "neg_int":
        offs = [rng.randrange(-500, 100) for _ in range(n)]
    elif style == "dense":
        offs = [rng.randrange(0, 40) * 12.5 for _ in range(n)]
    elif style == "same":
        offs = [100.0] * n
    else:
        raise ValueError(style)
    types = [rng.choice([Hit, Hold, HoldTail]) for _ in range(n)]
    return cols, offs, types


# ---------------------------------------------------------------------------
# A. Patterns made directly from raw (unsorted) lists
# ---------------------------------------------------------------------------
case = 0
for style in ("int_ties", "frac", "neg_int", "dense", "same"):
    for keys in (1, 4, 7, 10):
        n = rng.choice([1, 2, 5, 9, 14, 23])
        cols, offs, types = rand_raw(n, keys, style)
        cols0, offs0, types0 = list(cols), list(offs), list(types)
        p = Pattern(cols, offs, types)
        for rep in range(3):
            run_group(f"A{case}.{style}.k{keys}.{rep}", p, rand_args(),
                      combos=(rep == 0 and n <= 14))
        emit(f"A{case}", "lists-unchanged",
             cols == cols0 and offs == offs0 and types == types0)
        case += 1

# defaults, keywords, positional mixes
cols, offs, types = rand_raw(12, 4, "int_ties")
p = Pattern(cols, offs, types)
run_group("A.default", p, ())
run_group("A.kw", p, (), {"v_window": 100, "h_window": 1, "avoid_jack": False})
run_group("A.kw2", p, (50,), {"avoid_jack": 0})
run_group("A.kw3", p, (50, 2), {"avoid_jack": 1})
run_group("A.float_h", p, (50, 1.5, True))
run_group("A.np_args", p, (np.float64(100), np.int64(1), np.bool_(True)))
run_group("A.inf", p, (float("inf"), None, True))
run_group("A.nan", p, (float("nan"), None, True))

# invalid windows
run_group("A.neg_v", p, (-1, None, True))
run_group("A.neg_v2", p, (-0.001, 2, False))
run_group("A.neg_h", p, (10, -1, True))
run_group("A.neg_both", p, (-5, -1, True))
run_group("A.str_v", p, ("50", None, True))
run_group("A.none_v", p, (None, None, True))

# empty pattern
pe = Pattern([], [], [])
run_group("A.empty", pe, (50, None, True), combos=True)
run_group("A.empty.h", pe, (0, 0, False))
run_group("A.empty.neg", pe, (-1, None, True))

# NaN offset inside
pn = Pattern([0, 1, 2, 1], [0.0, float("nan"), 10.0, 10.0], [Hit, Hit, Hit, Hit])
run_group("A.nan_offset", pn, (50, None, True))
run_group("A.nan_offset.h", pn, (50, 1, False))

# ---------------------------------------------------------------------------
# B. Patterns made from note lists (holds with tails, zero-length, empties)
# ---------------------------------------------------------------------------
for case in range(10):
    keys = rng.choice([1, 4, 5, 7, 9])
    n_hit = rng.choice([0, 0, 1, 4, 9])
    n_hold = rng.choice([0, 0, 1, 3, 7])
    hits = HitList(
        [Hit(rng.choice([-50, 0, 12.5, 50, 100, 133.3, 200]), rng.randrange(keys))
         for _ in range(n_hit)]
    )
    holds = HoldList(
        [Hold(rng.choice([-100, 0, 50, 100.5, 150]), rng.randrange(keys),
              rng.choice([0, 0, 25, 50, 100, 400.25]))
         for _ in range(n_hold)]
    )
    hits_before, holds_before = canon_df(hits.df), canon_df(holds.df)
    for tails in (True, False):
        for order in ((hits, holds), (holds, hits), (holds,), (hits,), ()):
            N_CASES[0] += 1
            try:
                p = Pattern.from_note_lists(list(order), include_tails=tails)
            except Exception as e:  # noqa
                emit(f"B{case}", tails, len(order), "from_note_lists EXC",
                     type(e).__name__)
                continue
            run_group(f"B{case}.t{int(tails)}.o{len(order)}", p, rand_args(),
                      combos=(tails and len(order) == 2))
    emit(f"B{case}", "notelists-unchanged",
         canon_df(hits.df) == hits_before, canon_df(holds.df) == holds_before)

# Filtered note lists: non-default row labels in the note lists
hits = HitList([Hit(o, c) for o, c in
                [(0, 0), (0, 1), (10, 2), (20, 1), (20, 3), (90, 0), (100, 1)]])
holds = HoldList([Hold(o, c, l) for o, c, l in
                  [(0, 2, 0), (5, 3, 100), (50, 0, 30), (60, 2, 0)]])
for tag, f in (
    ("col", lambda nl: nl[nl.column > 0]),
    ("off", lambda nl: nl[nl.offset >= 10]),
    ("rev", lambda nl: nl[::-1]),
    ("none", lambda nl: nl[nl.column > 99]),
):
    try:
        fh, fo = f(hits), f(holds)
        p = Pattern.from_note_lists([fh, fo])
    except Exception as e:  # noqa
        emit("B.filter", tag, "EXC", type(e).__name__)
        continue
    run_group(f"B.filter.{tag}", p, (20, None, True), combos=True)
    run_group(f"B.filter.{tag}.h", p, (60, 1, False))

# ---------------------------------------------------------------------------
# C. Patterns whose frame was filtered afterwards (non-default row labels),
#    re-ordered, or re-labelled by the user
# ---------------------------------------------------------------------------
cols, offs, types = rand_raw(16, 4, "int_ties")
for tag, f in (
    ("drop_col", lambda df: df[df["column"] != 0]),
    ("drop_first", lambda df: df.iloc[1:]),
    ("drop_last", lambda df: df.iloc[:-1]),
    ("every_2nd", lambda df: df.iloc[::2]),
    ("reversed", lambda df: df.iloc[::-1]),
    ("reset", lambda df: df[df["column"] != 0].reset_index(drop=True)),
    ("shuffled", lambda df: df.sample(frac=1, random_state=3)),
    ("neg_labels", lambda df: df.set_index(-1 - np.arange(len(df)))),
    ("str_labels", lambda df: df.set_index(np.array(list("abcdefghijklmnop")))),
    ("extra_col", lambda df: df.assign(extra=1.5)),
):
    p = Pattern(cols, offs, types)
    p.df = f(p.df)
    run_group(f"C.{tag}", p, (50, None, True))
    run_group(f"C.{tag}.h", p, (100, 1, False))

# ---------------------------------------------------------------------------
# D. Real charts (osu! 4K / 7K, StepMania set with several charts)
# ---------------------------------------------------------------------------
for name in ("LNDan14", "Gravity", "Stella"):
    m = OsuMap.read_file(os.path.join(ROOT, "rsc", "maps", "osu", name + ".osu"))
    hits, holds = m.hits[:120], m.holds[:120]
    hb, ob = canon_df(hits.df), canon_df(holds.df)
    for tails in (True, False):
        p = Pattern.from_note_lists([hits, holds], include_tails=tails)
        run_group(f"D.osu.{name}.t{int(tails)}", p, rand_args(), combos=tails)
        run_group(f"D.osu.{name}.t{int(tails)}.def", p, ())
    emit("D.osu", name, "unchanged", canon_df(hits.df) == hb,
         canon_df(holds.df) == ob)

ms = SMMapSet.read_file(os.path.join(ROOT, "rsc", "maps", "sm", "Escapes.sm"))
for i, m in enumerate(ms.maps):
    hits, holds = m.hits[:150], m.holds[:40]
    p = Pattern.from_note_lists([hits, holds])
    run_group(f"D.sm.{i}", p, (30, None, True), combos=True)
    run_group(f"D.sm.{i}.h", p, (120.5, 1, False))
    # filtered note list (non-default labels) from a real chart
    sub = m.hits[m.hits.column != 1][:80]
    p = Pattern.from_note_lists([sub, m.holds[m.holds.length > 100][:20]])
    run_group(f"D.sm.{i}.filtered", p, rand_args())

text = "\n".join(OUT)
print(f"{N_CASES[0]} cases, {len(OUT)} lines", file=sys.stderr)
if os.environ.get("DEMO_DUMP"):  # optional: keep the canonical text for diffing
    with open(os.environ["DEMO_DUMP"], "w", encoding="utf-8") as fh:
        fh.write(text)
print(hashlib.sha256(text.encode("utf-8")).hexdigest())
