"""Obligations inherited through the resolved call graph.

A property whose listed operations *call into* shared code (the timing engine, the
list classes and their generated accessors, the stacker) depends on the rules that
decide that shared code.  Instead of trusting another check's exit code, each
dependent property re-evaluates those rules itself: the call-graph closure of its
entry points is computed on the current tree, and every foundation group that the
closure reaches contributes its rule instances under the dependent property's id
(`Cxx.D` with the original rule and instance in the key).  A violation of a
foundation rule is therefore reported by every property that can observe it — e.g. a
changed `HoldList.tail_offset` under the StepMania, BMS and Quaver writers.

An instance that is a recorded known finding of its home property is carried as an
advisory here (it is reported once, at home).
"""
from __future__ import annotations

import importlib
from typing import Dict, List

from .. import report as R
from .. import order as O
from .common import CTL, short

# foundation group -> (home module, qualname prefixes of the functions its rules decide)
GROUPS: Dict[str, tuple] = {
    "timing": ("c10", ["reamber.algorithms.timing.", "reamber.base.lists.BpmList.BpmList.to_timing_map", "reamber.base.RAConst."]),
    "lists": ("c16", ["reamber.base.lists.TimedList.TimedList.", "reamber.base.lists.notes.HoldList.HoldList.",
                      "reamber.base.Hold.Hold.", "reamber.base.Property."]),
    "state": ("c14", ["reamber."]),
    "tables": ("c08", ["reamber.sm.SMMapMeta.SMMapChartTypes.", "reamber.quaver.QuaMapMeta.QuaMapMode.",
                       "reamber.osu.OsuSampleSet.OsuSampleSet."]),
    # reading / writing a game's files: properties that write (or read back) a chart depend on that game's file rules
    "io-osu": ("c01", ["reamber.osu."]),
    "io-sm-read": ("c02", ["reamber.sm."]),
    "io-sm-write": ("c03", ["reamber.sm."]),
    "io-bms-read": ("c04", ["reamber.bms."]),
    "io-bms-write": ("c05", ["reamber.bms."]),
    "io-qua": ("c06", ["reamber.quaver."]),
    "io-o2j": ("c07", ["reamber.o2jam."]),
    "stack": ("c12", ["reamber.base.Map.Map.Stacker", "reamber.base.Map.Map.stack", "reamber.base.MapSet.MapSet.Stacker",
                      "reamber.base.MapSet.MapSet.stack"]),
}
# rules of a home module that only make sense at home (whole-property obligations, not facts about shared code)
HOME_ONLY = {"c16": set(), "c12": set(), "c10": set(), "c14": {"C14.R1", "C14.R2", "C14.R3"},
             "c08": {"C08.R1", "C08.R2", "C08.R3", "C08.R4", "C08.R5", "C08.R6", "C08.R7", "C08.R8", "C08.R10"}}


def reached_groups(ctx, entries: List[str]) -> Dict[str, List[str]]:
    key = ("deps.closure", tuple(entries))
    if key not in ctx.cache:
        clo = _closure(ctx, entries)
        out = {}
        for g, (_, prefixes) in GROUPS.items():
            hit = sorted(q for q in clo if any(q.startswith(p) for p in prefixes))
            if hit:
                out[g] = hit
        ctx.cache[key] = out
    return ctx.cache[key]


def _enclosing(ctx, file: str, line: int):
    """qualified function (innermost) and module that contain file:line"""
    M = ctx.M
    idx = ctx.cache.get("deps.fnindex")
    if idx is None:
        idx = {}
        for q, f in M.funcs.items():
            rel = M.mods[f.mod].rel
            idx.setdefault(rel, []).append((f.node.lineno, getattr(f.node, "end_lineno", f.node.lineno), q))
        ctx.cache["deps.fnindex"] = idx
    best = None
    for lo, hi, q in idx.get(file, []):
        if lo <= line <= hi and (best is None or lo >= best[0]):
            best = (lo, hi, q)
    return best[2] if best else None


def _closure(ctx, entries):
    key = ("deps.closure.set", tuple(entries))
    if key not in ctx.cache:
        M = ctx.M
        excl = lambda q: CTL in q or ".playField" in q or "parse_replay" in q  # noqa: E731
        clo = set(O.closure(ctx, [e for e in entries if e in M.funcs], exclude=excl))
        # implicit calls: operators, iteration, len(), attribute stores on generated properties.  A class one of whose
        # methods is reached has its dunder methods reached too; a stacker that is constructed is used through all of its
        # accessors (that is its only purpose), so its whole class is reached.  What those methods call is reached as well
        # (iterated to a fixpoint).
        for _round in range(6):
            before = len(clo)
            classes = {M.funcs[q].cls for q in clo if q in M.funcs and M.funcs[q].cls}
            implicit = set()
            for c in list(classes):
                for k in M.mro(c):
                    if k not in M.classes:
                        continue
                    whole = "Stacker" in k
                    for q, f in M.funcs.items():
                        if f.cls == k and (whole or (f.name.startswith("__") and f.name.endswith("__"))) and q not in clo:
                            implicit.add(q)
            if implicit:
                clo |= set(O.closure(ctx, sorted(implicit), exclude=lambda q: excl(q) or q in clo))
                clo |= implicit
            if len(clo) == before:
                break
        # a class built by one of the Property.py decorators is used through the accessors that decorator generates
        import ast as _ast
        for c in {M.funcs[q].cls for q in clo if q in M.funcs and M.funcs[q].cls}:
            for k in M.mro(c):
                if k in M.classes:
                    for d in M.classes[k].node.decorator_list:
                        f = d.func if isinstance(d, _ast.Call) else d
                        nm = f.id if isinstance(f, _ast.Name) else getattr(f, "attr", None)
                        if nm in ("item_props", "list_props", "map_props", "stack_props"):
                            clo.add(f"reamber.base.Property.{nm}")
        # ... and through a generated *setter* only where a reached function assigns such an attribute
        clo |= _setter_uses(ctx, clo)
        ctx.cache[key] = clo
    return ctx.cache[key]


def _deco_name(d):
    import ast as _ast
    f = d.func if isinstance(d, _ast.Call) else d
    return f.id if isinstance(f, _ast.Name) else getattr(f, "attr", None)


def _setter_uses(ctx, clo) -> set:
    """pseudo-nodes `reamber.base.Property.<deco>#setter` for the generated setters that the functions of `clo` use: an
    attribute store `x.<name> = v` / `x.<name> op= v` whose name is generated by that decorator and whose receiver is (or may
    be) an object of that family"""
    import ast as _ast
    M = ctx.M
    fam = ctx.cache.get("deps.setter_names")
    if fam is None:
        item, lst, mp, stk = set(), set(), set(), set()
        for c in M.classes:
            if CTL in c:
                continue
            try:
                k = M.class_kind(c)
            except Exception:
                continue
            try:
                if k == "item":
                    item |= set(M.item_fields(c))
                elif k == "list":
                    lst |= set(M.list_columns(c))
                elif k == "chart":
                    mp |= set(M.map_slots(c))
                    stk |= set(M.stacker_props(M.stacker_class(c)))
            except Exception:
                continue
        fam = ctx.cache["deps.setter_names"] = dict(item_props=item, list_props=lst, map_props=mp, stack_props=stk)
    kinds = dict(item_props=("item",), list_props=("list",), map_props=("chart", "mapset"), stack_props=("stacker",))
    out = set()
    for q in list(clo):
        fn = M.funcs.get(q)
        if fn is None:
            continue
        ty = None
        for n in _ast.walk(fn.node):
            ts = n.targets if isinstance(n, _ast.Assign) else [n.target] if isinstance(n, (_ast.AugAssign, _ast.AnnAssign)) else []
            for t in ts:
                if not isinstance(t, _ast.Attribute):
                    continue
                for deco, names in fam.items():
                    if t.attr not in names or f"reamber.base.Property.{deco}#setter" in out:
                        continue
                    if ty is None:
                        try:
                            ty = ctx.W.typer(q, None)
                        except Exception:
                            ty = False
                    kk = None
                    if ty:
                        try:
                            kk = ty.kind(t.value)
                        except Exception:
                            kk = None
                    alts = list(kk[1]) if kk and kk[0] == "union" and isinstance(kk[1], tuple) else [kk] if kk else []
                    clss = [a[1] for a in alts if a and len(a) > 1 and isinstance(a[1], str) and a[1] in M.classes]
                    cls = clss[0] if clss else None
                    if cls is not None:
                        uses = any(_deco_name(d) == deco for c1 in clss for c2 in M.mro(c1) if c2 in M.classes
                                   for d in M.classes[c2].node.decorator_list)
                    else:
                        # receiver not resolved to a repository class: frames, series and scalars are not family objects
                        uses = kk is None or kk[0] in ("unknown", "top", "?", "any", "obj")
                    if uses:
                        out.add(f"reamber.base.Property.{deco}#setter")
    return out


def dep_insts(ctx, pid: str, entries: List[str], skip_groups=()) -> List[R.Inst]:
    rid = f"{pid}.D"
    known = R.load_known()
    out: List[R.Inst] = []
    groups = reached_groups(ctx, entries)
    clo = _closure(ctx, entries)
    clo_files = {ctx.M.mods[ctx.M.funcs[q].mod].rel for q in clo if q in ctx.M.funcs}
    for g, hit in sorted(groups.items()):
        if g in skip_groups or GROUPS[g][0] == pid.lower():
            continue
        home = GROUPS[g][0]
        mod = importlib.import_module(f"sa.props.{home}")
        for spec in mod.SPECS:
            if spec.rid in HOME_ONLY.get(home, set()) or ".D" in spec.rid:
                continue
            try:
                insts = spec.fn(ctx)
            except Exception as e:  # an undecidable foundation rule is an undecided dependency
                out.append(R.undec(rid, f"{g}:{spec.rid}", "", 0, f"foundation rule could not be evaluated: {e}"))
                continue
            for i in insts:
                # only obligations about code this property actually reaches: the function that contains the deciding
                # construct must be in the closure (class-level tables: some function of that file must be)
                enc = _enclosing(ctx, i.file, i.line) if i.file and i.line else None
                if i.reach:
                    if not any(r in clo for r in i.reach):
                        continue
                elif enc is not None:
                    top = enc.split(".<locals>")[0]
                    if enc not in clo and top not in clo:
                        continue
                elif i.file and i.file not in clo_files:
                    continue
                origin = i.fid()
                j = R.Inst(rid, f"{g}:{i.rule}:{i.key}", i.status, i.file, i.line, i.msg, i.construct, i.idiom, spec.analysis)
                if i.status == R.VIOL and origin in known:
                    j.status = R.ADV
                    j.msg = f"known finding of {home.upper()} ({known[origin].get('finding', '')}): {i.msg}"
                if i.status == R.VIOL:
                    j.msg = (f"[{short(hit[0])}{' …' if len(hit) > 1 else ''} is reached from this property's operations] " + j.msg)
                out.append(j)
    if not groups:
        out.append(R.ok(rid, "no-foundation-reached", "", 0, idiom="the listed operations reach no shared foundation code"))
    return out
