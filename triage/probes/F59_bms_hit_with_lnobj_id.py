"""F59 (C05): a known sample whose id equals the #LNOBJ id turns hits into hold tails.

Pinned tree before the fix: both hits are written with the value ZZ == #LNOBJ, so a BMS reader (reamber's own
included) closes a hold on them instead of seeing two hits.
Run: PYTHONPATH=<tree> /venv/bin/python F59_bms_hit_with_lnobj_id.py   (AssertionError = defect present)"""
import warnings
warnings.simplefilter("ignore")
from reamber.bms.BMSMap import BMSMap
from reamber.bms.BMSHit import BMSHit
from reamber.bms.BMSBpm import BMSBpm
from reamber.bms.lists.BMSBpmList import BMSBpmList
from reamber.bms.lists.notes.BMSHitList import BMSHitList

m = BMSMap()
m.bpms = BMSBpmList([BMSBpm(0, 120)])
m.samples = {b"ZZ": b"z.wav"}
m.hits = BMSHitList([BMSHit(0, 0, b"z.wav"), BMSHit(500, 0, b"z.wav")])
out = m.write()
print(out)
body = [l for l in out.split(b"\r\n") if l[:6].isalnum() is False and l.startswith(b"#000")]
print(body)
assert not any(b"ZZ" in l.split(b":", 1)[1] for l in body), "a hit is written with the #LNOBJ id"
back = BMSMap.read(out.decode("ascii").split("\r\n"))
assert len(back.hits) == 2 and len(back.holds) == 0, (len(back.hits), len(back.holds))
print("OK")

# second form: the id given to objects WITHOUT a known sample (default b"01") equals the #LNOBJ id the chart was read with
src = ["#TITLE t", "#ARTIST a", "#BPM 120", "#PLAYLEVEL 1", "#LNOBJ 01", "#WAV02 a.wav", "", "#00011:02000200"]
m = BMSMap.read(src)
m.hits = m.hits.append(BMSHit(2000, 0, b"unknown.wav"))
try:
    out = m.write()
except ValueError as e:
    print("refused:", e)
else:
    back = BMSMap.read(out.decode("ascii").split("\r\n"))   # pinned tree: "Failed to match LN Tail" — the file is not readable
    assert len(back.hits) == 3 and len(back.holds) == 0, ("sample-less hit written with the #LNOBJ id", len(back.hits), len(back.holds))
print("OK 2")
