"""Demo for C12 / patch 2: MapSet.Stacker.__setitem__ and MapSet.stack.

Builds random mapsets of all five games, drives random sequences of mapset
stack operations and prints a sha256 over a canonical dump of everything
observable (every list of every chart, stacked frames, results, warnings,
exceptions).
"""
import hashlib
import sys
import os
import random
import warnings

import numpy as np
import pandas as pd

from reamber.base.Map import Map
from reamber.base.MapSet import MapSet
from reamber.bms.BMSMap import BMSMap
from reamber.o2jam.O2JMap import O2JMap
from reamber.o2jam.O2JMapSet import O2JMapSet
from reamber.osu.OsuMap import OsuMap
from reamber.quaver.QuaMap import QuaMap
from reamber.sm.SMMap import SMMap
from reamber.sm.SMMapSet import SMMapSet

OUT = []


def emit(*a):
    OUT.append(" ".join(str(x) for x in a))


def dump_frame(tag, df):
    emit(tag, "type", type(df).__name__, "shape", df.shape)
    emit(tag, "columns", type(df.columns).__name__, str(df.columns.dtype), list(df.columns))
    emit(tag, "dtypes", [str(t) for t in df.dtypes])
    emit(tag, "index", type(df.index).__name__, str(df.index.dtype), list(df.index))
    for j in range(df.shape[1]):
        emit(tag, "col", j, [repr(v) for v in df.iloc[:, j].tolist()])


def dump_obj(tag, o):
    if isinstance(o, pd.DataFrame):
        dump_frame(tag, o)
    elif isinstance(o, pd.Series):
        emit(tag, "Series", o.name, str(o.dtype), type(o.index).__name__,
             list(o.index), [repr(v) for v in o.tolist()])
    else:
        emit(tag, type(o).__name__, repr(o))


def dump_set(tag, ms):
    emit(tag, "mapset", type(ms).__name__, len(ms.maps))
    for i, m in enumerate(ms.maps):
        emit(tag, i, "map", type(m).__name__, list(m.objs.keys()))
        for k, v in m.objs.items():
            emit(tag, i, "list", k, type(v).__name__, len(v))
            dump_frame("%s.%d.%s" % (tag, i, k), v.df)


def dump_stack(tag, st):
    emit(tag, "stacker", type(st).__qualname__, len(st.stackers),
         [type(s).__qualname__ for s in st.stackers])
    for i, s in enumerate(st.stackers):
        emit(tag, i, "ixs", repr(s._ixs))
        dump_frame("%s.%d._stacked" % (tag, i), s._stacked)


def fill(rng, cls, n, labels):
    tl = cls.empty(n)
    df = tl.df
    for c in df.columns:
        dt = str(df[c].dtype)
        if c == "offset":
            df[c] = pd.Series([rng.choice([-500.0, 0.0, 250.0, 1000.0, 1000.0, 3333.25,
                                           rng.uniform(-1e3, 1e5)]) for _ in range(n)],
                              dtype="float64")
        elif c == "column":
            df[c] = pd.Series([rng.randrange(0, 10) for _ in range(n)], dtype=dt)
        elif c == "length":
            df[c] = pd.Series([rng.choice([0.0, 1.0, 125.5, rng.uniform(0, 4000)])
                               for _ in range(n)], dtype="float64")
        elif c == "bpm":
            df[c] = pd.Series([rng.choice([0.0, -120.0, 60.0, 180.0, 222.22])
                               for _ in range(n)], dtype="float64")
        elif c == "metronome":
            df[c] = pd.Series([rng.choice([3.0, 4.0, 7.0]) for _ in range(n)],
                              dtype="float64")
        elif dt == "int64":
            df[c] = pd.Series([rng.randrange(0, 100) for _ in range(n)], dtype="int64")
        elif dt == "float64":
            df[c] = pd.Series([rng.uniform(-2, 10) for _ in range(n)], dtype="float64")
        elif dt == "bool":
            df[c] = pd.Series([rng.random() < 0.5 for _ in range(n)], dtype="bool")
        elif c == "sample":
            df[c] = pd.Series([rng.choice([b"", b"a.wav", b"kick.ogg"])
                               for _ in range(n)], dtype=object)
        elif c == "hitsound_file":
            df[c] = pd.Series([rng.choice(["", "x.wav", "snare.ogg"])
                               for _ in range(n)], dtype=object)
        elif c == "keysounds":
            df[c] = pd.Series([[] if rng.random() < 0.5 else [rng.randrange(5)]
                               for _ in range(n)], dtype=object)
    if labels == "shuffled":
        ix = list(range(n))
        rng.shuffle(ix)
        df.index = pd.Index(ix, dtype="int64")
    elif labels == "offset10":
        df.index = pd.RangeIndex(10, 10 + 3 * n, 3)
    elif labels == "dups":
        df.index = pd.Index([7] * n, dtype="int64")
    elif labels == "str":
        df.index = pd.Index(["r%d" % i for i in range(n)], dtype=object)
    return cls(df)


def make_map(rng, M, sizes):
    m = M()
    for k, v in list(m.objs.items()):
        if sizes == "empty":
            n = 0
        elif sizes == "one":
            n = 1
        elif isinstance(sizes, int):
            n = sizes
        else:
            n = rng.choice([0, 0, 1, 2, 3, 5])
        labels = rng.choice(["default", "default", "shuffled", "offset10", "dups", "str"])
        m.objs[k] = fill(rng, type(v), n, labels)
    return m


def make_set(rng, kind, n_maps, sizes):
    M, S = kind
    maps = [make_map(rng, M, sizes) for _ in range(n_maps)]
    if S is MapSet:
        return MapSet(maps)
    return S(maps=maps)


class Rec:
    """Runs a step, records its result / exception and the warnings it raised."""

    def __init__(self, tag):
        self.tag = tag

    def __enter__(self):
        self.cw = warnings.catch_warnings(record=True)
        self.w = self.cw.__enter__()
        warnings.simplefilter("always")
        return self

    def __exit__(self, et, ev, tb):
        self.cw.__exit__(None, None, None)
        for w in self.w:
            emit(self.tag, "WARN", w.category.__name__, str(w.message).splitlines()[0][:120])
        if et is not None:
            emit(self.tag, "RAISED", et.__name__, str(ev).splitlines()[0][:160] if str(ev) else "")
            return True
        emit(self.tag, "ok")
        return False


NUM_PROPS = ["offset", "column", "length", "bpm", "metronome"]


class OnlyIloc:
    """Anything with an ``iloc`` works as a value; rows are taken by position."""

    def __init__(self, rows, boom_at=None):
        self.rows = rows
        self.boom_at = boom_at
        self.asked = []

    @property
    def iloc(self):
        return self

    def __getitem__(self, k):
        self.asked.append(k)
        if k == self.boom_at:
            raise KeyError("boom %r" % (k,))
        return self.rows[k]


def one_op(rng, tag, ms, st):
    n = len(st.stackers)
    op = rng.choice(["mul", "add", "div", "assign_same", "assign_df", "fewer_rows",
                     "more_rows", "series_value", "scalar_value", "array_value",
                     "relabelled", "transposed", "get", "setitem_key", "missing_prop",
                     "newcol", "shifted_cols", "only_iloc", "only_iloc_boom", "bad_row"])
    emit(tag, "OP", op)
    with Rec(tag):
        if op == "mul":
            p = rng.choice(["offset", "length", "bpm"])
            setattr(st, p, getattr(st, p) * rng.choice([2, 0.5, -1.0, 0, 1.1]))
        elif op == "add":
            p = rng.choice(NUM_PROPS)
            st[p] += rng.choice([1, -250.5, 0, 1000])
        elif op == "div":
            st.offset /= rng.choice([2, 1.5, 0.75])
        elif op == "assign_same":
            p = rng.choice(NUM_PROPS)
            setattr(st, p, getattr(st, p))
        elif op == "assign_df":
            cur = st.offset
            val = pd.DataFrame(np.arange(cur.size, dtype=float).reshape(cur.shape),
                               columns=cur.columns)
            st.offset = val
        elif op == "fewer_rows":
            cur = st.offset
            st.offset = (cur + 7).iloc[: max(n - 1, 0)]
        elif op == "more_rows":
            cur = st.offset
            st.offset = pd.concat([cur - 3, cur, cur])
        elif op == "series_value":
            st.column = pd.Series([float(rng.randrange(9)) for _ in range(rng.choice([n, n + 1, max(n - 1, 0)]))])
        elif op == "scalar_value":
            st.offset = rng.choice([5, 2.5])
        elif op == "array_value":
            st.offset = st.offset.to_numpy()
        elif op == "relabelled":
            cur = st.length
            cur.index = ["m%d" % i for i in range(len(cur))]
            st.length = cur * 2
        elif op == "transposed":
            st.offset = st.offset.T
        elif op == "get":
            p = rng.choice(NUM_PROPS)
            dump_obj(tag + ".got", st[p])
        elif op == "setitem_key":
            st["offset"] = st["offset"] + st["column"].fillna(0)
        elif op == "missing_prop":
            st.does_not_exist *= 2
        elif op == "newcol":
            st["brand_new"] = st["offset"] * 0 + 1
        elif op == "shifted_cols":
            cur = st.offset
            cur.columns = [c + 1 for c in cur.columns]
            st.offset = cur + 0.5
        elif op == "only_iloc":
            cur = st.offset
            v = OnlyIloc([cur.iloc[i] * 3 for i in range(rng.choice([n, max(n - 1, 0)]))])
            try:
                st.offset = v
            finally:
                emit(tag, "asked", v.asked)
        elif op == "only_iloc_boom":
            cur = st.offset
            v = OnlyIloc([cur.iloc[i] - 1 for i in range(n)], boom_at=rng.randrange(max(n, 1)))
            try:
                st.offset = v
            finally:
                emit(tag, "asked", v.asked)
        elif op == "bad_row":
            # map 0 accepts its row, a later map rejects its row: earlier maps stay written
            rows = [st.stackers[i]["offset"] + 11 for i in range(n)]
            if n > 1:
                rows[-1] = list(range(len(rows[-1]) + 2))
            v = OnlyIloc(rows)
            try:
                st.offset = v
            finally:
                emit(tag, "asked", v.asked)
    dump_set(tag, ms)
    dump_stack(tag, st)


KINDS = [(OsuMap, MapSet), (SMMap, SMMapSet), (BMSMap, MapSet), (O2JMap, O2JMapSet),
         (QuaMap, MapSet), (Map, MapSet)]


def scenario(rng, tag, kind, n_maps, sizes):
    ms = make_set(rng, kind, n_maps, sizes)
    dump_set(tag + ".init", ms)
    ref_maps = list(ms.maps)
    ref_lists = [dict(m.objs) for m in ms.maps]
    ref_dfs = [{k: v.df.copy(deep=True) for k, v in m.objs.items()} for m in ms.maps]
    st = None
    with Rec(tag + ".stack"):
        st = ms.stack()
    if st is None:
        return
    for i, m in enumerate(ms.maps):
        for k, v in m.objs.items():
            emit(tag, "untouched", i, k, v.df.equals(ref_dfs[i][k]),
                 list(v.df.index) == list(ref_dfs[i][k].index))
    dump_stack(tag + ".fresh", st)
    for i in range(rng.choice([2, 3, 5])):
        t = "%s.%d" % (tag, i)
        if rng.random() < 0.25:
            emit(t, "RESTACK")
            with Rec(t + ".restack"):
                st = ms.stack()
        one_op(rng, t, ms, st)
    emit(tag, "same-maps", len(ms.maps) == len(ref_maps),
         all(a is b for a, b in zip(ms.maps, ref_maps)))
    for i, m in enumerate(ms.maps):
        for k, v in m.objs.items():
            emit(tag, "same-object", i, k, v is ref_lists[i][k], type(v).__name__)


def specials(rng):
    with Rec("sp.rate"):
        ms = make_set(rng, (OsuMap, MapSet), 3, "random")
        before = [{k: v.df.copy(deep=True) for k, v in m.objs.items()} for m in ms.maps]
        dump_set("sp.rate.out", ms.rate(1.5))
        for i, m in enumerate(ms.maps):
            for k, v in m.objs.items():
                emit("sp.rate.input-untouched", i, k, v.df.equals(before[i][k]))
    with Rec("sp.inline"):
        ms = make_set(rng, (BMSMap, MapSet), 2, 3)
        ms.stack().offset *= 2
        ms.stack().offset *= 2
        dump_set("sp.inline", ms)
    with Rec("sp.direct-stacker"):
        ms = make_set(rng, (QuaMap, MapSet), 3, 2)
        stackers = [m.stack() for m in ms.maps]
        st = MapSet.Stacker(stackers)
        emit("sp.direct-stacker", "same list", st.stackers is stackers)
        stackers.pop()  # the stacker sees the caller's list
        st.offset += 100
        dump_set("sp.direct-stacker", ms)
    with Rec("sp.maps-none"):
        ms = MapSet(None)
        ms.stack()
    with Rec("sp.maps-tuple"):
        ms = MapSet(tuple(make_map(rng, SMMap, 2) for _ in range(2)))
        st = ms.stack()
        st.offset -= 1
        dump_set("sp.maps-tuple", ms)
    with Rec("sp.mixed-games"):
        ms = MapSet([make_map(rng, OsuMap, 2), make_map(rng, BMSMap, 1), make_map(rng, SMMap, "empty")])
        st = ms.stack()
        st.column += 1
        st.offset *= 3
        dump_set("sp.mixed-games", ms)
        dump_stack("sp.mixed-games", st)


def main():
    rng = random.Random(120212)
    n = 0
    for kind in KINDS:
        for n_maps, sizes in ((0, "random"), (1, "random"), (2, "random"), (3, "random"),
                              (4, "random"), (2, "empty"), (3, "one"), (2, 3), (3, 2)):
            n += 1
            scenario(rng, "S%02d.%s" % (n, kind[0].__name__), kind, n_maps, sizes)
    specials(rng)
    text = "\n".join(OUT)
    if os.environ.get("DEMO_DUMP"):
        with open(os.environ["DEMO_DUMP"], "w", encoding="utf-8", errors="backslashreplace") as f:
            f.write(text)
    print("scenarios", n, "lines", len(OUT),
          "raised", sum(" RAISED " in l for l in OUT),
          "warned", sum(" WARN " in l for l in OUT), file=sys.stderr)
    print("DIGEST", hashlib.sha256(text.encode("utf-8", "backslashreplace")).hexdigest())


if __name__ == "__main__":
    main()
