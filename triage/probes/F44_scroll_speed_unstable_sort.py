"""HEAD defect: scroll_speed returns a duplicated breakpoint with a wrong speed when the
tempo list is long, not sorted, and the first/last object shares its time with a tempo point."""
import random, warnings
warnings.simplefilter("ignore")
from reamber.algorithms.analysis import scroll_speed
from reamber.sm import SMMap, SMBpm, SMHit
from reamber.sm.lists import SMBpmList
from reamber.sm.lists.notes import SMHitList

found = 0
for seed in range(40):
    rng = random.Random(seed)
    offs = rng.sample(range(0, 400), 200)
    bpms = [(o * 100, rng.choice([100, 200])) for o in offs]      # unsorted tempo list, distinct times
    first, last = min(o for o, _ in bpms), max(o for o, _ in bpms)
    m = SMMap()
    m.bpms = SMBpmList([SMBpm(o, b) for o, b in bpms])
    m.hits = SMHitList([SMHit(first, 0), SMHit(last, 0)])      # last note on the last tempo point
    ss = scroll_speed(m, override_bpm=100)
    if ss.index.duplicated().any():
        found += 1
        if found == 1:
            print("seed", seed)
            print(ss[ss.index.duplicated(keep=False)])
            print("bpm of the tempo point there:", dict(bpms)[ss.index[ss.index.duplicated()][0]])
print("charts with a duplicated breakpoint:", found, "of 40")
assert found == 0, "F44: scroll_speed duplicated a breakpoint (unstable sort before the forward fill)"
