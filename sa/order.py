"""A5 ORDER — row order as a typestate (DESIGN §4).

Every sequence value derived from a chart gets an order tag:

  rows(B)        in the row order of base B (a list of a chart, a frame built from one) — arbitrary
  sorted(B, k)   base B re-ordered by key k (deterministic up to ties)
  grouped(k)     one element per distinct key, ordered by key (pandas groupby sorts keys)
  scalar         an order-free reduction (max / min / sum / len / set ...)
  top            unknown — can never produce a violation

Two kinds of *sites* are collected while a function body is interpreted:

  pairing     zip / set_axis / DataFrame-from-parallel-arrays / consecutive ids: operands must carry equal tags
  reduction   [0] [-1] iloc[0] first()/last() diff shift ffill bfill cumsum np.diff zip(x[:-1], x[1:]) bisect:
              the operand must be sorted (or order-free)

pandas arithmetic between two Series aligns on labels and is therefore not a site.
"""
from __future__ import annotations

import ast
from dataclasses import dataclass, field
from typing import Dict, List, Optional, Tuple

from .model import walk_no_nested

SEQ_KINDS = {"list", "df", "series", "nd", "pylist", "stacker", "iter", "tuple"}


@dataclass(frozen=True)
class Tag:
    kind: str                 # rows | sorted | grouped | scalar | top | argsort
    base: str = ""
    key: str = ""
    col: str = ""             # for a Series: which column of the base it is

    def same_order(self, o: "Tag") -> bool:
        """equal order: same kind, same base (a trailing sentinel element does not reorder the others), same key"""
        nb = lambda b: b.replace("+sentinel", "")          # noqa: E731
        return self.kind == o.kind and nb(self.base) == nb(o.base) and self.key == o.key

    def __str__(self):
        if self.kind == "rows":
            return f"rows({self.base})"
        if self.kind == "sorted":
            return f"sorted({self.base} by {self.key})"
        if self.kind == "grouped":
            return f"grouped({self.key})"
        return self.kind

    @property
    def ordered(self) -> bool:
        return self.kind in ("sorted", "grouped", "scalar")


TOP = Tag("top")
SCALAR = Tag("scalar")


@dataclass
class Site:
    kind: str                 # pairing | reduction
    what: str                 # zip / set_axis / [0] / diff ...
    node: ast.AST
    tags: List[Tag]
    operands: List[str]
    fn: str = ""

    @property
    def line(self):
        return getattr(self.node, "lineno", 0)


ORDER_KEEP = {"dropna", "drop_duplicates", "reset_index", "astype", "copy", "to_numpy", "tolist", "fillna", "abs", "round",
              "rename", "drop", "head", "tail", "clip", "where", "mask", "isna", "notna", "isin", "map", "apply", "eq", "ne",
              "lt", "gt", "le", "ge", "add", "sub", "mul", "div", "truediv", "items", "keys", "values", "to_list", "to_dict",
              "deepcopy", "to_frame", "squeeze", "infer_objects", "replace", "between", "after", "before", "itertuples",
              "iterrows", "assign", "set_index", "reindex", "__iter__", "append_noorder"}
ORDER_REDUCE_SCALAR = {"max", "min", "sum", "mean", "median", "std", "var", "count", "prod", "any", "all", "nunique",
                       "first_offset", "last_offset", "first_last_offset", "item", "__len__"}
ORDER_DEPENDENT = {"diff", "shift", "ffill", "bfill", "cumsum", "cumprod", "cummax", "cummin", "pct_change", "interpolate"}
TIE_DEPENDENT = {"idxmax", "idxmin", "argmax", "argmin"}
ELEMENTWISE_TM = {"offsets", "snaps", "beats"}


class OrderInterp:
    def __init__(self, ctx, qual: str, self_kind=None, normal: bool = False):
        self.ctx = ctx
        self.M = ctx.M
        self.qual = qual
        # normal=True: the function with its private helpers inlined (sa/normal.py), typed by a typer of that copy
        self.fn = ctx.M.nfn(qual) if normal else ctx.M.fn(qual)
        self.ty = ctx.W.typer_for(self.fn, self_kind) if normal else ctx.W.typer(qual, self_kind)
        self.env: Dict[str, Tag] = {}
        self.sites: List[Site] = []
        self._fresh = 0
        self._seen_sites = set()

    # ------------------------------------------------------------------ helpers
    def kind(self, e) -> tuple:
        try:
            return self.ty.kind(e) if self.ty is not None else ("unknown",)
        except Exception:
            return ("unknown",)

    def txt(self, e) -> str:
        try:
            return ast.unparse(e)
        except Exception:
            return "?"

    def fresh(self, what: str) -> str:
        self._fresh += 1
        return f"{what}#{self._fresh}"

    def site(self, kind, what, node, operands):
        key = (kind, what, getattr(node, "lineno", 0), getattr(node, "col_offset", 0))
        if key in self._seen_sites:
            return
        self._seen_sites.add(key)
        self.sites.append(Site(kind, what, node, [self.tag(o) for o in operands], [self.txt(o) for o in operands], self.qual))

    def is_seq(self, e) -> bool:
        k = self.kind(e)
        return k[0] in SEQ_KINDS

    # ------------------------------------------------------------------ run
    def run(self) -> List[Site]:
        for p in self.fn.node.args.args + self.fn.node.args.kwonlyargs:
            k = self.ty.env.get(p.arg, ("unknown",)) if self.ty is not None else ("unknown",)
            if k[0] in ("list", "df", "series", "nd", "pylist"):
                self.env[p.arg] = Tag("rows", p.arg)
        self.block(self.fn.node.body)
        return self.sites

    def block(self, body):
        for s in body:
            self.stmt(s)

    def stmt(self, s):
        if isinstance(s, (ast.FunctionDef, ast.AsyncFunctionDef, ast.ClassDef)):
            return
        if isinstance(s, ast.Assign):
            t = self.tag(s.value)
            for tg in s.targets:
                self.bind(tg, t, s.value)
        elif isinstance(s, ast.AnnAssign) and s.value is not None:
            self.bind(s.target, self.tag(s.value), s.value)
        elif isinstance(s, ast.AugAssign):
            self.tag(s.value)
            self.tag(s.target)
        elif isinstance(s, ast.For):
            it = self.tag(s.iter)
            self.bind_iter(s.target, s.iter, it)
            self.block(s.body)
            self.block(s.orelse)
        elif isinstance(s, ast.While):
            self.tag(s.test)
            self.block(s.body)
        elif isinstance(s, ast.If):
            self.tag(s.test)
            before = dict(self.env)
            self.block(s.body)
            a = self.env
            self.env = dict(before)
            self.block(s.orelse)
            b = self.env
            def join(x, y):
                if x == y:
                    return x
                if x is not None and y is not None and x.kind == y.kind == "sorted" and x.key == y.key:
                    return Tag("sorted", x.base if x.base == y.base else f"{x.base}|{y.base}", x.key, x.col if x.col == y.col else "")
                return TOP
            self.env = {k: join(a.get(k), b.get(k)) for k in set(a) | set(b)}
        elif isinstance(s, ast.With):
            for i in s.items:
                self.tag(i.context_expr)
            self.block(s.body)
        elif isinstance(s, ast.Try):
            self.block(s.body)
            for h in s.handlers:
                self.block(h.body)
            self.block(s.orelse)
            self.block(s.finalbody)
        elif isinstance(s, (ast.Return, ast.Expr)):
            if s.value is not None:
                v = s.value
                if isinstance(s, ast.Expr) and isinstance(v, ast.Call) and isinstance(v.func, ast.Attribute) and \
                        v.func.attr == "sort" and isinstance(v.func.value, ast.Name):
                    nm = v.func.value.id
                    kw = {k.arg: k.value for k in v.keywords}
                    key = "value"
                    if isinstance(kw.get("key"), ast.Lambda) and isinstance(kw["key"].body, ast.Attribute):
                        key = kw["key"].body.attr
                    elif "key" in kw:
                        key = self.txt(kw["key"])
                    if "reverse" in kw and self.txt(kw["reverse"]) != "False":
                        key += " desc"
                    old = self.env.get(nm, TOP)
                    self.env[nm] = Tag("sorted", old.base or nm, key)
                    return
                self.tag(v)
        elif isinstance(s, ast.Assert):
            self.tag(s.test)

    def bind(self, tgt, t: Tag, value):
        if isinstance(tgt, ast.Name):
            self.env[tgt.id] = t
        elif isinstance(tgt, (ast.Tuple, ast.List)):
            # a, b = zip(*...) / tuple of values
            if isinstance(value, (ast.Tuple, ast.List)) and len(value.elts) == len(tgt.elts):
                for a, v in zip(tgt.elts, value.elts):
                    self.bind(a, self.tag(v), v)
            else:
                for a in tgt.elts:
                    self.bind(a, t, value)

    def bind_iter(self, tgt, it_node, it: Tag):
        # elements of a sequence are scalars w.r.t. order; nested sequences (groups) keep the tag
        if isinstance(tgt, ast.Name):
            self.env[tgt.id] = SCALAR if it.kind != "grouped" else it
        elif isinstance(tgt, (ast.Tuple, ast.List)):
            for a in tgt.elts:
                self.bind_iter(a, it_node, it)
        # groups of a groupby: `for key, frame in df.groupby(..)`: frame keeps the order of the grouped frame
        if isinstance(it_node, ast.Name) and it_node.id in self._group_src:
            src = self._group_src[it_node.id]
            if isinstance(tgt, ast.Tuple) and len(tgt.elts) == 2 and isinstance(tgt.elts[1], ast.Name):
                self.env[tgt.elts[1].id] = src
        elif isinstance(it_node, ast.Call) and self._is_groupby(it_node):
            src = self.tag(it_node.func.value)
            if isinstance(tgt, ast.Tuple) and len(tgt.elts) == 2 and isinstance(tgt.elts[1], ast.Name):
                self.env[tgt.elts[1].id] = src

    _group_src: Dict[str, Tag] = {}

    def _is_groupby(self, e) -> bool:
        return isinstance(e, ast.Call) and isinstance(e.func, ast.Attribute) and e.func.attr == "groupby"

    # ------------------------------------------------------------------ expressions
    def tag(self, e) -> Tag:
        try:
            return self._tag(e)
        except RecursionError:
            return TOP

    def _tag(self, e) -> Tag:
        if e is None:
            return TOP
        if isinstance(e, ast.Constant):
            return SCALAR
        if isinstance(e, ast.Name):
            if e.id in self.env:
                return self.env[e.id]
            k = self.kind(e)
            if k[0] in ("num", "str", "bool", "none", "bytes", "frac"):
                return SCALAR
            return TOP
        if isinstance(e, ast.Attribute):
            return self._attr(e)
        if isinstance(e, ast.Subscript):
            return self._sub(e)
        if isinstance(e, ast.Call):
            return self._call(e)
        if isinstance(e, (ast.ListComp, ast.GeneratorExp, ast.SetComp)):
            saved = dict(self.env)
            first = TOP
            for i, g in enumerate(e.generators):
                it = self.tag(g.iter)
                if i == 0:
                    first = it
                self.bind_iter(g.target, g.iter, it)
                for c in g.ifs:
                    self.tag(c)
            self.tag(e.elt)
            self.env = saved
            # [len(x) for x in X] / [len(x.df) ..]: the elements of X are sized containers (the lists of a chart, in slot order), not the
            # rows of a frame — the result is one number per list, and its order is not a row order
            if len(e.generators) == 1 and isinstance(e.generators[0].target, ast.Name) and first.kind == "rows":
                v_ = e.generators[0].target.id
                t_ = ast.unparse(e.elt).replace(" ", "")
                if t_ in (f"len({v_})", f"len({v_}.df)", f"{v_}.df.shape[0]", f"len({v_}._df)"):
                    return TOP
            return SCALAR if isinstance(e, ast.SetComp) else first
        if isinstance(e, ast.DictComp):
            saved = dict(self.env)
            for g in e.generators:
                self.bind_iter(g.target, g.iter, self.tag(g.iter))
            self.tag(e.key), self.tag(e.value)
            self.env = saved
            return TOP
        if isinstance(e, ast.BinOp):
            a, b = self.tag(e.left), self.tag(e.right)
            return a if a.kind not in ("scalar", "top") else (b if b.kind != "scalar" else a)
        if isinstance(e, ast.UnaryOp):
            return self.tag(e.operand)
        if isinstance(e, ast.Compare):
            ts = [self.tag(e.left)] + [self.tag(c) for c in e.comparators]
            for t in ts:
                if t.kind not in ("scalar", "top"):
                    return t
            return ts[0]
        if isinstance(e, ast.BoolOp):
            ts = [self.tag(v) for v in e.values]
            return ts[0]
        if isinstance(e, ast.IfExp):
            self.tag(e.test)
            a, b = self.tag(e.body), self.tag(e.orelse)
            return a if a == b else TOP
        if isinstance(e, (ast.List, ast.Tuple)):
            for x in e.elts:
                self.tag(x.value if isinstance(x, ast.Starred) else x)
            return Tag("sorted", "literal", "written order") if e.elts else SCALAR
        if isinstance(e, ast.Dict):
            for v in e.values:
                self.tag(v)
            return TOP
        if isinstance(e, ast.Lambda):
            return TOP
        if isinstance(e, ast.JoinedStr):
            for v in e.values:
                if isinstance(v, ast.FormattedValue):
                    self.tag(v.value)
            return SCALAR
        if isinstance(e, ast.Starred):
            return self.tag(e.value)
        return TOP

    def _attr(self, e: ast.Attribute) -> Tag:
        bk = self.kind(e.value)
        k = self.kind(e)
        base = self.tag(e.value)
        if bk[0] in ("chart",) and k[0] == "list":
            return Tag("rows", self.txt(e))
        if bk[0] == "chart" and e.attr in ("notes",):
            return Tag("sorted", "literal", "slot order")
        if bk[0] == "mapset" and e.attr == "maps":
            return Tag("rows", self.txt(e))
        if bk[0] in ("list", "df", "series", "stacker", "nd"):
            if e.attr in ("T", "shape", "dtype", "dtypes", "columns", "index", "size", "empty", "name"):
                return SCALAR
            if base.kind == "top" and bk[0] in ("list", "stacker"):
                base = Tag("rows", self.txt(e.value))
            if k[0] in ("series", "nd") and bk[0] in ("list", "df", "stacker") and base.kind in ("rows", "sorted"):
                return Tag(base.kind, base.base, base.key, e.attr)
            return base
        if k[0] in ("num", "str", "bool", "none", "bytes", "frac"):
            return SCALAR
        return base if base.kind != "scalar" else SCALAR

    def _sub(self, e: ast.Subscript) -> Tag:
        base = self.tag(e.value)
        sltag = self.tag(e.slice) if not isinstance(e.slice, ast.Slice) else None
        bk = self.kind(e.value)
        seq = bk[0] in SEQ_KINDS or base.kind in ("rows", "sorted")
        sl = e.slice
        # .iloc[...] / .loc[...]
        recv = e.value
        if isinstance(recv, ast.Attribute) and recv.attr in ("iloc", "loc", "at", "iat"):
            base = self.tag(recv.value)
            if recv.attr in ("iloc", "iat") and self._is_end_index(sl):
                self.site("reduction", f".iloc[{self.txt(sl)}]", e, [recv.value])
                return SCALAR
            return base
        if base.kind == "argsort" and not isinstance(sl, ast.Slice) and recv is e.value:
            # the k-th entry of a sorting permutation is the position of the k-th smallest value: which row that is does not
            # depend on the order the rows came in (as far as the sort key decides)
            return base
        if seq and self._is_end_index(sl) and bk[0] not in ("dict", "str", "tuple"):
            self.site("reduction", f"[{self.txt(sl)}]", e, [e.value])
            return SCALAR
        if isinstance(sl, ast.Slice):
            return base
        if isinstance(sl, ast.Constant) and isinstance(sl.value, str):
            return Tag(base.kind, base.base, base.key, sl.value) if base.kind in ("rows", "sorted") else base
        if sltag is not None and sltag.kind == "argsort":
            p = sltag
            return Tag("sorted", base.base or self.txt(e.value), "value" + p.key)
        if isinstance(sl, ast.Constant) and isinstance(sl.value, int) and bk[0] in ("tuple", "dict", "str", "unknown"):
            return TOP if base.kind == "top" else base
        return base

    @staticmethod
    def _is_end_index(sl) -> bool:
        if isinstance(sl, ast.Constant) and isinstance(sl.value, int) and not isinstance(sl.value, bool) and sl.value == 0:
            return True
        if isinstance(sl, ast.UnaryOp) and isinstance(sl.op, ast.USub) and isinstance(sl.operand, ast.Constant) and \
                sl.operand.value == 1:
            return True
        return False

    def _consecutive(self, args) -> Optional[ast.AST]:
        if len(args) == 2 and all(isinstance(a, ast.Subscript) and isinstance(a.slice, ast.Slice) for a in args):
            a0, a1 = args
            if self.txt(a0.value) == self.txt(a1.value) and self.txt(a0.slice) in (":-1",) and self.txt(a1.slice) in ("1:",):
                return a0.value
        return None

    def _call(self, e: ast.Call) -> Tag:
        f = e.func
        # evaluate arguments for nested sites
        argtags = [self.tag(a.value if isinstance(a, ast.Starred) else a) for a in e.args]
        kw = {k.arg: k.value for k in e.keywords}
        for k in e.keywords:
            if not isinstance(k.value, ast.Lambda):
                self.tag(k.value)
        if isinstance(f, ast.Name):
            n = f.id
            if n == "zip":
                c = self._consecutive(e.args)
                if c is not None:
                    self.site("reduction", "zip(x[:-1], x[1:])", e, [c])
                    return self.tag(c)
                seqs = [a for a in e.args if not isinstance(a, ast.Starred)]
                if len(seqs) >= 2:
                    self.site("pairing", "zip", e, seqs)
                return argtags[0] if argtags else TOP
            if n in ("enumerate", "list", "tuple", "iter", "reversed_keep"):
                return argtags[0] if argtags else TOP
            if n == "reversed":
                t = argtags[0] if argtags else TOP
                return Tag("sorted", t.base, t.key + " desc") if t.kind == "sorted" else t
            if n == "sorted":
                t = argtags[0] if argtags else TOP
                return Tag("sorted", t.base or self.txt(e.args[0]), self.txt(kw["key"]) if "key" in kw else "value")
            if n in ("len", "max", "min", "sum", "any", "all", "set", "frozenset", "int", "float", "str", "bool", "round", "abs",
                     "isinstance", "hasattr", "type", "id", "range", "dict"):
                return SCALAR if n != "range" else Tag("sorted", "range", "value")
            if n in ("deepcopy", "copy"):
                return argtags[0] if argtags else TOP
            return self._resolved_call(e, argtags)
        if isinstance(f, ast.Attribute):
            name = f.attr
            recv = f.value
            rt = self.tag(recv)
            rk = self.kind(recv)
            rtxt = self.txt(recv)
            # pandas / numpy module functions
            if rtxt in ("pd", "pandas", "np", "numpy"):
                if name == "concat":
                    parts = e.args[0].elts if e.args and isinstance(e.args[0], (ast.List, ast.Tuple)) else []
                    # sorted insertion: concatenate([X[:k], [v], X[k:]]) with k = searchsorted(X, v): X with v put in at its place —
                    # what sorting "X plus v" gives, when X is sorted
                    if name != "append" and len(parts) == 3 and all(isinstance(x, ast.Subscript) and isinstance(x.slice, ast.Slice) for x in (parts[0], parts[2])) and \
                            self.txt(parts[0].value) == self.txt(parts[2].value) and parts[0].slice.lower is None and parts[2].slice.upper is None and \
                            parts[0].slice.upper is not None and parts[2].slice.lower is not None and \
                            self.txt(parts[0].slice.upper) == self.txt(parts[2].slice.lower) and isinstance(parts[0].slice.upper, ast.Name):
                        kname = parts[0].slice.upper.id
                        xname = self.txt(parts[0].value)
                        kdefs = [n.value for n in ast.walk(self.fn.node) if isinstance(n, ast.Assign) and len(n.targets) == 1 and
                                 isinstance(n.targets[0], ast.Name) and n.targets[0].id == kname]
                        if len(kdefs) == 1 and isinstance(kdefs[0], ast.Call) and isinstance(kdefs[0].func, ast.Attribute) and \
                                kdefs[0].func.attr in ("searchsorted", "bisect_left", "bisect_right", "bisect") and kdefs[0].args and \
                                self.txt(kdefs[0].args[0]) == xname:
                            xt = self.tag(parts[0].value)
                            if xt.kind == "sorted":
                                return Tag("sorted", xt.base + "+sentinel", xt.key, xt.col)
                    pts = [self.tag(x) for x in parts]
                    real = [t for t in pts if t.kind in ("rows", "sorted", "grouped", "top")]
                    if parts and len(real) == 1 and real[0].kind in ("rows", "sorted") and len(pts) > 1:
                        return Tag("rows", real[0].base + "+sentinel", "", real[0].col)
                    return Tag("rows", self.fresh("concat"))
                if name == "merge":
                    # pandas: an outer join returns the union of keys sorted lexicographically (pandas_model: merge)
                    if "on" in kw and isinstance(kw["on"], ast.Constant) and self.txt(kw.get("how", ast.Constant(value="inner"))) == "'outer'" \
                            and not ("sort" in kw and self.txt(kw["sort"]) == "False"):
                        return Tag("sorted", self.fresh("merge"), str(kw["on"].value))
                    return Tag("rows", self.fresh("merge"))
                if name == "DataFrame":
                    if e.args and isinstance(e.args[0], ast.Dict):
                        seqs = [v for v in e.args[0].values if self.tag(v).kind in ("rows", "sorted")]
                        if len(seqs) >= 2:
                            self.site("pairing", "DataFrame({...})", e, seqs)
                        ts = [self.tag(v) for v in e.args[0].values if self.tag(v).kind in ("rows", "sorted")]
                        return ts[0] if ts else Tag("sorted", "literal", "written order")
                    return argtags[0] if argtags else TOP
                if name == "Series" and e.args and ("index" in kw or len(e.args) > 1):
                    # values are labelled with the index by position
                    ix = kw.get("index", e.args[1] if len(e.args) > 1 else None)
                    if ix is not None and self.tag(e.args[0]).kind in ("rows", "sorted", "top") and self.tag(ix).kind in ("rows", "sorted", "top"):
                        self.site("pairing", "Series(values, index=...)", e, [e.args[0], ix])
                if name in ("Series", "Index", "array", "asarray", "isnan", "where", "abs", "round", "floor", "ceil", "sign", "unique_keep"):
                    for t in argtags:
                        if t.kind in ("rows", "sorted", "grouped"):
                            return t
                    return argtags[0] if argtags else TOP
                if name in ("diff", "cumsum", "ediff1d"):
                    if e.args:
                        self.site("reduction", f"np.{name}", e, [e.args[0]])
                    return argtags[0] if argtags else TOP
                if name in ("max", "min", "sum", "mean", "lcm", "gcd", "unique", "argmax", "argmin", "median", "any", "all"):
                    return SCALAR
                if name in ("sort",):
                    # np.sort(x): x's elements in ascending order — like Series.sort_values() of the same column
                    a0 = argtags[0] if argtags else TOP
                    return Tag("sorted", a0.base if argtags else "", a0.col or "value", a0.col) if a0.kind != "top" else TOP
                if name in ("append", "concatenate", "hstack") and e.args:
                    # np.append(column, extras): the column's rows plus order-free extras — like pd.concat([column, extras])
                    parts = list(e.args[0].elts) if name != "append" and isinstance(e.args[0], (ast.List, ast.Tuple)) else list(e.args[:2])
                    # sorted insertion: concatenate([X[:k], [v], X[k:]]) with k = searchsorted(X, v): X with v put in at its place —
                    # what sorting "X plus v" gives, when X is sorted
                    if name != "append" and len(parts) == 3 and all(isinstance(x, ast.Subscript) and isinstance(x.slice, ast.Slice) for x in (parts[0], parts[2])) and \
                            self.txt(parts[0].value) == self.txt(parts[2].value) and parts[0].slice.lower is None and parts[2].slice.upper is None and \
                            parts[0].slice.upper is not None and parts[2].slice.lower is not None and \
                            self.txt(parts[0].slice.upper) == self.txt(parts[2].slice.lower) and isinstance(parts[0].slice.upper, ast.Name):
                        kname = parts[0].slice.upper.id
                        xname = self.txt(parts[0].value)
                        kdefs = [n.value for n in ast.walk(self.fn.node) if isinstance(n, ast.Assign) and len(n.targets) == 1 and
                                 isinstance(n.targets[0], ast.Name) and n.targets[0].id == kname]
                        if len(kdefs) == 1 and isinstance(kdefs[0], ast.Call) and isinstance(kdefs[0].func, ast.Attribute) and \
                                kdefs[0].func.attr in ("searchsorted", "bisect_left", "bisect_right", "bisect") and kdefs[0].args and \
                                self.txt(kdefs[0].args[0]) == xname:
                            xt = self.tag(parts[0].value)
                            if xt.kind == "sorted":
                                return Tag("sorted", xt.base + "+sentinel", xt.key, xt.col)
                    pts = [self.tag(x) for x in parts]
                    real = [t for t in pts if t.kind in ("rows", "sorted", "grouped", "top")]
                    if len(real) == 1 and real[0].kind in ("rows", "sorted") and len(pts) > 1:
                        return Tag("rows", real[0].base + "+sentinel", "", real[0].col)
                    return Tag("rows", self.fresh(name))
                return TOP
            if name in ("bisect", "bisect_left", "bisect_right"):
                return SCALAR
            if name in ELEMENTWISE_TM and e.args:
                return argtags[0]
            if name in ("bpm_changes_snap",) and not e.args:
                # a timing map keeps its tempo changes sorted by time (from_bpm_changes_offset / bpm_changes_offset_to_snap sort)
                return Tag("sorted", rt.base or rtxt, "time")
            if name == "stack" and rk[0] in ("chart", "mapset"):
                return Tag("rows", self.txt(e))
            if name in ("sort_values", "sorted", "sort_index"):
                key = self.txt(e.args[0]) if e.args else (self.txt(kw["by"]) if "by" in kw else (
                    "offset" if name == "sorted" else (rt.col or "value")))
                desc = ""
                if "ascending" in kw and self.txt(kw["ascending"]) == "False":
                    desc = " desc"
                if "reverse" in kw and self.txt(kw["reverse"]) != "False":
                    desc = " desc?"
                return Tag("sorted", rt.base or rtxt, key.strip("'\"[]") + desc, rt.col)
            if name == "groupby":
                gk = self.txt(e.args[0]) if e.args else self.txt(kw.get("level", ast.Constant(value="?")))
                if "sort" in kw and self.txt(kw["sort"]) == "False":
                    # groups come in order of first appearance: deterministic only if the frame is sorted by the group key
                    self.site("reduction", f"groupby({gk.strip(chr(39) + chr(34))}, sort=False)", e, [recv])
                    return Tag("rows", rt.base or rtxt)
                return Tag("grouped", rt.base, gk)
            if name in ("first", "last", "nth", "head", "tail") and self._is_groupby(recv):
                self.site("reduction", f"groupby().{name}()", e, [recv.func.value])
                return Tag("grouped", rt.base, rt.key)
            if name in ("first", "last") and rt.kind == "grouped":
                # groupby result bound to a name earlier
                self.site("reduction", f"groupby().{name}()", e, [recv])
                return rt
            if name == "set_axis" and e.args:
                self.site("pairing", "set_axis", e, [recv, e.args[0]])
                return rt
            if name in ORDER_DEPENDENT:
                if rt.kind != "grouped":
                    self.site("reduction", name, e, [recv])
                return rt
            if name == "argsort":
                return Tag("argsort", rt.base or rtxt, "")
            if name in TIE_DEPENDENT:
                return SCALAR
            if name in ORDER_REDUCE_SCALAR:
                return SCALAR
            if name == "agg" or name == "aggregate":
                return rt
            if name == "append" and rk[0] == "list":
                return Tag("rows", self.fresh("append"))
            if name == "assign":
                for k in e.keywords:
                    if isinstance(k.value, ast.Lambda) and k.value.args.args:
                        saved = dict(self.env)
                        self.env[k.value.args.args[0].arg] = rt
                        self.tag(k.value.body)
                        self.env = saved
                return rt
            if name in ("join",) and rk[0] == "str":
                return SCALAR
            if rk[0] == "list" and len(rk) > 1 and isinstance(rk[1], str) and rk[1] in self.M.classes and name not in ORDER_KEEP:
                # a method of a repository list class: if its body sorts (self.sorted() / sort_values) the values it returns are
                # in time order, not in the receiver's row order
                mq = self.M.method(rk[1], name)
                if mq and mq in self.M.funcs:
                    body_txt = ast.unparse(self.M.funcs[mq].node)
                    if "self.sorted()" in body_txt or ".sort_values(" in body_txt:
                        return Tag("sorted", rt.base or rtxt, "offset")
            if name in ORDER_KEEP or rk[0] in ("df", "series", "nd") or rt.kind in ("rows", "sorted", "grouped"):
                if name in ("get", "pop", "split", "strip", "format", "encode", "decode", "startswith", "endswith", "index"):
                    return SCALAR if rk[0] in ("str", "bytes", "dict") else TOP
                return rt
            return self._resolved_call(e, argtags)
        return TOP

    def _resolved_call(self, e: ast.Call, argtags) -> Tag:
        k = self.kind(e)
        if k[0] in ("num", "str", "bool", "none", "bytes", "frac"):
            return SCALAR
        # constructor of a list class keeps the order of its argument
        fk = self.kind(e.func)
        if fk[0] == "type" and argtags:
            return argtags[0]
        return TOP


def analyse_function(ctx, qual: str, self_kind=None, normal: bool = False) -> List[Site]:
    key = ("order", qual, self_kind, normal)
    if key not in ctx.cache:
        oi = OrderInterp(ctx, qual, self_kind, normal)
        oi._group_src = {}
        # remember names bound to a groupby so that iterating them recovers the frame's tag
        for n in walk_no_nested(oi.fn.node):
            if isinstance(n, ast.Assign) and isinstance(n.targets[0], ast.Name):
                root = n.value
                while isinstance(root, ast.Call) and isinstance(root.func, ast.Attribute) and root.func.attr != "groupby":
                    root = root.func.value
                if isinstance(root, ast.Call) and isinstance(root.func, ast.Attribute) and root.func.attr == "groupby":
                    oi._group_src[n.targets[0].id] = None
        try:
            # resolve the group sources lazily while running: patch bind for those names
            orig_bind = oi.bind

            def bind(tgt, t, value, _o=orig_bind):
                _o(tgt, t, value)
                if isinstance(tgt, ast.Name) and tgt.id in oi._group_src:
                    root = value
                    while isinstance(root, ast.Call) and isinstance(root.func, ast.Attribute) and root.func.attr != "groupby":
                        root = root.func.value
                    if isinstance(root, ast.Call):
                        oi._group_src[tgt.id] = oi.tag(root.func.value)
            oi.bind = bind
            ctx.cache[key] = oi.run()
        except Exception as ex:  # pragma: no cover - reported by the caller as undecided
            ctx.cache[key] = ex
    return ctx.cache[key]


def callees(ctx, qual: str) -> List[str]:
    """resolved callees of a function (one level), through the typer."""
    M = ctx.M
    fn = M.funcs.get(qual)
    if fn is None:
        return []
    ty = ctx.W.typer(qual, None)
    out = []
    for n in walk_no_nested(fn.node):
        if isinstance(n, ast.Call) and ty is not None:
            try:
                k = ty.kind(n.func)
            except Exception:
                continue
            if k[0] in ("bound", "func") and isinstance(k[1], str) and k[1] in M.funcs:
                out.append(k[1])
            elif k[0] == "type" and isinstance(k[1], tuple) and len(k[1]) > 1 and isinstance(k[1][1], str):
                init = M.method(k[1][1], "__init__") if k[1][1] in M.classes else None
                if init:
                    out.append(init)
            else:
                # receiver not typed: a method name with a single definition in the repository resolves by name
                # (e.g. `self._item_class().from_series(...)`); copy.deepcopy reaches every copy hook
                nm = n.func.attr if isinstance(n.func, ast.Attribute) else n.func.id if isinstance(n.func, ast.Name) else None
                if nm in ("deepcopy", "copy") and not (isinstance(n.func, ast.Attribute) and nm == "copy"):
                    out.extend(q for q in M.funcs if q.endswith(("." + "__deepcopy__", "." + "__copy__")) and "_sa_controls" not in q)
                elif isinstance(n.func, ast.Attribute) and nm and not nm.startswith("__"):
                    cands = [q for q in M.funcs_named(nm) if "_sa_controls" not in q and M.funcs[q].cls]
                    if len(cands) == 1:
                        out.append(cands[0])
        elif isinstance(n, ast.Attribute) and ty is not None and isinstance(n.ctx, ast.Load):
            # property getters written as methods (tail_offset, head_offset, beat_length, ...) and indexing dunders
            try:
                bk = ty.kind(n.value)
            except Exception:
                continue
            if bk[0] in ("list", "item", "chart", "mapset", "inst", "stacker") and len(bk) > 1 and isinstance(bk[1], str) and bk[1] in M.classes:
                mq = M.method(bk[1], n.attr)
                if mq and mq in M.funcs and M.funcs[mq].is_property:
                    out.append(mq)
        elif isinstance(n, ast.Subscript) and ty is not None:
            try:
                bk = ty.kind(n.value)
            except Exception:
                continue
            if bk[0] in ("list", "chart", "mapset", "stacker") and len(bk) > 1 and isinstance(bk[1], str) and bk[1] in M.classes:
                mq = M.method(bk[1], "__getitem__" if isinstance(n.ctx, ast.Load) else "__setitem__")
                if mq:
                    out.append(mq)
    return sorted(set(out))


def closure(ctx, entries: List[str], exclude=lambda q: False, limit=400) -> List[str]:
    seen, todo = [], list(entries)
    while todo and len(seen) < limit:
        q = todo.pop(0)
        if q in seen or exclude(q):
            continue
        seen.append(q)
        todo.extend(c for c in callees(ctx, q) if c not in seen)
    return seen
