"""setup_cmd helper: validates tables and the manifest against the schemas present in the sandbox."""
import json, pathlib, sys
VERIF = pathlib.Path(__file__).resolve().parent.parent


def main():
    man = json.loads((VERIF / "MANIFEST.json").read_text())
    kf = VERIF / "known_findings.json"
    if kf.exists():
        json.loads(kf.read_text())
    for p in (VERIF / "sa" / "tables").glob("*.json"):
        json.loads(p.read_text())
    try:
        import jsonschema
        sch = pathlib.Path("/root/.vp/MANIFEST.schema.json")
        if sch.exists():
            jsonschema.validate(man, json.loads(sch.read_text()))
    except ImportError:
        pass
    (VERIF / "evidence").mkdir(exist_ok=True)
    print("setup ok:", len(man["checks"]), "checks")


if __name__ == "__main__":
    sys.exit(main())
