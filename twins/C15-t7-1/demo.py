"""Demo for change 1 (hitsound_copy): broad, seeded inputs -> one DIGEST line."""
import hashlib
import logging
import random
import warnings

import numpy as np
import pandas as pd

from reamber.algorithms.osu.hitsound_copy import hitsound_copy
from reamber.osu import OsuMap
from reamber.osu.OsuHit import OsuHit
from reamber.osu.OsuHold import OsuHold
from reamber.osu.OsuBpm import OsuBpm
from reamber.osu.OsuSample import OsuSample
from reamber.osu.lists.OsuBpmList import OsuBpmList
from reamber.osu.lists.OsuSampleList import OsuSampleList
from reamber.osu.lists.notes.OsuHitList import OsuHitList
from reamber.osu.lists.notes.OsuHoldList import OsuHoldList

warnings.simplefilter("ignore")
random.seed(150015)

OUT = []


def emit(*a):
    OUT.append(" ".join(str(x) for x in a))


def dump_df(tag, df):
    emit(tag, "type", type(df).__name__, "shape", df.shape)
    emit(tag, "columns", list(df.columns))
    emit(tag, "dtypes", [str(t) for t in df.dtypes])
    emit(tag, "index", type(df.index).__name__, str(df.index.dtype), list(df.index))
    for row in df.itertuples(index=True, name=None):
        emit(tag, "row", [(type(v).__name__, repr(v)) for v in row])


def dump_map(tag, m):
    emit(tag, "class", type(m).__name__, "objs", list(m.objs.keys()))
    for k, v in m.objs.items():
        emit(tag, k, type(v).__name__)
        dump_df(tag + "." + k, v.df)
    emit(tag, "samples", type(m.samples).__name__)
    dump_df(tag + ".samples", m.samples.df)


class Capture(logging.Handler):
    def emit(self, record):
        emit("LOG", record.levelname, record.getMessage())


hlog = logging.getLogger("reamber.algorithms.osu.hitsound_copy")
hlog.setLevel(logging.DEBUG)
hlog.addHandler(Capture())
hlog.propagate = False

FILES = ["", "", "", "a.wav", "b.wav", "kick.ogg"]
VOLS = [0, 0, 20, 30, 30, 70, 100, -5]


def rnd_note_kwargs(sounds):
    if not sounds or random.random() < 0.3:
        return {}
    return dict(
        hitsound_set=random.choice([0, 0, 2, 4, 8, 6, 10, 12, 14, 1, 3, 15]),
        sample_set=random.choice([0, 0, 0, 1, 2]),
        addition_set=random.choice([0, 0, 0, 1, 3]),
        custom_set=random.choice([0, 0, 0, 1]),
        volume=random.choice(VOLS),
        hitsound_file=random.choice(FILES),
    )


def make_map(offsets, n_hits, n_holds, keys, sounds, order):
    hits = [
        OsuHit(offset=random.choice(offsets), column=random.randrange(keys),
               **rnd_note_kwargs(sounds))
        for _ in range(n_hits)
    ]
    holds = [
        OsuHold(offset=random.choice(offsets), column=random.randrange(keys),
                length=random.choice([50.0, 100.0, 250.5, 1000.0]),
                **rnd_note_kwargs(sounds))
        for _ in range(n_holds)
    ]
    m = OsuMap()
    m.circle_size = keys
    hl, ol = OsuHitList(hits), OsuHoldList(holds)
    if order == "sorted":
        hl, ol = hl.sorted(), ol.sorted()
    elif order == "reverse":
        hl, ol = hl.sorted(reverse=True), ol.sorted(reverse=True)
    elif order == "append":
        # grow the lists with append(sort=False): rows arrive out of order
        hl2, ol2 = OsuHitList([]), OsuHoldList([])
        for h in hits:
            hl2 = hl2.append(h) if len(hl2) else OsuHitList([h])
        for h in holds:
            ol2 = ol2.append(h) if len(ol2) else OsuHoldList([h])
        hl, ol = hl2, ol2
    elif order == "concat":
        if len(hits) > 1:
            a, b = OsuHitList(hits[len(hits) // 2:]), OsuHitList(hits[: len(hits) // 2])
            hl = a.append(b)
    # "shuffled": as constructed (random)
    m.hits = hl
    m.holds = ol
    m.bpms = OsuBpmList([OsuBpm(offset=0, bpm=150)])
    if random.random() < 0.5:
        m.samples = OsuSampleList(
            [OsuSample(offset=random.choice(offsets), sample_file="old.wav", volume=40)]
        )
    return m


ORDERS = ["shuffled", "sorted", "reverse", "append", "concat"]
cases = []
# generated cases
for i in range(60):
    n_off = random.choice([1, 2, 3, 5, 8])
    offsets = sorted({float(random.choice([-500, 0, 100, 250, 1000, 1000.5, 2000, 3333]))
                      for _ in range(n_off)})
    keys = random.choice([4, 4, 7, 1, 10])
    src = make_map(offsets, random.choice([0, 1, 3, 6, 12]), random.choice([0, 0, 2, 5]),
                   keys, True, random.choice(ORDERS))
    tgt_offsets = offsets + [float(random.choice([50, 4000]))]
    tgt = make_map(tgt_offsets, random.choice([0, 1, 2, 5, 9]), random.choice([0, 0, 1, 4]),
                   random.choice([4, 7]), random.random() < 0.3, random.choice(ORDERS))
    cases.append((f"gen{i}", src, tgt))

# hand-made edge cases
def hit(o, c, **kw):
    return OsuHit(offset=o, column=c, **kw)

def hold(o, c, l, **kw):
    return OsuHold(offset=o, column=c, length=l, **kw)

def mk(hits, holds):
    m = OsuMap()
    m.hits = OsuHitList(hits)
    m.holds = OsuHoldList(holds)
    m.bpms = OsuBpmList([OsuBpm(offset=0, bpm=120)])
    return m

# many default sounds at one offset, fewer slots than sounds, mixed volumes
cases.append(("edge_many", mk(
    [hit(100, 0, hitsound_set=2, volume=20), hit(100, 1, hitsound_set=2, volume=20),
     hit(100, 2, hitsound_set=14, volume=20), hit(100, 3, hitsound_set=4, volume=30),
     hit(100, 0, hitsound_set=8, volume=30), hit(100, 1, hitsound_file="x.wav", volume=20),
     hit(100, 2, hitsound_file="y.wav", volume=0)],
    [hold(100, 3, 50.0, hitsound_set=6, volume=30)]),
    mk([hit(100, 0), hit(100, 1)], [hold(100, 2, 80.0)])))
# all three counts differ: 3 claps, 2 finishes, 1 whistle in one volume group
cases.append(("edge_counts", mk(
    [hit(0, 0, hitsound_set=14, volume=50), hit(0, 1, hitsound_set=6, volume=50),
     hit(0, 2, hitsound_set=2, volume=50)], []),
    mk([hit(0, c) for c in (3, 1, 2, 0)], [])))
cases.append(("edge_counts_rev", mk(
    [hit(0, 2, hitsound_set=2, volume=50), hit(0, 1, hitsound_set=6, volume=50),
     hit(0, 0, hitsound_set=14, volume=50)], []),
    mk([hit(0, c) for c in (0, 2)], [hold(0, 1, 10.0), hold(0, 3, 10.0)])))
# empty source / empty target / both
cases.append(("edge_empty_src", mk([], []), mk([hit(0, 0), hit(5, 1)], [hold(7, 2, 9.0)])))
cases.append(("edge_empty_tgt", mk([hit(0, 0, hitsound_set=2)], []), mk([], [])))
cases.append(("edge_empty_both", mk([], []), mk([], [])))
# no matching offsets at all: everything becomes samples / is dropped
cases.append(("edge_nomatch", mk(
    [hit(10, 0, hitsound_set=2, volume=10), hit(10, 0, hitsound_file="z.wav", volume=10)], []),
    mk([hit(20, 0)], [])))
# hitsound_set 1 (normal) only: filtered in, but contributes no clap/finish/whistle
cases.append(("edge_normal_only", mk([hit(10, 0, hitsound_set=1, volume=10)], []),
              mk([hit(10, 0, hitsound_set=8)], [])))
# negative and zero volume
cases.append(("edge_negvol", mk(
    [hit(10, 0, hitsound_set=10, volume=-5), hit(10, 1, hitsound_set=4, volume=0)], []),
    mk([hit(10, 1), hit(10, 0), hit(10, 2)], [])))

for name, src, tgt in cases:
    src_before, tgt_before = src.deepcopy(), tgt.deepcopy()
    emit("CASE", name)
    try:
        res = hitsound_copy(src, tgt)
    except Exception as e:  # noqa
        emit("RAISED", type(e).__name__)
    else:
        emit("result is tgt", res is tgt)
        dump_map("res", res)
    # the inputs afterwards
    dump_map("src_after", src)
    dump_map("tgt_after", tgt)
    for k in src.objs:
        emit("src unchanged", k, src.objs[k].df.equals(src_before.objs[k].df))
    for k in tgt.objs:
        emit("tgt unchanged", k, tgt.objs[k].df.equals(tgt_before.objs[k].df))

text = "\n".join(OUT)
print("DIGEST", hashlib.sha256(text.encode("utf8")).hexdigest())
