"""F51 (C08 / C16): BMS sample default 0 (declared) vs b'' (constructor).
Run:  cd /repo && /venv/bin/python /verif/triage/probes/F51_bms_sample_default.py   (pinned tree: TypeError: decoding to str)"""
import warnings
warnings.simplefilter("ignore")
from reamber.osu.OsuMap import OsuMap
from reamber.algorithms.convert import OsuToBMS, BMSToOsu
bms = OsuToBMS.convert(OsuMap.read_file("rsc/maps/osu/Gravity.osu"))
assert isinstance(bms.hits.sample.iloc[0], bytes), type(bms.hits.sample.iloc[0])
back = BMSToOsu.convert(bms)
assert len(back.hits) == len(bms.hits)
print("ok")
