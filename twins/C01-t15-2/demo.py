"""Demo for C01 k=2: OsuSample.read_string.

Exercises OsuSample.read_string directly, through OsuSampleList.read, and
through OsuMap.read / write / read_file / write_file ([Events] ->
"//Storyboard Sound Samples") on generated inputs, and prints one sha256 digest
over a canonical text of everything observed.

Run:  cd /tmp/r15/C01 && PYTHONPATH=/tmp/r15/C01 /venv/bin/python demo.py
"""
import copy
import hashlib
import os
import random
import sys
import tempfile

import pandas as pd

import reamber
from reamber.osu.OsuMap import OsuMap
from reamber.osu.OsuSample import OsuSample
from reamber.osu.lists.OsuSampleList import OsuSampleList

print(reamber.__file__, file=sys.stderr)

rng = random.Random(150122)
out: list[str] = []


def emit(*parts):
    out.append(" | ".join(str(p) for p in parts))


def canon_df(df: pd.DataFrame) -> str:
    rows = [
        "cols=" + repr(list(df.columns)),
        "dtypes=" + repr([str(t) for t in df.dtypes]),
        "index=" + repr(list(df.index)) + ":" + str(df.index.dtype),
    ]
    for ix, row in df.iterrows():
        rows.append(
            repr(ix) + "->" + repr([(type(v).__name__, repr(v)) for v in row.tolist()])
        )
    return "\n".join(rows)


def canon_map(m: OsuMap) -> str:
    parts = []
    for name in ("bpms", "svs", "hits", "holds", "samples"):
        lst = getattr(m, name)
        parts.append(f"<{name}:{type(lst).__name__}>")
        parts.append(canon_df(lst.df))
    parts.append(
        repr(
            (
                m.circle_size,
                m.title,
                m.title_unicode,
                m.artist,
                m.version,
                m.tags,
                m.preview_time,
                m.background_file_name,
            )
        )
    )
    return "\n".join(parts)


def attempt(label, fn):
    try:
        return fn()
    except BaseException as e:  # noqa
        ctx = e.__context__
        emit(
            label,
            "EXC",
            type(e).__name__,
            repr(e.args),
            "ctx=" + (type(ctx).__name__ + repr(ctx.args) if ctx is not None else "None"),
            "cause=" + repr(e.__cause__),
        )
        return None


def canon_item(r) -> str:
    if isinstance(r, dict):
        return "dict" + repr([(k, type(v).__name__, repr(v)) for k, v in r.items()])
    if isinstance(r, OsuSample):
        return (
            "OsuSample"
            + repr([(k, type(v).__name__, repr(v)) for k, v in r.data.items()])
            + ":"
            + str(r.data.dtype)
            + ":"
            + repr(list(r.data.index))
        )
    return type(r).__name__ + ":" + repr(r)


# ---------------------------------------------------------------- generators
FILES = [
    '"clap.wav"',
    "clap.wav",
    '"sub dir/soft-hitnormal2.ogg"',
    '"ノーツ.wav"',
    '"Ünï çödé.mp3"',
    '"a:b:c.wav"',
    '""',
    "",
    '"with space .wav "',
    '"C:\\\\sounds\\\\x.wav"',
]


def rnd_time():
    c = rng.randrange(7)
    if c == 0:
        return str(rng.randint(-5000, 5000))
    if c == 1:
        return repr(round(rng.uniform(-3000, 400000), rng.randint(1, 6)))
    if c == 2:
        return str(rng.randint(10**6, 10**9))
    if c == 3:
        return repr(rng.uniform(-1, 1))
    if c == 4:
        return rng.choice(["-0", "1e3", " 42 ", "+7", "-0.999", "1_000"])
    return str(rng.randint(0, 200000))


def good_sample():
    c = rng.randrange(5)
    head = f"Sample,{rnd_time()},{rng.choice([0, 1, 2, 3])},{rng.choice(FILES)}"
    if c == 0:
        return head  # no volume -> default 100
    if c == 1:
        return head + f",{rng.randint(0, 100)},extra,fields"  # more than 5 fields
    if c == 2:
        return head + "," + rng.choice([" 70", "70 ", "+5", "-3", "007", "1_0"])
    return head + f",{rng.randint(0, 100)}"


def bad_sample():
    c = rng.randrange(10)
    if c == 0:
        return "Sample"  # 1 field -> IndexError on [1]
    if c == 1:
        return f"Sample,{rnd_time()}"  # 2 fields -> IndexError on [3]
    if c == 2:
        return f"Sample,{rnd_time()},0"  # 3 fields -> IndexError on [3]
    if c == 3:
        return "Sample,abc"  # float fails before the missing field is touched
    if c == 4:
        return "Sample,,0"  # float('') fails first
    if c == 5:
        return f'Sample,x{rng.randint(0, 9)},0,"f.wav",50'  # bad offset
    if c == 6:
        return f'Sample,{rnd_time()},0,"f.wav",{rng.choice(["50.5", "", "loud", "1e2", "0x10"])}'
    if c == 7:
        return f'Sample,{rng.choice(["nan", "inf", "-inf"])},0,"f.wav",10'  # floats parse
    if c == 8:
        return f'Sample,{rnd_time()},0,"f.wav",'  # trailing comma -> int('')
    return rng.choice(["", ",", ",,,", "Sample,1,2,3,4,5,6,7", "SampleSet: Soft", "Samples,3,0,q.wav,5"])


def hit_line(keys):
    col = rng.randrange(keys)
    lo = -(-512 * col // keys)
    hi = -(-512 * (col + 1) // keys) - 1
    x = rng.randint(lo, max(lo, hi))
    t = rng.randint(-2000, 300000)
    return f"{x},192,{t},1,{rng.randint(0, 14)},{rng.randint(0, 3)}:{rng.randint(0, 3)}:{rng.randint(0, 9)}:{rng.randint(0, 100)}:{rng.choice(['', 'hit.wav'])}"


def hold_line(keys):
    col = rng.randrange(keys)
    lo = -(-512 * col // keys)
    hi = -(-512 * (col + 1) // keys) - 1
    x = rng.randint(lo, max(lo, hi))
    t = rng.randint(-2000, 300000)
    ln = rng.choice([0, 1, rng.randint(1, 5000)])
    return f"{x},192,{t},128,{rng.randint(0, 14)},{t + ln}:{rng.randint(0, 3)}:{rng.randint(0, 3)}:{rng.randint(0, 9)}:{rng.randint(0, 100)}:{rng.choice(['', 'ln.wav'])}"


TITLES = ["Plain", "Re:Zero: the:map", "夜に駆ける", "a : b"]


def osu_text(keys, event_tail, n_hit, n_hold):
    title = rng.choice(TITLES)
    head = [
        "osu file format v14",
        "",
        "[General]",
        "AudioFilename: audio.mp3",
        "AudioLeadIn: 0",
        f"PreviewTime: {rng.choice([-1, 0, 12345])}",
        "Countdown: 0",
        "SampleSet: Soft",
        "StackLeniency: 0.7",
        "Mode: 3",
        "LetterboxInBreaks: 0",
        "SpecialStyle: 0",
        "WidescreenStoryboard: 0",
        "",
        "[Editor]",
        "DistanceSpacing: 1.2",
        "BeatDivisor: 4",
        "GridSize: 8",
        "TimelineZoom: 2.5",
        "",
        "[Metadata]",
        f"Title:{title}",
        f"TitleUnicode:{title}",
        "Artist:Some:one",
        "ArtistUnicode:Some:one",
        "Creator:me",
        f"Version:{keys}K: Another",
        "Source:",
        "Tags:a b  c",
        "BeatmapID:1",
        "BeatmapSetID:2",
        "",
        "[Difficulty]",
        "HPDrainRate:8",
        f"CircleSize:{keys}",
        "OverallDifficulty:8",
        "ApproachRate:5",
        "SliderMultiplier:1.4",
        "SliderTickRate:1",
        "",
        "[Events]",
        "//Background and Video events",
        '0,0,"bg.jpg",0,0',
        "//Break Periods",
        "//Storyboard Layer 0 (Background)",
    ]
    tps = [
        f"{rng.randint(-100, 100)},{rng.choice(['500', '333.333333333333', '400'])},4,1,0,50,1,0",
        f"{rng.randint(0, 9000)}.5,-{rng.randint(10, 400)},4,1,0,50,0,1",
    ]
    notes = [hit_line(keys) for _ in range(n_hit)] + [
        hold_line(keys) for _ in range(n_hold)
    ]
    rng.shuffle(notes)
    return (
        head
        + event_tail
        + ["", "[TimingPoints]"]
        + tps
        + ["", "", "[HitObjects]"]
        + notes
        + [""]
    )


# ------------------------------------------------ A. direct read_string calls
direct = [good_sample() for _ in range(50)] + [bad_sample() for _ in range(50)]


class MyStr(str):
    pass


direct.append(MyStr('Sample,12.5,0,"sub.wav",33'))
direct.append(MyStr("Sample,12.5"))
direct.append('Sample,5,0,"nl.wav",9\n')
direct.append(" Sample , 8 , 0 , f.wav , 9 ")

for i, s in enumerate(direct):
    before = str(s)
    for as_dict in (False, True, 1, 0, None, "yes"):
        r = attempt(f"A{i}:{as_dict!r}", lambda: OsuSample.read_string(s, as_dict))
        if r is not None:
            emit(f"A{i}", repr(as_dict), repr(s), canon_item(r))
            if isinstance(r, OsuSample):
                emit(f"A{i}", "write", attempt(f"A{i}:write", lambda: r.write_string()))
    # default for as_dict and keyword form
    r = attempt(f"A{i}:default", lambda: OsuSample.read_string(s))
    if r is not None:
        emit(f"A{i}", "default", canon_item(r))
    r = attempt(f"A{i}:kw", lambda: OsuSample.read_string(s=s, as_dict=True))
    if r is not None:
        emit(f"A{i}", "kw", canon_item(r))
    assert s == before

# two reads of the same line give independent results
d1 = OsuSample.read_string('Sample,1,0,"a.wav",2', True)
d2 = OsuSample.read_string('Sample,1,0,"a.wav",2', True)
d1["volume"] = 99
emit("A-indep", canon_item(d1), canon_item(d2), d1 is d2)

# through an instance (staticmethod)
inst = OsuSample(offset=3.75, sample_file='"i.wav"', volume=12)
emit("A-inst", canon_item(inst.read_string(inst.write_string())), canon_item(inst))

# non-string arguments: the exception type is part of the behaviour
for j, bad in enumerate([None, 7, 1.5, b'Sample,1,0,"f.wav",5', ["Sample", "1", "0", "f", "5"], ("a",)]):
    snap = copy.deepcopy(bad)
    for as_dict in (True, False):
        r = attempt(f"A-bad{j}:{as_dict}", lambda: OsuSample.read_string(bad, as_dict))
        emit(f"A-bad{j}", as_dict, type(r).__name__)
    emit(f"A-bad{j}", "input-after", repr(bad), bad == snap)

# ------------------------------------------------------ B. OsuSampleList.read
for i in range(20):
    n = rng.choice([0, 1, 2, 5, 12])
    lines = [good_sample() for _ in range(n)]
    if i % 5 == 4 and n:
        lines[rng.randrange(n)] = bad_sample()  # one bad line -> whole read raises
    snap = list(lines)
    r = attempt(f"B{i}:read", lambda: OsuSampleList.read(lines))
    emit(f"B{i}", "input-after", lines == snap)
    if r is None:
        continue
    emit(f"B{i}", type(r).__name__, canon_df(r.df))
    w = attempt(f"B{i}:write", lambda: r.write())
    emit(f"B{i}", "write", repr(w))
    if w is not None:
        r2 = attempt(f"B{i}:reread", lambda: OsuSampleList.read(w))
        if r2 is not None:
            emit(f"B{i}", "reread", canon_df(r2.df), r2.write() == w)
    # non-default row labels after a filter
    if len(r) > 2:
        f = OsuSampleList(r.df[r.df.volume >= r.df.volume.median()])
        emit(f"B{i}", "filtered", repr(list(f.df.index)), repr(f.write()))
        emit(f"B{i}", "filtered-reread", canon_df(OsuSampleList.read(f.write()).df))

# ------------------------------------------------ C. whole charts, all keys
tmpdir = tempfile.mkdtemp(prefix="c01k2_")
for i in range(45):
    keys = (i % 18) + 1
    n_good = rng.choice([0, 1, 3, 7, 15])
    samples = [good_sample() for _ in range(n_good)]
    rng.shuffle(samples)  # unsorted rows
    tail = ["//Storyboard Sound Samples"] + samples
    if i in (5, 17, 29, 41):  # a malformed Sample line aborts the read
        tail.insert(rng.randint(1, len(tail)), bad_sample())
    if i == 8:  # no header -> no samples are read at all
        tail = samples
    if i == 9:  # header twice: the later one wins (re-read of the remaining lines)
        tail = tail + ["//Storyboard Sound Samples", good_sample()]
    if i == 10:  # other event lines between samples are skipped by the prefix filter
        tail = tail[:1] + ['Sprite,Foreground,Centre,"sb.png",320,240', " M,0,0,1,2"] + tail[1:] + ["//Background Colour Transformations", "3,100,163,162,255"]
    if i == 11:  # a line that merely starts with "Sample"
        tail.append(rng.choice(["Samples,3,0,q.wav,5", "SampleRate,44100,0,r.wav"]))
    if i % 6 == 0:  # whitespace around lines is stripped by OsuMap.read
        tail = [rng.choice(["", " ", "\t"]) + t + rng.choice(["", " ", "\r"]) for t in tail]
    lines = osu_text(keys, tail, rng.choice([0, 3, 10]), rng.choice([0, 2, 6]))
    snap = list(lines)

    m = attempt(f"C{i}:read", lambda: OsuMap.read(lines))
    emit(f"C{i}", "input-after", lines == snap, len(lines))
    if m is None:
        continue
    emit(f"C{i}", "keys", keys, "read", canon_map(m))

    gen1 = attempt(f"C{i}:write1", lambda: m.write())
    if gen1 is None:
        continue
    emit(f"C{i}", "gen1", repr(gen1))
    emit(f"C{i}", "map-unchanged-by-write", canon_map(m) == canon_map(OsuMap.read(snap)))
    m2 = attempt(f"C{i}:read2", lambda: OsuMap.read("\n".join(gen1).split("\n")))
    if m2 is None:
        continue
    gen2 = m2.write()
    m3 = attempt(f"C{i}:read3", lambda: OsuMap.read("\n".join(gen2).split("\n")))
    if m3 is None:
        continue
    gen3 = m3.write()
    emit(f"C{i}", "gen2", repr(gen2))
    emit(f"C{i}", "gen2==gen3", gen2 == gen3, canon_map(m2) == canon_map(m3))

    if i % 3 == 0:  # through files
        path = os.path.join(tmpdir, f"c{i}.osu")
        m.write_file(path)
        with open(path, encoding="utf8") as f:
            emit(f"C{i}", "file", hashlib.sha256(f.read().encode("utf8")).hexdigest())
        mf = attempt(f"C{i}:read_file", lambda: OsuMap.read_file(path))
        if mf is not None:
            emit(f"C{i}", "file-read", canon_map(mf))
        os.remove(path)

    if i % 4 == 2 and len(m.samples) > 1:
        # rate() copies the map and rescales the sample offsets
        r = m.rate(1.5)
        emit(f"C{i}", "rate", canon_df(r.samples.df), canon_df(m.samples.df))
        rr = attempt(f"C{i}:rate-reread", lambda: OsuMap.read("\n".join(r.write()).split("\n")))
        if rr is not None:
            emit(f"C{i}", "rate-reread", canon_df(rr.samples.df))

# in-memory charts with samples -> text -> chart
for i in range(10):
    m = OsuMap()
    m.circle_size = rng.randint(1, 18)
    n = rng.choice([0, 1, 4, 9])
    m.samples = OsuSampleList(
        [
            OsuSample(
                offset=rng.choice([rng.uniform(-999, 99999), float(rng.randint(-50, 50)), -0.5, 0.999]),
                sample_file=rng.choice(FILES),
                volume=rng.randint(0, 100),
            )
            for _ in range(n)
        ]
    )
    before = canon_map(m)
    w = m.write()
    emit(f"D{i}", "write", repr(w))
    emit(f"D{i}", "unchanged", canon_map(m) == before)
    r = attempt(f"D{i}:read", lambda: OsuMap.read("\n".join(w).split("\n")))
    if r is not None:
        emit(f"D{i}", "read", canon_map(r))
        w2 = r.write()
        emit(f"D{i}", "stable", w2 == OsuMap.read("\n".join(w2).split("\n")).write())

os.rmdir(tmpdir)

text = "\n".join(out)
print(f"{len(out)} records", file=sys.stderr)
print(hashlib.sha256(text.encode("utf8")).hexdigest())
