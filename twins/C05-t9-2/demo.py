"""Demo for the BMSMap._write_file_header refactoring (property C05).

Builds several dozen in-memory BMS charts whose header material covers the
quantified domain and its edges (str / bytes / Japanese / unencodable texts,
empty and large misc and sample tables with str or bytes keys, with and without
#LNOBJ and holds, 0 .. 1295+ tempo points with int / float / numpy BPM values)
and digests

  * the bytes returned by _write_file_header (or the raised exception type),
  * the bytes returned by write() for the charts that also have notes,
  * the chart read back from the written bytes (values, dtypes, columns, labels;
    this also checks that the #BPMxx ids of the header are the ids of the notes),
  * the in-memory chart AFTER writing (must not be modified).

Prints one line: DIGEST <sha256>
"""
import hashlib
import random
import warnings
from pathlib import Path

import numpy as np

from reamber.bms import BMSMap, BMSHit, BMSHold
from reamber.bms.BMSBpm import BMSBpm
from reamber.bms.BMSChannel import BMSChannel
from reamber.bms.lists import BMSBpmList
from reamber.bms.lists.notes import BMSHitList, BMSHoldList

warnings.simplefilter("ignore")
random.seed(20202)

OUT = []


def emit(*parts):
    OUT.append(" | ".join(str(p) for p in parts))


def dump_df(tag, df):
    emit(tag, "columns", list(df.columns), "dtypes", [str(t) for t in df.dtypes])
    emit(tag, "index", list(df.index))
    for row in df.itertuples(index=True):
        emit(tag, "row", [repr(v) for v in row])


def dump_map(tag, m, frames=True):
    if frames:
        dump_df(tag + ".hits", m.hits.df)
        dump_df(tag + ".holds", m.holds.df)
        dump_df(tag + ".bpms", m.bpms.df)
    else:
        emit(tag, "sizes", len(m.hits), len(m.holds), len(m.bpms),
             [str(t) for t in m.bpms.df.dtypes])
    emit(tag, "meta", repr(m.title), repr(m.artist), repr(m.version))
    emit(tag, "lnobj", repr(m.ln_end_channel))
    emit(tag, "samples", repr(list(m.samples.items())))
    emit(tag, "misc", repr(list(m.misc.items())), "exbpms", repr(m.exbpms))


def header(tag, m, frames=False):
    try:
        emit(tag, "header", m._write_file_header().hex())
    except Exception as e:  # noqa
        emit(tag, "header raised", type(e).__name__)
    dump_map(tag + ".after", m, frames)


def full(tag, m, layout=BMSChannel.BME, **kwargs):
    header(tag, m, frames=True)
    try:
        data = m.write(note_channel_config=layout, **kwargs)
        emit(tag, "write", data.hex())
    except Exception as e:  # noqa
        emit(tag, "write raised", type(e).__name__)
        return
    dump_map(tag + ".after2", m)
    try:
        back = BMSMap.read(data.decode("shift_jis").split("\r\n"), layout)
        dump_map(tag + ".back", back)
    except Exception as e:  # noqa
        emit(tag, "read back raised", type(e).__name__)


BPM_VALUES = [120, 60, 240, 174.5, 222.2225, 99.9995, 0.0005, 1000000, 33.3335,
              np.float64(150.25), np.int64(90), 180.0004999, 128]


def bpm_list(n, spread=False):
    """n 4/4 tempo points on measure lines"""
    rows, offset = [], 0.0
    for i in range(n):
        bpm = BPM_VALUES[i % len(BPM_VALUES)] if spread else random.choice(
            [60, 120, 150, 174.5, 240])
        rows.append(BMSBpm(offset, bpm))
        offset += 4 * 60000 / float(bpm)
    return BMSBpmList(rows)


def base_map(n_bpm=1, holds=False, spread=False):
    m = BMSMap()
    m.bpms = bpm_list(n_bpm, spread)
    if holds:
        m.holds = BMSHoldList([BMSHold(0, 0, 250), BMSHold(500, 3, 125)])
    return m


TEXTS = [b"", "", b"plain bytes", "plain str", "with  two spaces",
         "テスト 曲", "テスト".encode("shift_jis"),
         "café ♫ \U0001f3b5", "tab\tand#hash", b"#WAV01 x"]
LEVELS = [b"", "", b"12", "12", "★★", "難", b"\x93\xef", "café"]

# 1. title / artist / version texts
for i, text in enumerate(TEXTS):
    m = base_map()
    m.title = text
    m.artist = TEXTS[(i + 3) % len(TEXTS)]
    m.version = LEVELS[i % len(LEVELS)]
    header(f"text{i}", m)
for i, level in enumerate(LEVELS):
    m = base_map(2, holds=bool(i % 2))
    m.version = level
    header(f"level{i}", m)

# 2. misc tables
MISCS = [
    {},
    {b"GENRE": b"Test"},
    {"GENRE": "Test"},
    {b"GENRE": "テスト", "SUBTITLE": b"[x]", b"PLAYER": b"1",
     "RANK": "3", b"TOTAL": "400.5"},
    {b"TITLE": b"dup", b"ARTIST": b"dup", b"PLAYLEVEL": b"9", b"LNOBJ": b"ZZ",
     b"BPM": b"1"},
    {b"STAGEFILE": b"", "": "", b"": b""},
    {"café": "x"},
    {"x": "café", "♫": "never reached"},
    {b"RANK": 3},
    {7: b"x"},
    {b"K%02d" % i: "v%d" % i for i in range(60)},
]
for i, misc in enumerate(MISCS):
    for holds in (False, True):
        m = base_map(3, holds=holds)
        m.misc = dict(misc)
        header(f"misc{i}.{int(holds)}", m)

# 3. sample tables
DIGITS = "0123456789ABCDEFGHIJKLMNOPQRSTUVWXYZ"
ALL_IDS = [a + b for a in DIGITS for b in DIGITS][1:]
SAMPLES = [
    {},
    {b"01": b"kick.wav"},
    {"01": "kick.wav", "0Z": b"hat.wav", b"ZZ": "tail.wav"},
    {b"0A": "キック.wav", b"0a": b"lower.ogg"},
    {i.encode(): ("s" + i + ".wav").encode() for i in ALL_IDS},
    {i: "s" + i + ".wav" for i in reversed(ALL_IDS[:100])},
    {b"01": "café.wav", b"02": b"fine.wav"},
    {b"01": None},
    {b"1": b"short id", b"001": b"long id"},
]
for i, samples in enumerate(SAMPLES):
    m = base_map(2, holds=bool(i % 2))
    m.samples = dict(samples)
    m.misc = {b"GENRE": b"S"}
    header(f"samples{i}", m)

# 4. the #LNOBJ id
for i, ln in enumerate([b"ZZ", b"", "ZZ", "", b"0A", "zz", None, "♫", b"Z"]):
    for holds in (False, True):
        m = base_map(1, holds=holds)
        m.ln_end_channel = ln
        header(f"lnobj{i}.{int(holds)}", m)

# 5. number of tempo points: every id width / carry edge and the documented limit
for n in [1, 2, 9, 10, 11, 35, 36, 37, 71, 72, 73, 359, 360, 361, 1259, 1260,
          1261, 1293, 1294, 1295, 1296, 1300]:
    m = base_map(n, spread=True, holds=bool(n % 2))
    header(f"bpms{n}", m)
m = base_map()
m.bpms = BMSBpmList([])
header("bpms0", m)

# 6. random combinations
for i in range(40):
    m = base_map(random.choice([1, 2, 5, 36, 40, 100]), holds=random.random() < 0.5,
                 spread=random.random() < 0.5)
    m.title = random.choice(TEXTS[:7])
    m.artist = random.choice(TEXTS[:7])
    m.version = random.choice(LEVELS[:7])
    m.misc = dict(random.choice(MISCS[:6]))
    m.samples = dict(random.choice(SAMPLES[:6]))
    m.ln_end_channel = random.choice([b"ZZ", b"", "ZZ", b"0A", b"ZZ"])
    header(f"rand{i}", m)

# 7. whole files: the header ids must be the ids used by the notes
for i, (n_bpm, layout) in enumerate([(1, BMSChannel.BME), (3, BMSChannel.BMS),
                                     (40, BMSChannel.PMS), (75, BMSChannel.PMS_BME),
                                     (130, BMSChannel.PMS_5B)]):
    m = base_map(n_bpm, spread=False)
    lanes = sorted(v for v in layout.values() if isinstance(v, int))
    end = m.bpms.offset.max() + 4000
    # str ids and names once, a growing bytes table otherwise
    m.samples = dict(SAMPLES[2]) if i == 1 else dict(list(SAMPLES[4].items())[: 5 * i + 1])
    step = 4 * 60000 / 120 / 8
    m.hits = BMSHitList([
        BMSHit(k * step, lanes[k % len(lanes)],
               sample=random.choice([b"", b"s01.wav", b"s03.wav", b"none.wav"]))
        for k in range(int(end // step)) if k % 3
    ][:200])
    m.holds = BMSHoldList([
        BMSHold(k * step, lanes[k % len(lanes)], step * (len(lanes) - 0.5))
        for k in range(0, min(int(end // step), 120), 3)
    ])
    m.title = TEXTS[5]
    m.artist = "artist %d" % i
    m.version = LEVELS[i % 4]
    m.misc = dict(MISCS[3])
    full(f"full{i}", m, layout)

# 8. charts read from files (their misc repeats TITLE, ARTIST, LNOBJ ...)
for root in (Path.cwd(), Path(__file__).resolve().parent):
    bms_dir = root / "tests" / "unit_tests" / "bms"
    if bms_dir.is_dir():
        break
for file, layout in [("take.bms", BMSChannel.BMS), ("map_write.bme", BMSChannel.BME),
                     ("searoad.bml", BMSChannel.BME)]:
    m = BMSMap.read_file(bms_dir / file, layout)
    header("file." + file, m)
    m.hits = m.hits[:60]
    m.holds = m.holds[:20]
    full("file.full." + file, m, layout)

print("DIGEST", hashlib.sha256("\n".join(OUT).encode()).hexdigest())
