"""Self-test of the checkers (DESIGN §8), run by the thorough tier.

For every variant of the property in sa/selftest_variants.py the current source of one
file is edited *in memory* (Model overlay — no scratch copy, nothing executed), the
property's rules are re-evaluated, and the verdict delta against the unmodified tree is
compared with the expectation:

  break -> a NEW violation of the named rule must appear
  twin  -> no new violation and no new analysis error may appear

A wrong delta is a failure of the checker (exit 2), never a verdict about the repository.
Variants run on up to 16 processes.
"""
from __future__ import annotations

import os
import pathlib
import random
from concurrent.futures import ProcessPoolExecutor
from typing import Dict, List, Tuple


def _verdict(pid: str, root: str, overlay: Dict[str, str]):
    from .check import Ctx, prop_module
    from . import report as R
    mod = prop_module(pid)
    ctx = Ctx(root, overlay=overlay)
    out = R.evaluate(pid, "quick", mod.SPECS, ctx, R.load_known())
    viol = sorted({(i.rule, i.key) for i in out.violations})
    return viol, sorted(out.errors)


def _one(args) -> Tuple[int, str, str]:
    ix, pid, root, rel, old, new, kind, rule, base_viol, base_err = args
    p = pathlib.Path(root) / rel
    try:
        src = p.read_text(encoding="utf8")
    except OSError:
        return ix, "skipped", f"{rel} not found"
    if old not in src:
        return ix, "skipped", "anchor text absent from the current tree"
    edited = src.replace(old, new, 1)
    try:
        compile(edited, rel, "exec")
    except SyntaxError as e:
        return ix, "skipped", f"variant does not compile: {e}"
    try:
        viol, err = _verdict(pid, root, {rel: edited})
    except Exception as e:  # AnalysisError etc.
        viol, err = [], [f"{type(e).__name__}: {e}"]
    new_viol = [v for v in viol if v not in base_viol]
    new_err = [e for e in err if e not in base_err]
    if kind == "break":
        if any(v[0].startswith(rule) for v in new_viol):
            return ix, "caught", f"{[v for v in new_viol if v[0].startswith(rule)][0]}"
        return ix, "FAIL", f"break variant not reported by {rule}: new violations {new_viol[:3]}, new errors {new_err[:1]}"
    if new_viol or new_err:
        return ix, "FAIL", f"behaviour-preserving twin raised {new_viol[:2] or new_err[:1]}"
    return ix, "silent", ""


# ------------------------------------------------------------------ stored behaviour-preserving refactorings (twins/)
def _parse_patch(text: str) -> Dict[str, List[Tuple[List[str], List[str]]]]:
    """unified diff -> {path: [(old lines, new lines)] per hunk}; new files / deletions are ignored"""
    out: Dict[str, List[Tuple[List[str], List[str]]]] = {}
    cur = None
    old: List[str] = []
    new: List[str] = []
    lines = text.splitlines()
    i = 0

    def flush():
        nonlocal old, new
        if cur is not None and (old or new):
            out.setdefault(cur, []).append((old, new))
        old, new = [], []
    while i < len(lines):
        ln = lines[i]
        if ln.startswith("diff --git"):
            flush()
            cur = None
        elif ln.startswith("--- "):
            a = ln[4:].strip()
            b = lines[i + 1][4:].strip() if i + 1 < len(lines) and lines[i + 1].startswith("+++ ") else ""
            flush()
            cur = b[2:] if a.startswith("a/") and b.startswith("b/") else None     # /dev/null side: skip
            i += 1
        elif ln.startswith("@@"):
            flush()
        elif cur is not None and ln.startswith("+"):
            new.append(ln[1:])
        elif cur is not None and ln.startswith("-"):
            old.append(ln[1:])
        elif cur is not None and (ln.startswith(" ") or ln == ""):
            old.append(ln[1:])
            new.append(ln[1:])
        i += 1
    flush()
    return out


def _apply_hunks(src: str, hunks) -> str:
    """apply hunks by exact match of their old block (must occur exactly once); raises ValueError otherwise"""
    lines = src.split("\n")
    for old, new in hunks:
        n = len(old)
        pos = [k for k in range(len(lines) - n + 1) if lines[k:k + n] == old]
        if len(pos) != 1:
            raise ValueError("hunk context found %d times" % len(pos))
        lines[pos[0]:pos[0] + n] = new
    return "\n".join(lines)


def _twin_job(args):
    pid, root, tid, patch_path, base_viol, base_err = args
    try:
        hunks = _parse_patch(pathlib.Path(patch_path).read_text(encoding="utf8"))
        overlay = {}
        for rel, hs in hunks.items():
            if not rel.endswith(".py"):
                continue
            src = (pathlib.Path(root) / rel).read_text(encoding="utf8")
            overlay[rel] = _apply_hunks(src, hs)
            compile(overlay[rel], rel, "exec")
    except (OSError, ValueError, SyntaxError) as e:
        return tid, "skipped", f"patch does not apply to the current tree: {e}"
    if not overlay:
        return tid, "skipped", "no python file in the patch"
    try:
        viol, err = _verdict(pid, root, overlay)
    except Exception as e:
        viol, err = [], [f"{type(e).__name__}: {e}"]
    new_viol = [v for v in viol if v not in base_viol]
    new_err = [e for e in err if e not in base_err]
    if new_viol or new_err:
        return tid, "FAIL", f"behaviour-preserving refactoring raised {new_viol[:2] or new_err[:1]}"
    return tid, "silent", ""


def run_stored_twins(pid: str, root: str, base_viol, base_err) -> dict:
    """every refactoring stored under twins/ (confirmed behaviour-preserving: identical result digests, suite unchanged) is applied
    IN MEMORY to the current sources and the property's rules are re-evaluated: no new violation, no new analysis error.
    Twins listed in twins/EXPECTED_UNDECIDED.json for this property are allowed an analysis error (never a violation)."""
    import json
    tdir = pathlib.Path(__file__).resolve().parent.parent / "twins"
    if not tdir.is_dir():
        return dict(total=0, silent=0, skipped=0, failures=[])
    allow = {}
    ex = tdir / "EXPECTED_UNDECIDED.json"
    if ex.exists():
        allow = json.loads(ex.read_text())
    jobs = [(pid, root, d.name, str(d / "patch.diff"), base_viol, base_err) for d in sorted(tdir.iterdir()) if (d / "patch.diff").exists()]
    if not jobs:
        return dict(total=0, silent=0, skipped=0, failures=[])
    with ProcessPoolExecutor(max_workers=min(16, len(jobs), os.cpu_count() or 4)) as exr:
        res = list(exr.map(_twin_job, jobs))
    fails = []
    undec = []
    for tid, st, what in res:
        if st == "FAIL":
            if pid in allow.get(tid, []) and "raised [(" not in what:
                undec.append(tid)
            else:
                fails.append(f"twin {tid}: {what}")
    return dict(total=len(res), silent=sum(1 for r in res if r[1] == "silent"), skipped=sum(1 for r in res if r[1] == "skipped"),
                expected_undecided=undec, failures=fails)


def run_for_property(pid: str, seed: int, root: str, sample: int = 0) -> dict:
    from .selftest_variants import VARIANTS
    mine = [v for v in VARIANTS if v[0] == pid]
    rng = random.Random(seed)
    rng.shuffle(mine)
    if sample:
        mine = mine[:sample]
    if not mine:
        return dict(variants=0, caught=0, twins_silent=0, skipped=0, failures=[], note="no variants registered for this property")
    base_viol, base_err = _verdict(pid, root, {})
    jobs = [(i, pid, root, rel, old, new, kind, rule, base_viol, base_err) for i, (_, rel, old, new, kind, rule) in enumerate(mine)]
    workers = min(16, len(jobs), os.cpu_count() or 4)
    results = []
    if workers > 1:
        with ProcessPoolExecutor(max_workers=workers) as ex:
            results = list(ex.map(_one, jobs))
    else:
        results = [_one(j) for j in jobs]
    caught = sum(1 for r in results if r[1] == "caught")
    silent = sum(1 for r in results if r[1] == "silent")
    skipped = [(mine[r[0]][1], r[2]) for r in results if r[1] == "skipped"]
    failures = [f"{mine[r[0]][1]}: '{mine[r[0]][2][:40]}' -> '{mine[r[0]][3][:40]}': {r[2]}" for r in results if r[1] == "FAIL"]
    stored = run_stored_twins(pid, root, base_viol, base_err)
    failures = failures + stored["failures"]
    return dict(variants=len(mine), caught=caught, twins_silent=silent, skipped=len(skipped), stored_twins=stored,
                skipped_detail=[f"{a}: {b}" for a, b in skipped][:10], failures=failures,
                detail=[dict(file=mine[r[0]][1], kind=mine[r[0]][4], rule=mine[r[0]][5], outcome=r[1], what=r[2][:160]) for r in results])


if __name__ == "__main__":
    import sys
    import json
    pid = sys.argv[1]
    print(json.dumps(run_for_property(pid, 0, "/repo"), indent=1)[:4000])
