"""Demo for change 1: QuaMap.read / QuaMap.read_file.

Run:  cd /tmp/wt7/C06 && PYTHONPATH=/tmp/wt7/C06 /venv/bin/python demo.py
Prints one line `DIGEST <sha256>` over a canonical dump of everything observed.
"""
import copy
import hashlib
import os
import random
import re
import shutil
import tempfile
import warnings
from pathlib import Path

import yaml

from reamber.quaver.QuaMap import QuaMap
from reamber.quaver.QuaMapMeta import QuaMapMeta

random.seed(60601)
OUT = []
META_FIELDS = list(QuaMapMeta.__dataclass_fields__.keys())


def emit(*parts):
    OUT.append(" | ".join(str(p) for p in parts))


def val(v):
    return f"{type(v).__name__}:{v!r}"


def dump_df(name, df):
    emit(name, "cols", list(df.columns), "dtypes", [str(t) for t in df.dtypes],
         "index", type(df.index).__name__, list(df.index))
    for row in df.itertuples(index=True, name=None):
        emit(name, "row", [val(v) for v in row])


def dump_map(tag, m):
    emit(tag, "type", type(m).__name__, "objs", list(m.objs.keys()))
    for k in ("hits", "holds", "bpms", "svs"):
        tl = getattr(m, k)
        emit(tag, k, type(tl).__name__)
        dump_df(f"{tag}.{k}", tl.df)
    for f in META_FIELDS:
        emit(tag, "meta", f, val(getattr(m, f)))


def attempt(tag, fn):
    """Runs fn, dumps the map it returns or the exception, and the warnings."""
    with warnings.catch_warnings(record=True) as ws:
        warnings.simplefilter("always")
        try:
            r = fn()
        except BaseException as e:  # noqa
            msg = re.sub(r"0x[0-9a-fA-F]+", "0x?", str(e)).replace(str(TMP), "<TMP>")
            emit(tag, "RAISED", type(e).__name__, msg)
            r = None
        else:
            if isinstance(r, QuaMap):
                dump_map(tag, r)
            else:
                emit(tag, "result", val(r))
    for w in ws:
        emit(tag, "WARN", w.category.__name__, str(w.message)[:120])
    return r


# --------------------------------------------------------------- generators
NASTY = [
    "", " ", "plain", "needs: quoting", "# not a comment", "'single'", '"double"',
    "yes", "no", "null", "~", "123", "1.5", "- dash", "a\nb", "tab\there",
    "ünïcödé 日本語", "trailing ", " leading", "{braces}", "[brackets]", "a: b: c",
    "%percent", "@at", "`tick`", "!bang", "*star", "&amp", "|pipe", ">gt", "?q",
    "0x10", "1e3", "2001-01-01", "back\\slash", "colon:", "emoji \U0001F3B5",
]


def gen_keysounds(rng):
    n = rng.choice([0, 0, 1, 2])
    return [dict(Sample=rng.randint(1, 9), Volume=rng.choice([0, 50, 100])) for _ in range(n)]


def gen_doc(rng, mode):
    """A .qua document as a python dict; `mode` steers the edge case."""
    lanes = rng.choice([1, 2, 4, 4, 5, 7, 7, 8, 10])
    doc = {}
    # metadata, each key present with some probability
    meta_pool = {
        "AudioFile": rng.choice(NASTY), "SongPreviewTime": rng.randint(-5, 99999),
        "BackgroundFile": rng.choice(NASTY), "BannerFile": rng.choice(NASTY),
        "Genre": rng.choice(NASTY),
        "BPMDoesNotAffectScrollVelocity": rng.choice([True, False]),
        "InitialScrollVelocity": rng.choice([1, 1.0, 0.5, 2.25]),
        "HasScratchKey": rng.choice([True, False]),
        "MapId": rng.choice([-1, 0, 12345]), "MapSetId": rng.choice([-1, 777]),
        "Mode": rng.choice(["Keys4", "Keys7", "Keys8", "Keys5", ""]),
        "Title": rng.choice(NASTY), "Artist": rng.choice(NASTY),
        "Source": rng.choice(NASTY),
        "Tags": rng.choice(["", "a b c", " double  space ", None, 123, "tag"]),
        "Creator": rng.choice(NASTY), "DifficultyName": rng.choice(NASTY),
        "Description": rng.choice(NASTY),
        "EditorLayers": rng.choice([[], [dict(Name="L1")], None]),
        "CustomAudioSamples": rng.choice([[], [dict(Path="a.wav")]]),
        "SoundEffects": rng.choice([[], [dict(StartTime=5, Sample=1, Volume=10)]]),
        "UnknownKey": rng.choice(NASTY),
    }
    for k, v in meta_pool.items():
        if rng.random() < (0.2 if mode == "sparse" else 0.75):
            doc[k] = v

    def t():
        c = rng.random()
        if c < 0.6:
            return rng.randint(-2000, 300000)
        if c < 0.9:
            return round(rng.uniform(-2000, 300000), rng.choice([1, 3, 6]))
        return rng.choice([0, -1, 1, 2 ** 31, 0.5, -0.5])

    def note(hold):
        d = {}
        if not (mode in ("omit", "sparse") and rng.random() < 0.4):
            d["StartTime"] = t()
        d["Lane"] = rng.randint(1, lanes)
        if hold:
            d["EndTime"] = d.get("StartTime", 0) + rng.choice([0, 1, 5, 250, 1000.5, -3])
        if not (mode in ("omit", "sparse") and rng.random() < 0.5):
            d["KeySounds"] = gen_keysounds(rng)
        keys = list(d)
        rng.shuffle(keys)
        return {k: d[k] for k in keys}

    n_hits = 0 if mode == "holds_only" else rng.choice([0, 1, 3, 8, 20])
    n_holds = 0 if mode == "hits_only" else rng.choice([0, 1, 3, 8])
    if mode == "holds_only":
        n_holds = rng.choice([1, 4, 9])
    if mode == "hits_only":
        n_hits = rng.choice([1, 4, 9])
    notes = [note(False) for _ in range(n_hits)] + [note(True) for _ in range(n_holds)]
    rng.shuffle(notes)  # unsorted, hits and holds interleaved, ties possible
    if notes and rng.random() < 0.3:
        notes.append(dict(notes[0]))  # exact duplicate

    def bpm():
        d = {}
        if not (mode in ("omit", "sparse") and rng.random() < 0.4):
            d["StartTime"] = t()
        if not (mode == "sparse" and rng.random() < 0.3):
            d["Bpm"] = rng.choice([120, 120.0, 60.5, 999.999, 0, -5, 1e-3])
        return d

    def sv():
        d = {}
        if not (mode in ("omit", "sparse") and rng.random() < 0.4):
            d["StartTime"] = t()
        if not (mode in ("omit", "sparse") and rng.random() < 0.5):
            d["Multiplier"] = rng.choice([1, 1.0, 0, -1.5, 0.01, 10, 2.5])
        return d

    sections = {
        "HitObjects": notes,
        "TimingPoints": [bpm() for _ in range(rng.choice([0, 1, 1, 2, 5]))],
        "SliderVelocities": [sv() for _ in range(rng.choice([0, 0, 1, 3, 12]))],
    }
    for k, v in sections.items():
        c = rng.random()
        if mode == "empty_sections":
            c = rng.choice([0.0, 0.1, 0.2])
        if c < 0.07:
            continue  # key omitted
        if c < 0.14:
            doc[k] = None  # `HitObjects:` with nothing
        elif c < 0.21:
            doc[k] = []
        else:
            doc[k] = v
    # section keys anywhere among the metadata keys
    keys = list(doc)
    rng.shuffle(keys)
    return {k: doc[k] for k in keys}


def to_text(rng, doc):
    style = rng.choice(["block", "block", "flow", "mixed", "cdump"])
    if style == "block":
        return yaml.safe_dump(doc, default_flow_style=False, sort_keys=False, allow_unicode=True)
    if style == "flow":
        return yaml.safe_dump(doc, default_flow_style=True, sort_keys=False, allow_unicode=False)
    if style == "mixed":
        return yaml.safe_dump(doc, default_flow_style=None, sort_keys=True, allow_unicode=True)
    return yaml.dump(doc, default_flow_style=False, sort_keys=False,
                     Dumper=yaml.CDumper, allow_unicode=True)


# --------------------------------------------------------------- scenarios
tmp = TMP = Path(tempfile.mkdtemp(prefix="c06demo1_"))
try:
    rng = random.Random(1234)
    modes = ["full", "omit", "sparse", "hits_only", "holds_only", "empty_sections"]
    texts = []
    for i in range(54):
        mode = modes[i % len(modes)]
        doc = gen_doc(rng, mode)
        text = to_text(rng, doc)
        texts.append(text)
        tag = f"gen{i:02d}[{mode}]"
        emit(tag, "sha", hashlib.sha256(text.encode()).hexdigest()[:16])

        # 1. read from one string
        attempt(tag + ".read(str)", lambda: QuaMap.read(text))
        # 2. read from a list of lines (the argument must not be modified)
        lines = text.split("\n")
        before = copy.deepcopy(lines)
        attempt(tag + ".read(lines)", lambda: QuaMap.read(lines))
        emit(tag, "lines untouched", lines == before, len(lines))
        # 3. other line cuttings / containers
        attempt(tag + ".read(splitlines)", lambda: QuaMap.read(text.splitlines()))
        attempt(tag + ".read(tuple)", lambda: QuaMap.read(tuple(text.split("\n"))))
        attempt(tag + ".read(str no nl)", lambda: QuaMap.read(text.rstrip("\n")))
        # 4. read_file on several on-disk encodings of the same document
        variants = {
            "lf": text.encode("utf-8"),
            "crlf": text.replace("\n", "\r\n").encode("utf-8"),
            "no_final_nl": text.rstrip("\n").encode("utf-8"),
            "extra_blank": (text + "\n\n").encode("utf-8"),
        }
        if i % 3 == 0:
            variants["bom"] = b"\xef\xbb\xbf" + text.encode("utf-8")
            variants["cr"] = text.replace("\n", "\r").encode("utf-8")
        for vname, raw in variants.items():
            p = tmp / f"g{i}_{vname}.qua"
            p.write_bytes(raw)
            arg = p if (i % 2 == 0) else str(p)
            attempt(f"{tag}.read_file[{vname}]", lambda: QuaMap.read_file(arg))
            emit(tag, vname, "file untouched", p.read_bytes() == raw)

        # 5. read -> write -> read, and write_file -> read_file
        m = attempt(tag + ".base", lambda: QuaMap.read(text))
        if m is not None:
            w = attempt(tag + ".write", lambda: m.write())
            if isinstance(w, str):
                attempt(tag + ".rw.read(str)", lambda: QuaMap.read(w))
                attempt(tag + ".rw.read(lines)", lambda: QuaMap.read(w.split("\n")))
                p = tmp / f"g{i}_rw.qua"
                attempt(tag + ".write_file", lambda: m.write_file(p))
                if p.exists():
                    emit(tag, "written == write()", p.read_bytes() == w.encode("utf8"))
                    m2 = attempt(tag + ".rw.read_file", lambda: QuaMap.read_file(p))
                    if m2 is not None:
                        emit(tag, "write stable", m2.write() == w)
                dump_map(tag + ".after", m)  # writing did not change the chart

    # ----- hand written documents: defaults, quoting, degenerate and bad input
    hand = {
        "empty": "",
        "newline": "\n",
        "comment_only": "# nothing\n",
        "doc_marker": "---\n",
        "two_docs": "Title: a\n---\nTitle: b\n",
        "top_list": "- a\n- b\n",
        "top_empty_list": "[]\n",
        "top_scalar": "just text\n",
        "top_int": "5\n",
        "empty_map": "{}\n",
        "only_meta": "Title: 'x: y'\nArtist: \"a # b\"\nTags: one two  three\n",
        "tags_int": "Tags: 5\n",
        "tags_list": "Tags: [a, b]\n",
        "meta_null": "Title:\nArtist: ~\nMode:\n",
        "sections_null": "HitObjects:\nTimingPoints:\nSliderVelocities:\n",
        "sections_empty": "HitObjects: []\nTimingPoints: []\nSliderVelocities: []\n",
        "sections_zero": "HitObjects: 0\nTimingPoints: ''\nSliderVelocities: false\n",
        "hit_bare": "HitObjects:\n- Lane: 1\n",
        "hit_no_lane": "HitObjects:\n- StartTime: 5\n",
        "hold_bare": "HitObjects:\n- Lane: 2\n  EndTime: 10\n",
        "hold_no_lane": "HitObjects:\n- StartTime: 5\n  EndTime: 10\n",
        "hold_null_end": "HitObjects:\n- StartTime: 5\n  Lane: 1\n  EndTime:\n",
        "hit_and_hold_same_time": "HitObjects:\n- {StartTime: 5, Lane: 1}\n- {StartTime: 5, Lane: 1, EndTime: 5}\n",
        "keysounds_null": "HitObjects:\n- {StartTime: 5, Lane: 1, KeySounds: }\n- {StartTime: 6, Lane: 2, KeySounds: []}\n",
        "keysounds_str": "HitObjects:\n- {StartTime: 5, Lane: 1, KeySounds: abc}\n",
        "note_not_map": "HitObjects:\n- 5\n",
        "note_list": "HitObjects:\n- [1, 2]\n",
        "notes_int": "HitObjects: 5\n",
        "notes_str": "HitObjects: abc\n",
        "notes_map": "HitObjects: {StartTime: 1, Lane: 1}\n",
        "bpm_bare": "TimingPoints:\n- {}\n",
        "bpm_null": "TimingPoints:\n- \n",
        "bpm_int": "TimingPoints: 3\n",
        "bpm_str_values": "TimingPoints:\n- {StartTime: a, Bpm: b}\n",
        "bpm_two_same_time": "TimingPoints:\n- {StartTime: 0, Bpm: 100}\n- {StartTime: 0, Bpm: 200}\n",
        "sv_bare": "SliderVelocities:\n- {}\n- {StartTime: 3}\n- {Multiplier: 2}\n",
        "sv_extra_key": "SliderVelocities:\n- {StartTime: 3, Multiplier: 2, Foo: 1}\n",
        "sv_not_map": "SliderVelocities:\n- 7\n",
        "float_times": "HitObjects:\n- {StartTime: 0.4, Lane: 1}\n- {StartTime: -0.6, Lane: 2, EndTime: 0.6}\n",
        "str_times": "HitObjects:\n- {StartTime: '5', Lane: 1}\n",
        "str_lane": "HitObjects:\n- {StartTime: 5, Lane: '1'}\n",
        "big_lane": "HitObjects:\n- {StartTime: 5, Lane: 100}\n- {StartTime: 5, Lane: 0}\n- {StartTime: 5, Lane: -3}\n",
        "dup_section": "HitObjects: []\nHitObjects:\n- {StartTime: 1, Lane: 1}\n",
        "bad_yaml_tab": "Title:\t- x\n\t- y\n",
        "bad_yaml_brace": "Title: {a\n",
        "bad_yaml_indent": "HitObjects:\n- StartTime: 1\n Lane: 1\n",
        "python_tag": "Title: !!python/object/apply:os.getcwd []\n",
        "anchor_alias": "a: &x {StartTime: 1, Lane: 1}\nHitObjects:\n- *x\n- *x\n",
        "multiline_str": "Description: |\n  line one\n  line two\nTitle: >\n  folded\n  text\n",
        "no_final_newline": "Title: abc",
        "trailing_spaces": "Title: abc   \nArtist:   def\n",
        "int_keys": "1: a\n2: b\nHitObjects:\n- {StartTime: 1, Lane: 1}\n",
        "unicode": "Title: 日本語 タイトル\nArtist: \"\\u00e9\\u00e8\"\nCreator: '\U0001F3B5'\n",
    }
    for name, text in hand.items():
        tag = f"hand[{name}]"
        attempt(tag + ".read(str)", lambda: QuaMap.read(text))
        lines = text.split("\n")
        before = list(lines)
        attempt(tag + ".read(lines)", lambda: QuaMap.read(lines))
        emit(tag, "lines untouched", lines == before)
        p = tmp / f"hand_{name}.qua"
        p.write_bytes(text.encode("utf-8"))
        attempt(tag + ".read_file", lambda: QuaMap.read_file(p))
        attempt(tag + ".read_file(str path)", lambda: QuaMap.read_file(str(p)))
        pc = tmp / f"hand_{name}_crlf.qua"
        pc.write_bytes(text.replace("\n", "\r\n").encode("utf-8"))
        attempt(tag + ".read_file[crlf]", lambda: QuaMap.read_file(pc))

    # ----- odd arguments
    attempt("arg.empty_list", lambda: QuaMap.read([]))
    attempt("arg.list_of_empty", lambda: QuaMap.read([""]))
    attempt("arg.bytes", lambda: QuaMap.read(b"Title: a\n"))
    attempt("arg.list_of_bytes", lambda: QuaMap.read([b"Title: a"]))
    attempt("arg.list_with_int", lambda: QuaMap.read(["Title: a", 5]))
    attempt("arg.list_with_none", lambda: QuaMap.read(["Title: a", None]))
    attempt("arg.none", lambda: QuaMap.read(None))
    attempt("arg.int", lambda: QuaMap.read(5))
    attempt("arg.generator", lambda: QuaMap.read(l for l in ["Title: g", "Artist: h"]))
    attempt("arg.dict", lambda: QuaMap.read({"Title: a": 1, "Artist: b": 2}))
    attempt("arg.lines_with_newlines", lambda: QuaMap.read(["Title: a\n", "Artist: b\n"]))
    attempt("arg.safe_false", lambda: QuaMap.read("Title: a\n", safe=False))
    attempt("arg.kw", lambda: QuaMap.read(lines=["Title: kw"], safe=True))
    attempt("file.missing", lambda: QuaMap.read_file("c06_definitely_missing.qua"))
    attempt("file.dir", lambda: QuaMap.read_file(tmp).__class__)
    attempt("file.none", lambda: QuaMap.read_file(None))
    attempt("file.int", lambda: QuaMap.read_file(3.5))
    bad = tmp / "latin1.qua"
    bad.write_bytes("Title: caf\xe9\n".encode("latin-1"))
    attempt("file.not_utf8", lambda: QuaMap.read_file(bad))
    nul = tmp / "nul.qua"
    nul.write_bytes(b"Title: a\x00b\n")
    attempt("file.nul", lambda: QuaMap.read_file(nul))
    empty = tmp / "empty.qua"
    empty.write_bytes(b"")
    attempt("file.empty", lambda: QuaMap.read_file(empty))
    # reading through an instance / a subclass still gives a QuaMap
    class Sub(QuaMap):
        pass
    attempt("via.instance", lambda: QuaMap().read("Title: inst\n"))
    attempt("via.subclass", lambda: Sub.read("Title: sub\nHitObjects:\n- {Lane: 3}\n"))
    p = tmp / "sub.qua"
    p.write_text("Title: sub file\n", encoding="utf-8")
    attempt("via.subclass.file", lambda: Sub.read_file(p))
    # two reads give independent charts
    a = QuaMap.read(texts[0])
    b = QuaMap.read(texts[0])
    emit("independent", a is not b, a.hits.df is not b.hits.df, a.tags is not b.tags)

    # ----- real files, and charts converted from the other games
    root = Path("rsc/maps")
    for f in sorted((root / "qua").glob("*.qua")):
        tag = f"real[{f.name}]"
        m = attempt(tag + ".read_file", lambda: QuaMap.read_file(f))
        raw = f.read_text(encoding="utf-8")
        attempt(tag + ".read(str)", lambda: QuaMap.read(raw))
        attempt(tag + ".read(lines)", lambda: QuaMap.read(raw.split("\n")))
        w = m.write()
        emit(tag, "write sha", hashlib.sha256(w.encode()).hexdigest())
        attempt(tag + ".rw", lambda: QuaMap.read(w))

    from reamber.algorithms.convert import OsuToQua, SMToQua, BMSToQua, O2JToQua
    from reamber.osu.OsuMap import OsuMap
    from reamber.sm.SMMapSet import SMMapSet
    from reamber.bms.BMSMap import BMSMap
    from reamber.o2jam.O2JMapSet import O2JMapSet

    converted = []
    for name in ("Gravity.osu", "Escapes.osu", "LNDan14.osu", "Caravan.osu"):
        converted.append((f"osu:{name}", lambda n=name: [OsuToQua.convert(
            OsuMap.read_file(root / "osu" / n), raise_bad_mode=False)]))
    for name in ("Gravity.sm", "ICFITU.sm"):
        converted.append((f"sm:{name}", lambda n=name: SMToQua.convert(
            SMMapSet.read_file(root / "sm" / n), raise_bad_mode=False)))
    for name in ("searoad.bml", "take.bms"):
        converted.append((f"bms:{name}", lambda n=name: [BMSToQua.convert(
            BMSMap.read_file(root / "bms" / n), raise_bad_mode=False)]))
    converted.append(("o2j:o2ma178.ojn", lambda: O2JToQua.convert(
        O2JMapSet.read_file(root / "o2jam" / "o2ma178.ojn"))))
    for cname, make in converted:
        try:
            quas = make()
        except BaseException as e:  # noqa
            emit(f"conv[{cname}]", "CONVERT RAISED", type(e).__name__)
            continue
        for j, q in enumerate(quas):
            tag = f"conv[{cname}#{j}]"
            w = attempt(tag + ".write", lambda: q.write())
            if not isinstance(w, str):
                continue
            emit(tag, "write sha", hashlib.sha256(w.encode()).hexdigest(), len(w))
            attempt(tag + ".read(str)", lambda: QuaMap.read(w))
            attempt(tag + ".read(lines)", lambda: QuaMap.read(w.split("\n")))
            p = tmp / f"conv_{j}_{re.sub(r'[^A-Za-z0-9]', '_', cname)}.qua"
            q.write_file(p)
            m2 = attempt(tag + ".read_file", lambda: QuaMap.read_file(p))
            if m2 is not None:
                emit(tag, "second write equal", m2.write() == w)
finally:
    shutil.rmtree(tmp, ignore_errors=True)

blob = "\n".join(OUT).encode("utf-8")
if os.environ.get("C06_DUMP"):
    Path(os.environ["C06_DUMP"]).write_bytes(blob)
print("DIGEST", hashlib.sha256(blob).hexdigest())
