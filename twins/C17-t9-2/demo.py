"""Demo for C17 / change 2: TimedList.from_dict (reamber/base/lists/TimedList.py)

Calls from_dict on every list class of every game with a broad deterministic
set of inputs (column dicts, record lists, partial / ragged / empty / foreign
columns, numpy and Series values, odd row labels ...), then drives it through
its users (full_ln, the StepMania reader) and prints one line `DIGEST <hex>`:
a sha256 over a canonical text dump of every result (class, column order,
column-index dtype, dtypes, row labels, every cell with its python type, whether
mutable defaults are shared between rows), of the raised exception types, of the
warning categories and of the inputs after the call.
"""
import hashlib
import random
import warnings
from copy import deepcopy

import numpy as np
import pandas as pd

import reamber.base
import reamber.bms
import reamber.o2jam
import reamber.osu
import reamber.quaver
import reamber.sm
from reamber.algorithms.generate import full_ln
from reamber.base.Map import Map
from reamber.base.lists.TimedList import TimedList
from reamber.osu.OsuMap import OsuMap
from reamber.quaver.QuaMap import QuaMap
from reamber.sm.SMMap import SMMap
from reamber.sm.SMMapSet import SMMapSet

random.seed(20017)
OUT = []


def emit(*parts):
    OUT.append(" ".join(str(p) for p in parts))


def cell(v):
    return f"{type(v).__name__}:{v!r}"


def dump_df(tag, df):
    emit(tag, "TYPE", type(df).__name__, "SHAPE", df.shape)
    emit(tag, "COLUMNS", type(df.columns).__name__, df.columns.dtype, list(df.columns))
    emit(tag, "DTYPES", [str(t) for t in df.dtypes])
    emit(tag, "INDEX", type(df.index).__name__, df.index.dtype, list(df.index))
    for label, row in zip(df.index, df.itertuples(index=False, name=None)):
        emit(tag, "ROW", cell(label), [cell(v) for v in row])
    # Mutable defaults (e.g. lists of keysounds): is any object shared between rows?
    for c, t in zip(df.columns, df.dtypes):
        if t == object:
            col = df[c]
            if isinstance(col, pd.Series):
                ids = [id(v) for v in col if isinstance(v, (list, dict, set))]
                emit(tag, "MUTABLE_SHARED", c, len(ids) != len(set(ids)))


def dump_input(tag, d):
    if isinstance(d, dict):
        for k, v in d.items():
            if isinstance(v, pd.Series):
                emit(tag, "IN", cell(k), "Series", v.dtype, list(v.index), [cell(x) for x in v])
            elif isinstance(v, np.ndarray):
                emit(tag, "IN", cell(k), "ndarray", v.dtype, [cell(x) for x in v.tolist()])
            elif isinstance(v, (list, tuple)):
                emit(tag, "IN", cell(k), type(v).__name__, [cell(x) for x in v])
            else:
                emit(tag, "IN", cell(k), cell(v))
    elif isinstance(d, (list, tuple)):
        emit(tag, "IN", type(d).__name__, [cell(x) for x in d])
    elif isinstance(d, pd.DataFrame):
        dump_df(tag + ".IN", d)
    else:
        emit(tag, "IN", cell(d))


def all_list_classes():
    def subs(c):
        for s in c.__subclasses__():
            yield s
            yield from subs(s)

    return sorted(set(subs(TimedList)), key=lambda c: (c.__module__, c.__qualname__))


case = 0


def run(cls, d):
    global case
    case += 1
    tag = f"C{case:04d}"
    emit(tag, "CLASS", cls.__module__, cls.__name__)
    with warnings.catch_warnings(record=True) as w:
        warnings.simplefilter("always")
        try:
            tl = cls.from_dict(d)
        except Exception as e:  # noqa
            emit(tag, "RAISED", type(e).__name__)
            tl = None
    emit(tag, "WARNINGS", sorted(x.category.__name__ for x in w))
    if tl is not None:
        emit(tag, "RESULT", type(tl).__name__, type(tl) is cls, len(tl))
        dump_df(tag + ".out", tl.df)
        # The result is a usable list of its class
        try:
            emit(tag, "OFFSETS", [cell(v) for v in tl.offset.tolist()])
            emit(tag, "SORTED", [cell(v) for v in tl.sorted().offset.tolist()])
            if len(tl):
                emit(tag, "ITEM0", type(tl[0]).__name__, [cell(v) for v in tl[0].data.tolist()])
        except Exception as e:  # noqa
            emit(tag, "USE_RAISED", type(e).__name__)
    dump_input(tag + ".in_after", d)
    return tl


# ----------------------------------------------------------------- values ---
def value_for(col, n, style):
    """A column of `n` plausible values for property `col`"""
    if col == "offset":
        if style == "int":
            return [random.randrange(-5, 50) * 100 for _ in range(n)]
        return [round(random.uniform(-500, 9000), random.choice([0, 2])) for _ in range(n)]
    if col == "column":
        if style == "float":
            return [float(random.randrange(0, 7)) for _ in range(n)]
        return [random.randrange(0, 10) for _ in range(n)]
    if col in ("length", "bpm", "multiplier", "metronome"):
        if style == "int":
            return [random.randrange(1, 400) for _ in range(n)]
        return [round(random.uniform(0.25, 999), 3) for _ in range(n)]
    if col == "kiai":
        return [random.random() < 0.5 for _ in range(n)]
    if col in ("hitsound_file", "sample_file"):
        return [random.choice(["", "a.wav", "kick.ogg"]) for _ in range(n)]
    if col == "sample":
        return [random.choice([b"", b"a.wav", b"b.ogg"]) for _ in range(n)]
    if col == "keysounds":
        return [random.choice([[], ["k"], ["a", "b"]]) for _ in range(n)]
    return [random.randrange(0, 100) for _ in range(n)]  # int metadata


def wrap(values, how, n):
    if how == "ndarray":
        try:
            return np.array(values)
        except Exception:  # noqa
            return values
    if how == "series":
        return pd.Series(values, index=range(10, 10 + n), dtype=object if n == 0 else None)
    if how == "tuple":
        return tuple(values)
    return values


CLASSES = []
for cls in all_list_classes():
    try:
        cls([])
    except TypeError:
        # abstract (QuaNoteList): from_dict cannot even build its empty list
        run(cls, {"offset": [1.0]})
        run(cls, [])
        continue
    CLASSES.append(cls)

# The generic base itself: empty inputs work, anything else has no item class
for d in ({}, [], None, (), {"offset": [1.0, 2.0]}, [{"offset": 3.0}], {"nope": [1]}):
    run(TimedList, d)

for cls in CLASSES:
    cols = list(cls([]).df.columns)
    # Falsy inputs
    for d in ({}, [], (), None, 0, ""):
        run(cls, d)
    # Truthy but row-less inputs
    run(cls, {"offset": []})
    run(cls, {c: [] for c in cols})
    run(cls, [{}])
    run(cls, [{}, {}])
    # All columns given, in class order, reversed order and shuffled
    for n in (1, 4):
        run(cls, {c: value_for(c, n, "float") for c in cols})
        run(cls, {c: value_for(c, n, "int") for c in reversed(cols)})
    # Only the offset / every single column alone
    for c in cols:
        run(cls, {c: value_for(c, 3, "float")})
    # Random subsets, as column dicts and as records (also ragged records)
    for _ in range(6):
        sub = random.sample(cols, random.randrange(1, len(cols) + 1))
        n = random.choice([1, 2, 5])
        style = random.choice(["float", "int"])
        how = random.choice(["list", "list", "ndarray", "series", "tuple"])
        run(cls, {c: wrap(value_for(c, n, style), how, n) for c in sub})
        data = {c: value_for(c, n, style) for c in sub}
        recs = [{c: data[c][i] for c in sub} for i in range(n)]
        run(cls, recs)
        if n > 1 and len(sub) > 1:
            ragged = deepcopy(recs)
            del ragged[-1][sub[-1]]
            run(cls, ragged)
    # Foreign column names, alone and mixed with good ones
    run(cls, {"not_a_column": [1, 2]})
    run(cls, {"offset": [1.0, 2.0], "Offset": [1, 2]})
    run(cls, [{"offset": 1.0, "bogus": 2}])
    run(cls, {"offset": [1.0], 0: [2]})
    # Not dict-like payloads
    run(cls, [[1.0, 2], [3.0, 4]])
    run(cls, [1.0, 2.0])
    run(cls, pd.DataFrame({"offset": [1.0, 2.0]}))
    run(cls, {"offset": 5.0})
    # Columns of unequal length
    run(cls, {"offset": [1.0, 2.0], cols[0]: value_for(cols[0], 3, "float")})
    # Series with odd / repeated row labels
    run(cls, {"offset": pd.Series([3.0, 1.0, 2.0], index=[5, 5, 7])})
    run(cls, {"offset": pd.Series([3.0, 1.0, 2.0], index=["a", "b", "c"])})
    # NaN / None inside
    run(cls, {"offset": [1.0, float("nan"), None]})

# ------------------------------------------------------- through its users ---
for M in (Map, OsuMap, QuaMap, SMMap):
    for k in range(4):
        m = M()
        n = random.choice([0, 1, 6, 15])
        m.hits = type(m.hits).from_dict(
            {"offset": [random.randrange(0, 30) * 100.0 for _ in range(n)],
             "column": [random.randrange(0, 4) for _ in range(n)]})
        n2 = random.choice([0, 2, 7])
        m.holds = type(m.holds).from_dict(
            [dict(offset=random.randrange(0, 30) * 100.0 + 50, column=random.randrange(0, 4),
                  length=random.choice([10.0, 120.0, 800.0])) for _ in range(n2)])
        with warnings.catch_warnings():
            warnings.simplefilter("ignore")
            out = full_ln(m, random.choice([0, 50, 150]), random.choice([0, 100, 250.5]))
        for key, v in out.objs.items():
            emit("FULL_LN", M.__name__, k, key, type(v).__name__)
            dump_df(f"FULL_LN.{M.__name__}.{k}.{key}", v.df)

SM = """#TITLE:t;
#ARTIST:a;
#OFFSET:-0.5;
#BPMS:0.000=120.000,8.000=180.000;
#STOPS:4.000=0.250;
#NOTES:
     dance-single:
     :
     Beginner:
     1:
     0.1,0.2,0.3,0.4,0.5:
1000
0100
0010
M00L
,
0F02
0000
4003
K011
,
3000
0000
;
"""
try:
    ms = SMMapSet.read(SM)
    for i, m in enumerate(ms.maps):
        for key, v in m.objs.items():
            emit("SM", i, key, type(v).__name__)
            dump_df(f"SM.{i}.{key}", v.df)
except Exception as e:  # noqa
    emit("SM", "RAISED", type(e).__name__)

text = "\n".join(OUT)
print("DIGEST", hashlib.sha256(text.encode("utf-8")).hexdigest())
