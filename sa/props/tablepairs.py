"""Sibling table functions that must agree: `back(fwd(k)) == k` for every key the forward table maps to a real value.

PAIRS is the confirmed list of such pairs in this repository (read from the code, one line of reason each)."""
from __future__ import annotations

from typing import List

from .. import report as R
from .. import tablefn as TF
from ..model import NotLiteral

# (class, forward, backward, which side must round-trip, reason)
PAIRS = [
    ("reamber.sm.SMMapMeta.SMMapChartTypes", "get_type", "get_keys", "fwd",
     "SMToX converters and SMMap.write take the column count from get_keys(chart_type); XToSM set chart_type = get_type(keys)"),
    ("reamber.quaver.QuaMapMeta.QuaMapMode", "get_mode", "get_keys", "fwd",
     "QuaToX converters size the chart by get_keys(mode); XToQua set mode = get_mode(keys)"),
    ("reamber.osu.OsuSampleSet.OsuSampleSet", "to_string", "from_string", "both",
     "SampleSet metadata is read with from_string and written with to_string"),
]
EMPTY = ("", None, -1, KeyError, TF.MISSING)


def tables_of(ctx, cls: str):
    """name -> (table, default) for the table functions of a class (memoised per name, siblings resolved lazily)"""
    M = ctx.M
    memo = {}

    def lit(n):
        return M.lit(M.cls(cls).mod, n, cls)

    def get(name):
        if name in memo:
            return memo[name]
        memo[name] = None   # recursion guard
        q = f"{cls}.{name}"
        if q not in M.funcs:
            return None
        memo[name] = TF.extract(M.funcs[q].node, lit, sibling=get)
        return memo[name]
    return get


def pair_insts(ctx, rid: str, only=None) -> List[R.Inst]:
    M = ctx.M
    insts: List[R.Inst] = []
    for cls, fwd, back, side, why in PAIRS:
        short = cls.split(".")[-1]
        if only and short not in only:
            continue
        key = f"{short}.{fwd}<->{back}"
        if cls not in M.classes or f"{cls}.{fwd}" not in M.funcs or f"{cls}.{back}" not in M.funcs:
            insts.append(R.undec(rid, key, "", 0, f"{cls}.{fwd}/{back} not found"))
            continue
        fnode = M.funcs[f"{cls}.{back}"]
        file = M.mods[fnode.mod].rel
        get = tables_of(ctx, cls)
        try:
            tf, tb = get(fwd), get(back)
        except (TF.Unknown, NotLiteral, TypeError, ValueError) as e:
            insts.append(R.undec(rid, key, file, fnode.node.lineno, f"table extraction failed: {e}"))
            continue
        bad = []
        for k, v in tf[0].items():
            if v in EMPTY:
                continue
            got = TF.lookup(tb, v)
            if got != k:
                bad.append(f"{fwd}({k!r}) = {v!r} but {back}({v!r}) = {'raises' if got is KeyError else repr(got)}")
        if side == "both":
            for k, v in tb[0].items():
                if v in EMPTY:
                    continue
                got = TF.lookup(tf, v)
                if got != k:
                    bad.append(f"{back}({k!r}) = {v!r} but {fwd}({v!r}) = {'raises' if got is KeyError else repr(got)}")
        if bad:
            insts.append(R.viol(rid, key, file, fnode.node.lineno,
                                f"the two tables of {short} disagree: {bad[0]}" + (f" (+{len(bad) - 1} more)" if len(bad) > 1 else "") +
                                f" — {why}", construct="; ".join(sorted(bad))[:240]))
        else:
            n = sum(1 for v in tf[0].values() if v not in EMPTY)
            insts.append(R.ok(rid, key, file, fnode.node.lineno, idiom=f"{back}({fwd}(k)) = k for the {n} keys of {fwd}"))
    for i in insts:
        cn = i.key.split(".")[0]
        for cls, fwd, back, _, _ in PAIRS:
            if cls.endswith("." + cn):
                i.reach = (f"{cls}.{fwd}", f"{cls}.{back}")
    return insts
