"""Demo for C12 / patch 1: Map.Stacker.__init__ and Map.Stacker._update.

Builds random charts of all five games, drives random sequences of stack
operations through Map.Stacker and prints a sha256 over a canonical dump of
everything observable (lists, stacked frame, bounds, warnings, exceptions).
"""
import hashlib
import sys
import random
import warnings

import numpy as np
import pandas as pd

from reamber.base.Map import Map
from reamber.base.lists.BpmList import BpmList
from reamber.base.lists.notes.HitList import HitList
from reamber.base.lists.notes.HoldList import HoldList
from reamber.base.lists.notes.NoteList import NoteList
from reamber.bms.BMSMap import BMSMap
from reamber.o2jam.O2JMap import O2JMap
from reamber.osu.OsuMap import OsuMap
from reamber.quaver.QuaMap import QuaMap
from reamber.sm.SMMap import SMMap
from reamber.osu.lists.OsuSvList import OsuSvList

OUT = []


def emit(*a):
    OUT.append(" ".join(str(x) for x in a))


def dump_frame(tag, df):
    emit(tag, "type", type(df).__name__, "shape", df.shape)
    emit(tag, "columns", list(df.columns), type(df.columns).__name__)
    emit(tag, "dtypes", [str(t) for t in df.dtypes])
    emit(tag, "index", type(df.index).__name__, str(df.index.dtype), list(df.index))
    for c in df.columns:
        emit(tag, "col", c, [repr(v) for v in df[c].tolist()])


def dump_obj(tag, o):
    if isinstance(o, pd.DataFrame):
        dump_frame(tag, o)
    elif isinstance(o, pd.Series):
        emit(tag, "Series", o.name, str(o.dtype), type(o.index).__name__,
             list(o.index), [repr(v) for v in o.tolist()])
    else:
        emit(tag, type(o).__name__, repr(o))


def dump_map(tag, m):
    emit(tag, "map", type(m).__name__, list(m.objs.keys()))
    for k, v in m.objs.items():
        emit(tag, "list", k, type(v).__name__, len(v))
        dump_frame(tag + "." + k, v.df)


def dump_stack(tag, s):
    emit(tag, "stacker", type(s).__qualname__, "ixs", repr(s._ixs),
         [type(i).__name__ for i in s._ixs],
         "unstacked", [type(u).__name__ for u in s._unstacked])
    dump_frame(tag + "._stacked", s._stacked)


def fill(rng, cls, n, labels):
    tl = cls.empty(n)
    df = tl.df
    for c in df.columns:
        dt = str(df[c].dtype)
        if c == "offset":
            vals = [rng.choice([-500.0, 0.0, 250.0, 1000.0, 1000.0, 3333.25,
                                rng.uniform(-1e3, 1e5)]) for _ in range(n)]
            df[c] = pd.Series(vals, dtype="float64")
        elif c == "column":
            df[c] = pd.Series([rng.randrange(0, 10) for _ in range(n)], dtype=dt)
        elif c == "length":
            df[c] = pd.Series([rng.choice([0.0, 1.0, 125.5, rng.uniform(0, 4000)])
                               for _ in range(n)], dtype="float64")
        elif c == "bpm":
            df[c] = pd.Series([rng.choice([0.0, -120.0, 60.0, 180.0, 222.22])
                               for _ in range(n)], dtype="float64")
        elif c == "metronome":
            df[c] = pd.Series([rng.choice([3.0, 4.0, 7.0]) for _ in range(n)],
                              dtype="float64")
        elif dt == "int64":
            df[c] = pd.Series([rng.randrange(0, 100) for _ in range(n)], dtype="int64")
        elif dt == "float64":
            df[c] = pd.Series([rng.uniform(-2, 10) for _ in range(n)], dtype="float64")
        elif dt == "bool":
            df[c] = pd.Series([rng.random() < 0.5 for _ in range(n)], dtype="bool")
        elif c == "sample":
            df[c] = pd.Series([rng.choice([b"", b"a.wav", b"kick.ogg"])
                               for _ in range(n)], dtype=object)
        elif c == "hitsound_file":
            df[c] = pd.Series([rng.choice(["", "x.wav", "snare.ogg"])
                               for _ in range(n)], dtype=object)
        elif c == "keysounds":
            df[c] = pd.Series([[] if rng.random() < 0.5 else [rng.randrange(5)]
                               for _ in range(n)], dtype=object)
    if labels == "shuffled":
        ix = list(range(n))
        rng.shuffle(ix)
        df.index = pd.Index(ix, dtype="int64")
    elif labels == "offset10":
        df.index = pd.RangeIndex(10, 10 + 3 * n, 3)
    elif labels == "dups":
        df.index = pd.Index([7] * n, dtype="int64")
    elif labels == "str":
        df.index = pd.Index(["r%d" % i for i in range(n)], dtype=object)
    return cls(df)


def make_map(rng, M, sizes="random"):
    m = M()
    for k, v in list(m.objs.items()):
        if sizes == "empty":
            n = 0
        elif sizes == "one":
            n = 1
        else:
            n = rng.choice([0, 0, 1, 2, 3, 5, 8])
        labels = rng.choice(["default", "default", "shuffled", "offset10", "dups", "str"])
        m.objs[k] = fill(rng, type(v), n, labels)
    return m


class Rec:
    """Runs a step, records its result / exception and the warnings it raised."""

    def __init__(self, tag):
        self.tag = tag

    def __enter__(self):
        self.cw = warnings.catch_warnings(record=True)
        self.w = self.cw.__enter__()
        warnings.simplefilter("always")
        return self

    def __exit__(self, et, ev, tb):
        self.cw.__exit__(None, None, None)
        for w in self.w:
            emit(self.tag, "WARN", w.category.__name__, str(w.message).splitlines()[0][:120])
        if et is not None:
            emit(self.tag, "RAISED", et.__name__, str(ev).splitlines()[0][:160] if str(ev) else "")
            return True
        emit(self.tag, "ok")
        return False


NUM_PROPS = ["offset", "column", "length", "bpm", "metronome"]


def rand_mask(rng, n, kind=None):
    kind = kind or rng.choice(["random", "all", "none", "first", "last", "alt"])
    if kind == "random":
        return np.array([rng.random() < 0.5 for _ in range(n)], dtype=bool)
    if kind == "all":
        return np.ones(n, dtype=bool)
    if kind == "none":
        return np.zeros(n, dtype=bool)
    if kind == "first":
        a = np.zeros(n, dtype=bool)
        a[:1] = True
        return a
    if kind == "last":
        a = np.zeros(n, dtype=bool)
        a[-1:] = True
        return a
    a = np.zeros(n, dtype=bool)
    a[::2] = True
    return a


def one_op(rng, tag, m, st):
    n = len(st._stacked)
    extra = [p for p in type(st)._props if p not in NUM_PROPS]
    op = rng.choice(["mul", "add", "div", "intadd", "assign_scalar", "assign_series",
                     "loc1", "loc_many", "loc_aug", "cond_get", "getitem_set",
                     "newcol", "extra_prop", "wrong_len", "loc_rows_only",
                     "direct_edit", "direct_iloc", "chained", "lambda_loc"])
    emit(tag, "OP", op)
    with Rec(tag):
        if op == "mul":
            p = rng.choice(["offset", "length", "bpm"])
            f = rng.choice([2, 0.5, -1.0, 0, 1.1])
            setattr(st, p, getattr(st, p) * f)
        elif op == "add":
            p = rng.choice(NUM_PROPS)
            st[p] += rng.choice([1, -250.5, 0, 1000])
        elif op == "div":
            st.offset /= rng.choice([2, 1.5, 0.75])
        elif op == "intadd":
            st.column += 1
        elif op == "assign_scalar":
            p = rng.choice(NUM_PROPS)
            setattr(st, p, rng.choice([0, 1.5, 7]))
        elif op == "assign_series":
            p = rng.choice(NUM_PROPS)
            vals = pd.Series([float(rng.randrange(100)) for _ in range(n)])
            if rng.random() < 0.3 and n > 1:
                vals = vals.iloc[::-1]  # aligned on labels, not positions
            setattr(st, p, vals)
        elif op == "loc1":
            p = rng.choice(NUM_PROPS)
            st.loc[rand_mask(rng, n), p] = rng.choice([0, -1.0, 42.5])
        elif op == "loc_many":
            cols = rng.sample(NUM_PROPS, rng.choice([1, 2, 3]))
            st.loc[rand_mask(rng, n), cols] = rng.choice([0, 9.75])
        elif op == "loc_aug":
            cols = rng.choice([["offset"], ["offset", "length"], "offset", "column"])
            mask = (st.offset > rng.choice([0, 500, 1000])) & (st.column.fillna(0) <= 5)
            st.loc[mask, cols] *= 2
        elif op == "cond_get":
            p, q = rng.choice(NUM_PROPS), rng.choice(NUM_PROPS)
            r = st[p][st[q] > 1]
            dump_obj(tag + ".got", r)
            dump_obj(tag + ".got2", st.loc[rand_mask(rng, n), list(dict.fromkeys([p, q]))])
        elif op == "getitem_set":
            st["offset"] = st["offset"] + st["column"].fillna(0)
        elif op == "newcol":
            st["brand_new"] = rng.choice([1, 2.5])
        elif op == "extra_prop":
            if extra:
                p = rng.choice(extra)
                v = getattr(st, p)
                dump_obj(tag + ".extra", v)
                if str(v.dtype) in ("float64", "int64"):
                    setattr(st, p, v + 1)
                else:
                    setattr(st, p, v)
            else:
                st.does_not_exist *= 2
        elif op == "wrong_len":
            st.offset = list(range(n + 2))
        elif op == "loc_rows_only":
            if n:
                lo = rng.randrange(n)
                st.loc[lo:lo + 2, "offset"] = -77.0
            else:
                st.loc[0:2, "offset"] = -77.0
        elif op == "direct_edit":
            k = rng.choice(list(m.objs))
            m.objs[k].offset += 3
        elif op == "direct_iloc":
            k = rng.choice(list(m.objs))
            m.objs[k].df.iloc[0, 0] = 1
        elif op == "chained":
            k = rng.choice(list(m.objs))
            lst = m.objs[k]
            lst.offset[lst.df.index[0]] = 12.0
        elif op == "lambda_loc":
            st.loc[lambda d: d["offset"] >= 1000, "offset"] -= 1000
    dump_map(tag, m)
    dump_stack(tag, st)


def scenario(rng, tag, M, sizes):
    m = make_map(rng, M, sizes)
    dump_map(tag + ".init", m)
    ref_objs = {k: v for k, v in m.objs.items()}
    ref_dfs = {k: v.df.copy(deep=True) for k, v in m.objs.items()}
    st = None
    with Rec(tag + ".stack"):
        inc = rng.choice([None, None, None, (NoteList,), (HitList, HoldList), (BpmList,),
                          (HoldList,), (OsuSvList,), (HitList, BpmList)])
        emit(tag, "include", None if inc is None else [t.__name__ for t in inc])
        st = m.stack() if inc is None else m.stack(inc)
    if st is None:
        return
    # construction alone must not touch the lists
    for k, v in m.objs.items():
        emit(tag, "untouched", k, v.df.equals(ref_dfs[k]),
             list(v.df.index) == list(ref_dfs[k].index))
    dump_stack(tag + ".fresh", st)
    for i in range(rng.choice([2, 4, 6])):
        t = "%s.%d" % (tag, i)
        if rng.random() < 0.2:
            emit(t, "RESTACK")
            with Rec(t + ".restack"):
                st = m.stack() if rng.random() < 0.6 else m.stack((NoteList,))
        one_op(rng, t, m, st)
    # identity and type of the list objects survive
    for k, v in m.objs.items():
        emit(tag, "same-object", k, v is ref_objs[k], type(v).__name__)


def direct_ctor(rng):
    """Stacker built directly, as MapSet and algorithms do."""
    with Rec("ctor.empty"):
        Map.Stacker([])
    with Rec("ctor.nolen"):
        Map.Stacker([object()])
    hl = fill(rng, HitList, 3, "default")
    bl = fill(rng, BpmList, 2, "str")
    objs = [hl, bl]
    with Rec("ctor.direct"):
        st = Map.Stacker(objs)
        emit("ctor.direct", "same list object", st._unstacked is objs)
        st.offset += 1
        dump_stack("ctor.direct", st)
        dump_frame("ctor.direct.hl", hl.df)
        dump_frame("ctor.direct.bl", bl.df)
        # a list swapped for a differently sized frame after stacking
        hl.df = hl.df.iloc[:1]
        st.offset *= 2
        dump_frame("ctor.swap.hl", hl.df)
        # columns that the stacked frame does not have
        bl.df = bl.df.rename(columns={"bpm": "tempo"})
        st.offset *= 2
    dump_frame("ctor.after.hl", hl.df)
    dump_frame("ctor.after.bl", bl.df)
    with Rec("ctor.same-twice"):
        st = Map.Stacker([hl, hl])
        st.offset += 5
        dump_stack("ctor.same-twice", st)
        dump_frame("ctor.same-twice.hl", hl.df)
    with Rec("rate"):
        m = make_map(rng, OsuMap)
        before = {k: v.df.copy(deep=True) for k, v in m.objs.items()}
        r = m.rate(1.25)
        dump_map("rate.out", r)
        for k, v in m.objs.items():
            emit("rate.input-untouched", k, v.df.equals(before[k]))


def edits_after_update(rng):
    """Lists handed back by _update behave like ordinary frames afterwards."""
    for M in (OsuMap, SMMap, BMSMap, O2JMap, QuaMap):
        for rep in range(3):
            tag = "edit.%s.%d" % (M.__name__, rep)
            m = make_map(rng, M, "random" if rep else "one")
            with Rec(tag + ".stack"):
                st = m.stack()
                st.offset += 1
            for k, lst in m.objs.items():
                t = tag + "." + k
                with Rec(t + ".chained"):
                    lst.offset[lst.df.index[0]] = 12.0
                with Rec(t + ".iloc"):
                    lst.df.iloc[0, 0] = 1
                with Rec(t + ".loc"):
                    lst.df.loc[lst.df["offset"] > 100, "offset"] = 3.0
                with Rec(t + ".colslice"):
                    lst.df["offset"][0:1] = 9.0
                with Rec(t + ".setcol"):
                    lst.offset = lst.offset * 2
                with Rec(t + ".item"):
                    lst[0] = lst[0]
            dump_map(tag + ".edited", m)
            with Rec(tag + ".stale-stack-wins"):
                st.loc[st.offset > 2, ["offset"]] += 1
            dump_map(tag + ".restored", m)
            dump_stack(tag + ".restored", st)


def main():
    rng = random.Random(120012)
    n = 0
    for M in (OsuMap, SMMap, BMSMap, O2JMap, QuaMap, Map):
        for sizes in ("random", "random", "random", "random", "random", "random",
                      "empty", "one"):
            n += 1
            scenario(rng, "S%02d.%s" % (n, M.__name__), M, sizes)
    direct_ctor(rng)
    edits_after_update(rng)
    text = "\n".join(OUT)
    import os
    if os.environ.get("DEMO_DUMP"):
        open(os.environ["DEMO_DUMP"], "w", encoding="utf-8", errors="backslashreplace").write(text)
    print("scenarios", n, "lines", len(OUT),
          "raised", sum(" RAISED " in l for l in OUT),
          "warned", sum(" WARN " in l for l in OUT), file=sys.stderr)
    print("DIGEST", hashlib.sha256(text.encode("utf-8", "backslashreplace")).hexdigest())


if __name__ == "__main__":
    main()
