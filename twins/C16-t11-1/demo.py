"""Demo for C16 / change 1: TimedList.after / before / between and the HoldList overrides.

Run:  cd /tmp/wt7/C16 && PYTHONPATH=/tmp/wt7/C16 /venv/bin/python demo.py
Prints one line ``DIGEST <sha256>`` over a canonical dump of every result.
"""
import hashlib
import importlib
import inspect
import math
import os
import pkgutil
import random
import warnings

import numpy as np
import pandas as pd

import reamber
from reamber.base.lists.TimedList import TimedList
from reamber.base.lists.notes.HoldList import HoldList

random.seed(160001)

for _m in pkgutil.walk_packages(reamber.__path__, "reamber."):
    if ".algorithms" in _m.name:
        continue
    importlib.import_module(_m.name)


def _subs(c):
    out = []
    for s in c.__subclasses__():
        out.append(s)
        out += _subs(s)
    return out


CLASSES = sorted(
    (c for c in set([TimedList] + _subs(TimedList)) if not inspect.isabstract(c)),
    key=lambda c: (c.__module__, c.__name__),
)

OUT = []


def emit(*parts):
    OUT.append(" | ".join(str(p) for p in parts))


def cell(v):
    if isinstance(v, float):
        return f"{type(v).__name__}:{v!r}:{math.copysign(1, v) if v == 0 else ''}"
    return f"{type(v).__name__}:{v!r}"


def dump_df(df):
    lines = [
        f"cols={list(df.columns)!r}",
        f"dtypes={[str(t) for t in df.dtypes]!r}",
        f"index={type(df.index).__name__}:{list(df.index)!r}",
    ]
    for lab, row in zip(df.index, df.itertuples(index=False, name=None)):
        lines.append(f"{lab!r}:" + ",".join(cell(v) for v in row))
    return "\n".join(lines)


def dump(obj):
    if isinstance(obj, TimedList):
        return f"<{type(obj).__module__}.{type(obj).__name__}>\n" + dump_df(obj.df)
    if isinstance(obj, tuple):
        return "(" + ";".join(dump(o) for o in obj) + ")"
    return cell(obj)


PENDING = []


def attempt(label, fn, *inputs):
    """Queues a call; ``flush`` runs a deterministic sample of the queue."""
    PENDING.append((label, fn, inputs))


def flush(rng, k):
    todo = PENDING[:] if len(PENDING) <= k else rng.sample(PENDING, k)
    del PENDING[:]
    for label, fn, inputs in todo:
        snaps = [(i.df, i.df.copy(deep=True)) for i in inputs]
        run(label, fn)
        for i, (df, snap) in zip(inputs, snaps):
            same = (
                i.df is df
                and df.equals(snap)
                and list(df.dtypes) == list(snap.dtypes)
                and list(df.index) == list(snap.index)
                and list(df.columns) == list(snap.columns)
            )
            emit("INPUT-UNCHANGED", same)


def run(label, fn):
    """Runs fn, records result / exception / warnings."""
    with warnings.catch_warnings(record=True) as ws:
        warnings.simplefilter("always")
        try:
            res = dump(fn())
        except Exception as e:  # noqa
            res = f"RAISED {type(e).__name__}"
    emit("CALL", label)
    emit("RES", res)
    for w in ws:
        emit("WARN", w.category.__name__, str(w.message))


OFFSET_POOL = [-1500.0, -0.5, -0.0, 0.0, 0.25, 1 / 3, 100.0, 100.0, 250.75, 1e6, 1000.0]


def gen_value(name, dtype, default, rng, neg_length):
    if name == "offset":
        return rng.choice(OFFSET_POOL + [rng.uniform(-2000, 2000)])
    if name == "length":
        v = rng.choice([0.0, 0.5, 100.0, 249.25, 1000.0, rng.uniform(0, 1500)])
        if neg_length and rng.random() < 0.4:
            v = -v - 1.0
        return v
    if dtype == "float":
        return rng.choice([0.0, 1.0, 4.0, 120.0, 0.75, rng.uniform(-5, 300)])
    if dtype == "int":
        return rng.randint(0, 9)
    if dtype == "bool":
        return rng.random() < 0.5
    if dtype == "str":
        return rng.choice(["", "a.wav", "hit.ogg"])
    if isinstance(default, bytes):
        return rng.choice([b"", b"01", b"ZZ"])
    if isinstance(default, list):
        return [rng.randint(0, 3) for _ in range(rng.randint(0, 2))]
    return rng.choice(["", "clap.wav"])


def make_list(cls, n, rng, neg_length=False, int_offsets=False):
    props = cls._item_class()._props
    cols = list(cls([]).df.columns)
    data = {}
    for c in cols:
        t, d = props[c]
        vals = [gen_value(c, t, d, rng, neg_length) for _ in range(n)]
        if c == "offset" and int_offsets:
            data[c] = pd.Series([int(v) for v in vals], dtype="int64")
        else:
            data[c] = pd.Series(vals, dtype=t)
    return cls(pd.DataFrame(data))


def bounds_for(tl, rng):
    offs = list(tl.df["offset"]) if len(tl.df) else []
    b = [-1e9, 0.0, -0.0, 100.0, 100, 1e9, float("nan"), float("inf"), -float("inf")]
    if offs:
        o = rng.choice(offs)
        b += [o, o + 0.125, np.float64(o), min(offs), max(offs)]
        if "length" in tl.df.columns:
            i = rng.randrange(len(offs))
            b += [offs[i] + tl.df["length"].iloc[i]]
    return b


FLAGS = [True, False, 1, 0, None, "x", "", np.True_, np.False_]
ENDS = [
    True,
    False,
    (True, False),
    (False, True),
    (True, True),
    (False, False),
    [True, False],
    (1, 0),
    (True,),
    (False, True, True),
    (),
    np.True_,
    None,
]


def earlier_ops(tl, rng):
    """The same contents after some earlier list operations (row labels differ)."""
    yield "plain", tl
    yield "sorted", tl.sorted()
    yield "sorted-rev", tl.sorted(reverse=True)
    yield "sliced", tl[1:]
    yield "stepped", tl[::2]
    yield "appended", tl.append(tl[:2])
    yield "appended-sorted", tl.append(tl[:3], sort=True)
    if len(tl):
        lo = rng.choice(list(tl.df["offset"]))
        yield "after-then", tl.after(lo, True)


def exercise_plain(tag, tl, rng):
    bs = bounds_for(tl, rng)
    for b in bs:
        for f in FLAGS:
            attempt(f"{tag} after({b!r},{f!r})", lambda b=b, f=f: tl.after(b, f), tl)
            attempt(
                f"{tag} before({b!r},{f!r})",
                lambda b=b, f=f: tl.before(b, include_end=f),
                tl,
            )
        attempt(f"{tag} after({b!r})", lambda b=b: tl.after(b), tl)
        attempt(f"{tag} before({b!r})", lambda b=b: tl.before(offset=b), tl)
    for _ in range(6):
        lo, hi = rng.choice(bs), rng.choice(bs)
        attempt(
            f"{tag} between({lo!r},{hi!r})", lambda lo=lo, hi=hi: tl.between(lo, hi), tl
        )
        for e in ENDS:
            attempt(
                f"{tag} between({lo!r},{hi!r},{e!r})",
                lambda lo=lo, hi=hi, e=e: tl.between(lo, hi, e),
                tl,
            )
    attempt(f"{tag} after('a')", lambda: tl.after("a"), tl)
    attempt(f"{tag} before(None,True)", lambda: tl.before(None, True), tl)
    attempt(f"{tag} after([1,2])", lambda: tl.after([1, 2]), tl)
    attempt(
        f"{tag} after(per-row array)",
        lambda: tl.after(np.zeros(len(tl)), True),
        tl,
    )


def exercise_hold(tag, tl, rng):
    bs = bounds_for(tl, rng)
    for b in bs:
        for f in FLAGS[:6]:
            for g in (True, False, 1, 0, None):
                attempt(
                    f"{tag} H.after({b!r},{f!r},tail={g!r})",
                    lambda b=b, f=f, g=g: tl.after(b, f, g),
                    tl,
                )
                attempt(
                    f"{tag} H.before({b!r},{f!r},head={g!r})",
                    lambda b=b, f=f, g=g: tl.before(b, include_end=f, include_head=g),
                    tl,
                )
        attempt(
            f"{tag} H.after({b!r},tail)",
            lambda b=b: tl.after(b, include_tail=True),
            tl,
        )
        attempt(
            f"{tag} H.before({b!r},nohead)", lambda b=b: tl.before(b, False, False), tl
        )
    for _ in range(5):
        lo, hi = rng.choice(bs), rng.choice(bs)
        for e in ENDS:
            for h, t in ((True, False), (False, True), (True, True), (False, False)):
                attempt(
                    f"{tag} H.between({lo!r},{hi!r},{e!r},head={h},tail={t})",
                    lambda lo=lo, hi=hi, e=e, h=h, t=t: tl.between(
                        lo, hi, e, include_head=h, include_tail=t
                    ),
                    tl,
                )
        attempt(
            f"{tag} H.between({lo!r},{hi!r})",
            lambda lo=lo, hi=hi: tl.between(lo, hi),
            tl,
        )


def exercise(tag, tl, rng, is_hold, k):
    emit("LIST", tag, dump(tl))
    exercise_plain(tag, tl, rng)
    flush(rng, k)
    if is_hold:
        exercise_hold(tag, tl, rng)
        flush(rng, k)
    emit("LIST-AFTER", tag, dump(tl))


def main():
    rng = random.Random(1600011)
    for cls in CLASSES:
        is_hold = issubclass(cls, HoldList)
        has_length = "length" in cls([]).df.columns
        for n in (0, 1, 2, 8):
            variants = [("std", dict())]
            if n == 8:
                variants.append(("intoff", dict(int_offsets=True)))
                if has_length:
                    variants.append(("neglen", dict(neg_length=True)))
            for vname, kw in variants:
                base = make_list(cls, n, rng, **kw)
                exercise(f"{cls.__name__}[n={n},{vname}]", base, rng, is_hold, 90)
                if n == 8 and vname != "intoff":
                    for oname, tl in earlier_ops(base, rng):
                        tag = f"{cls.__name__}[n={n},{vname},{oname}]"
                        exercise(tag, tl, rng, is_hold, 25)
        # lists made through the public constructors as well
        exercise(f"{cls.__name__}[empty(3)]", cls.empty(3), rng, is_hold, 30)
        items = [it for it in make_list(cls, 4, rng)]
        exercise(f"{cls.__name__}[from-items]", cls(items), rng, is_hold, 30)

    text = "\n".join(OUT)
    if os.environ.get("C16_DUMP"):
        with open(os.environ["C16_DUMP"], "w", encoding="utf8", errors="backslashreplace") as f:
            f.write(text)
    print("DIGEST", hashlib.sha256(text.encode("utf8", "backslashreplace")).hexdigest())


if __name__ == "__main__":
    main()
