"""A8 PATH — acyclic path enumeration over the structured statements the
repository uses (DESIGN §3 *Path enumerator*, §4 A8).

A loop nested inside the enumerated body is taken zero times or once (its
``break``/``continue`` are absorbed); ``try`` takes the body, or a handler after
any prefix of the body (approximated by: after the whole body or after none of
it).  The enumeration is used for must-call / exactly-once / no-early-exit rules.
"""
from __future__ import annotations

import ast
from dataclasses import dataclass, field
from typing import Callable, List

from .model import AnalysisError


@dataclass
class Path:
    events: List[ast.AST] = field(default_factory=list)   # simple statements and evaluated test expressions
    exit: str = "fall"                                    # fall | break | continue | return | raise

    def extend(self, other: "Path") -> "Path":
        return Path(self.events + other.events, other.exit)


LIMIT = 20000


def paths_through(body: List[ast.stmt]) -> List[Path]:
    paths = [Path()]
    for s in body:
        nxt: List[Path] = []
        alts = None
        for p in paths:
            if p.exit != "fall":
                nxt.append(p)
                continue
            if alts is None:
                alts = _alts(s)
            for a in alts:
                nxt.append(p.extend(a))
        paths = nxt
        if len(paths) > LIMIT:
            raise AnalysisError("path explosion in A8 enumeration")
    return paths


def _alts(s: ast.stmt) -> List[Path]:
    if isinstance(s, ast.If):
        t = Path([s.test])
        return [t.extend(p) for p in paths_through(s.body)] + [t.extend(p) for p in paths_through(s.orelse)]
    if isinstance(s, (ast.For, ast.AsyncFor, ast.While)):
        head = Path([s.iter if not isinstance(s, ast.While) else s.test])
        out = []
        for tail in paths_through(s.orelse):
            out.append(head.extend(tail))            # zero iterations
        for p in paths_through(s.body):
            if p.exit in ("return", "raise"):
                out.append(head.extend(p))
            elif p.exit == "break":
                out.append(head.extend(Path(p.events, "fall")))
            else:
                for tail in paths_through(s.orelse):
                    out.append(head.extend(Path(p.events, "fall")).extend(tail))
        return out
    if isinstance(s, ast.Try):
        out = []
        fin = paths_through(s.finalbody)
        bodies = paths_through(s.body)
        for b in bodies:
            if b.exit == "fall":
                for e in paths_through(s.orelse):
                    for f in fin:
                        out.append(b.extend(e).extend(f) if e.exit == "fall" else b.extend(e))
            elif b.exit == "raise" and s.handlers:
                for h in s.handlers:
                    for hp in paths_through(h.body):
                        for f in fin:
                            out.append(Path(b.events, "fall").extend(hp).extend(f) if hp.exit == "fall"
                                       else Path(b.events, "fall").extend(hp))
            else:
                out.append(b)
        for h in s.handlers:  # exception before the body had any effect
            for hp in paths_through(h.body):
                for f in fin:
                    out.append(hp.extend(f) if hp.exit == "fall" else hp)
        return out
    if isinstance(s, (ast.With, ast.AsyncWith)):
        head = Path([it.context_expr for it in s.items])
        return [head.extend(p) for p in paths_through(s.body)]
    if isinstance(s, ast.Return):
        return [Path([s], "return")]
    if isinstance(s, ast.Raise):
        return [Path([s], "raise")]
    if isinstance(s, ast.Break):
        return [Path([], "break")]
    if isinstance(s, ast.Continue):
        return [Path([], "continue")]
    if isinstance(s, (ast.FunctionDef, ast.AsyncFunctionDef, ast.ClassDef, ast.Pass, ast.Import, ast.ImportFrom)):
        return [Path()]
    return [Path([s])]


def nodes_of(p: Path):
    for e in p.events:
        for n in ast.walk(e):
            yield n


def count_calls(p: Path, pred: Callable[[ast.AST], bool]) -> int:
    return sum(1 for n in nodes_of(p) if pred(n))


def first_index(p: Path, pred: Callable[[ast.AST], bool]) -> int:
    for i, e in enumerate(p.events):
        if any(pred(n) for n in ast.walk(e)):
            return i
    return -1


def last_index(p: Path, pred: Callable[[ast.AST], bool]) -> int:
    out = -1
    for i, e in enumerate(p.events):
        if any(pred(n) for n in ast.walk(e)):
            out = i
    return out
