"""Demo for change 2 (full_ln): broad, seeded inputs -> one DIGEST line."""
import hashlib
import random
import warnings

import numpy as np
import pandas as pd

from reamber.algorithms.generate import full_ln
from reamber.base.Hit import Hit
from reamber.base.Hold import Hold
from reamber.base.Bpm import Bpm
from reamber.base.Map import Map
from reamber.base.lists.BpmList import BpmList
from reamber.base.lists.notes.HitList import HitList
from reamber.base.lists.notes.HoldList import HoldList
from reamber.osu import OsuMap
from reamber.osu.OsuHit import OsuHit
from reamber.osu.OsuHold import OsuHold
from reamber.osu.OsuBpm import OsuBpm
from reamber.osu.OsuSv import OsuSv
from reamber.osu.lists.OsuBpmList import OsuBpmList
from reamber.osu.lists.OsuSvList import OsuSvList
from reamber.osu.lists.notes.OsuHitList import OsuHitList
from reamber.osu.lists.notes.OsuHoldList import OsuHoldList
from reamber.quaver import QuaMap
from reamber.quaver.QuaHit import QuaHit
from reamber.quaver.QuaHold import QuaHold
from reamber.quaver.lists.notes.QuaHitList import QuaHitList
from reamber.quaver.lists.notes.QuaHoldList import QuaHoldList
from reamber.sm import SMMap
from reamber.sm.SMHit import SMHit
from reamber.sm.SMHold import SMHold
from reamber.sm.lists.notes import SMHitList, SMHoldList

warnings.simplefilter("ignore")
random.seed(150025)

OUT = []


def emit(*a):
    OUT.append(" ".join(str(x) for x in a))


def dump_df(tag, df):
    emit(tag, "type", type(df).__name__, "shape", df.shape)
    emit(tag, "columns", list(df.columns))
    emit(tag, "dtypes", [str(t) for t in df.dtypes])
    emit(tag, "index", type(df.index).__name__, str(df.index.dtype), list(df.index))
    for row in df.itertuples(index=True, name=None):
        emit(tag, "row", [(type(v).__name__, repr(v)) for v in row])


def dump_map(tag, m):
    emit(tag, "class", type(m).__name__, "objs", list(m.objs.keys()))
    for k, v in m.objs.items():
        emit(tag, k, type(v).__name__)
        dump_df(tag + "." + k, v.df)


KINDS = {
    "base": (Map, HitList, HoldList,
             lambda o, c: Hit(offset=o, column=c),
             lambda o, c, l: Hold(offset=o, column=c, length=l)),
    "osu": (OsuMap, OsuHitList, OsuHoldList,
            lambda o, c: OsuHit(offset=o, column=c, volume=random.choice([0, 30]),
                                hitsound_set=random.choice([0, 2])),
            lambda o, c, l: OsuHold(offset=o, column=c, length=l,
                                    hitsound_file=random.choice(["", "a.wav"]))),
    "qua": (QuaMap, QuaHitList, QuaHoldList,
            lambda o, c: QuaHit(offset=o, column=c, keysounds=[]),
            lambda o, c, l: QuaHold(offset=o, column=c, length=l, keysounds=[])),
    "sm": (SMMap, SMHitList, SMHoldList,
           lambda o, c: SMHit(offset=o, column=c),
           lambda o, c, l: SMHold(offset=o, column=c, length=l)),
}

ORDERS = ["shuffled", "sorted", "reverse", "append", "concat"]


def order_list(cls, items, order):
    if not items:
        return cls([])
    tl = cls(items)
    if order == "sorted":
        return tl.sorted()
    if order == "reverse":
        return tl.sorted(reverse=True)
    if order == "append":
        out = cls([items[0]])
        for it in items[1:]:
            out = out.append(it)  # sort=False
        return out
    if order == "concat" and len(items) > 1:
        h = len(items) // 2
        return cls(items[h:]).append(cls(items[:h]))
    return tl


def make_map(kind, n_hits, n_holds, keys, grid, order):
    mcls, hcls, ocls, mk_hit, mk_hold = KINDS[kind]
    hits = [mk_hit(float(random.choice(grid)), random.randrange(keys)) for _ in range(n_hits)]
    holds = [
        mk_hold(float(random.choice(grid)), random.randrange(keys),
                float(random.choice([1, 50, 99.5, 100, 250, 251, 1000, 0])))
        for _ in range(n_holds)
    ]
    m = mcls()
    m.hits = order_list(hcls, hits, order)
    m.holds = order_list(ocls, holds, order)
    if kind == "base":
        m.bpms = BpmList([Bpm(offset=0, bpm=120)])
    elif kind == "osu":
        m.bpms = OsuBpmList([OsuBpm(offset=500, bpm=200), OsuBpm(offset=0, bpm=100)])
        m.svs = OsuSvList([OsuSv(offset=300, multiplier=2.0)])
    return m


GRIDS = [
    [0, 100, 249, 250, 251, 400, 500, 750, 1000, 1250, 2000],
    [-1000, -250, 0, 250, 250, 600],  # negative times and a repeated value
    [0, 0.5, 149.5, 150, 250.25, 250.5, 1e6],
    [10],  # everything at the same time
]
PARAMS = [
    {}, {}, {},
    dict(gap=0), dict(gap=0, ln_as_hit_thres=0), dict(gap=-100),
    dict(gap=150, ln_as_hit_thres=-1000), dict(gap=1e9), dict(ln_as_hit_thres=1e9),
    dict(gap=float("nan")), dict(ln_as_hit_thres=float("nan")),
    dict(gap=float("inf")), dict(gap=-float("inf")), dict(gap=75.5, ln_as_hit_thres=25.25),
    dict(gap=250, ln_as_hit_thres=0.0),
]

cases = []
for i in range(72):
    kind = random.choice(list(KINDS))
    keys = random.choice([1, 2, 4, 4, 7, 10, 18])
    m = make_map(kind, random.choice([0, 0, 1, 2, 5, 12, 25]),
                 random.choice([0, 0, 1, 3, 8]), keys, random.choice(GRIDS),
                 random.choice(ORDERS))
    cases.append((f"gen{i}_{kind}", m, random.choice(PARAMS)))

# edge cases
def base_map(hits, holds):
    m = Map()
    m.hits = HitList(hits) if hits else HitList([])
    m.holds = HoldList(holds) if holds else HoldList([])
    return m

cases.append(("edge_empty", base_map([], []), {}))
cases.append(("edge_single_hit", base_map([Hit(5.0, 0)], []), {}))
cases.append(("edge_single_hold", base_map([], [Hold(5.0, 0, 20.0)]), {}))
cases.append(("edge_last_is_hold", base_map([Hit(0.0, 0)], [Hold(1000.0, 0, 20.0)]), {}))
cases.append(("edge_last_is_hit", base_map([Hit(1000.0, 0)], [Hold(0.0, 0, 20.0)]), {}))
cases.append(("edge_tie", base_map([Hit(0.0, 0), Hit(0.0, 0), Hit(500.0, 0)],
                                   [Hold(0.0, 0, 20.0), Hold(500.0, 0, 7.0)]), {}))
cases.append(("edge_exact_thres", base_map([Hit(0.0, 1), Hit(250.0, 1), Hit(499.0, 1)], []), {}))
cases.append(("edge_hold_zero_len", base_map([], [Hold(0.0, 3, 0.0)]), {}))
cases.append(("edge_hold_nan_len", base_map([], [Hold(0.0, 3, float("nan")), Hold(9.0, 2, 1.0)]), {}))
cases.append(("edge_neg_cols", base_map([Hit(0.0, -1), Hit(400.0, -1), Hit(0.0, 17)], []), {}))
cases.append(("edge_int_offsets", base_map([Hit(0, 0), Hit(300, 0), Hit(300, 1)],
                                           [Hold(900, 0, 10)]), dict(gap=50, ln_as_hit_thres=250)))
cases.append(("edge_nan_col", base_map([Hit(0.0, float("nan")), Hit(300.0, 0), Hit(900.0, 0)], []), {}))
cases.append(("edge_nan_offset", base_map([Hit(float("nan"), 0), Hit(300.0, 0), Hit(900.0, 0)], []), {}))

for name, m, kw in cases:
    before = m.deepcopy()
    emit("CASE", name, sorted(kw.items(), key=str))
    try:
        res = full_ln(m, **kw)
    except Exception as e:  # noqa
        emit("RAISED", type(e).__name__)
    else:
        emit("result is input", res is m)
        dump_map("res", res)
    dump_map("in_after", m)
    for k in m.objs:
        emit("in unchanged", k, m.objs[k].df.equals(before.objs[k].df))

text = "\n".join(OUT)
print("DIGEST", hashlib.sha256(text.encode("utf8")).hexdigest())
