"""F38 (C14, known finding): Quaver `keysounds` is an object column holding one Python list per note.  pandas copies
(DataFrame.copy(deep=True) — which is what copy.deepcopy does for a frame — sort_values, concat, boolean indexing) copy the
references, not the lists, so the result of deepcopy / rate / sorted / append / between shares every note's list with the input.
Run:  cd /repo && /venv/bin/python /verif/triage/probes/F38_keysound_cells_shared_by_copies.py   (fails on the pinned tree)"""
import warnings
warnings.simplefilter("ignore")
from reamber.quaver.QuaMap import QuaMap

qua = QuaMap.read_file("rsc/maps/qua/CarryMeAway.qua")
bad = []
for name, res in (("deepcopy", qua.deepcopy()), ("rate", qua.rate(1.5))):
    res.hits.keysounds.iloc[0].append({"Sample": 1, "Volume": 100})
    if qua.hits.keysounds.iloc[0] != []:
        bad.append(name); qua.hits.keysounds.iloc[0].clear()
s = qua.hits.sorted()
s.keysounds.iloc[0].append({"Sample": 1, "Volume": 100})
if qua.hits.keysounds.iloc[0] != []:
    bad.append("sorted"); qua.hits.keysounds.iloc[0].clear()
print("shared with the input after:", bad)
assert not bad
