"""Order-preserving sequence expressions (DESIGN §12).

Several rules ask "is this the sequence S, in S's order, possibly filtered / mapped element-wise?" — the lists handed to a
Stacker, the frames concatenated into the stack, the lengths accumulated into the boundaries.  The same sequence can be
written as a comprehension, a generator, `list(S)`, a name bound earlier, or a name re-bound under a condition.  `describe`
reduces all of these to alternatives of

    Seq(base, filters, elt)        base: source text of the underlying sequence
                                   filters: conditions on the element, the element written `_`
                                   elt: the element expression, the element written `_`  ('_' = identity)

Names are resolved through a small abstract walk of the function body (`Env`): an assignment binds a name to the alternatives
of its value, an `if` joins the alternatives of both arms (an `if` without else keeps the earlier binding as an alternative),
loops and anything else that re-binds a name make it opaque.  Nothing is executed.
"""
from __future__ import annotations

import ast
import copy
from dataclasses import dataclass
from typing import Dict, FrozenSet, List, Optional, Tuple


@dataclass(frozen=True)
class Seq:
    base: str
    filters: Tuple[str, ...] = ()
    elt: str = "_"

    def __str__(self):
        f = f" if {' and '.join(self.filters)}" if self.filters else ""
        return f"[{self.elt} for _ in {self.base}{f}]"


class _Sub(ast.NodeTransformer):
    def __init__(self, mp: Dict[str, ast.AST]):
        self.mp = mp

    def visit_Name(self, n):
        if n.id in self.mp:
            return copy.deepcopy(self.mp[n.id])
        return n


def _subst_text(e: ast.AST, var: str, by: str) -> str:
    """source of e with Name `var` replaced by the expression text `by`"""
    try:
        rep = ast.parse(by, mode="eval").body
    except SyntaxError:
        rep = ast.Name(id=by, ctx=ast.Load())
    return ast.unparse(_Sub({var: rep}).visit(copy.deepcopy(e)))


OPAQUE = None
Alts = Optional[FrozenSet[Seq]]


class Env:
    """name -> alternatives (frozenset of Seq) or OPAQUE"""

    def __init__(self, fn: ast.FunctionDef):
        self.fn = fn
        self.at: Dict[int, Dict[str, Alts]] = {}     # id(stmt) -> env BEFORE the statement
        self.ver: Dict[str, int] = {}
        env: Dict[str, Alts] = {}
        self._block(fn.body, env)
        self.final = env

    def fresh(self, name: str) -> Alts:
        """a value that is not a recognised sequence form: an atomic base of its own, distinct per (re)binding"""
        self.ver[name] = self.ver.get(name, 0) + 1
        return frozenset([Seq(f"{name}#{self.ver[name]}")])

    def _block(self, stmts: List[ast.stmt], env: Dict[str, Alts]) -> None:
        for st in stmts:
            self.at[id(st)] = dict(env)
            for sub in ast.walk(st):
                if isinstance(sub, ast.expr):
                    self.at.setdefault(id(sub), self.at[id(st)])
            if isinstance(st, ast.Assign) and len(st.targets) == 1 and isinstance(st.targets[0], ast.Name):
                env[st.targets[0].id] = describe(st.value, env) or self.fresh(st.targets[0].id)
            elif isinstance(st, ast.AnnAssign) and isinstance(st.target, ast.Name) and st.value is not None:
                env[st.target.id] = describe(st.value, env) or self.fresh(st.target.id)
            elif isinstance(st, ast.If):
                a, b = dict(env), dict(env)
                self._block(st.body, a)
                self._block(st.orelse, b)
                for k in set(a) | set(b):
                    if k not in a or k not in b:
                        env[k] = self.fresh(k)          # bound on one arm only
                    else:
                        env[k] = a[k] | b[k]
            else:
                # any other statement: names it stores become opaque
                for n in ast.walk(st):
                    if isinstance(n, ast.Name) and isinstance(n.ctx, (ast.Store, ast.Del)):
                        env[n.id] = self.fresh(n.id)
                for fld in ("body", "orelse", "finalbody"):
                    if isinstance(getattr(st, fld, None), list):
                        e2 = dict(env)
                        self._block(getattr(st, fld), e2)
                        for k, v in e2.items():
                            if env.get(k, "∅") != v:
                                env[k] = self.fresh(k)

    def of(self, e: ast.AST) -> Alts:
        """alternatives of an expression occurring in the function (environment at its statement)"""
        return describe(e, self.at.get(id(e), self.final))


def describe(e: ast.AST, env: Dict[str, Alts]) -> Alts:
    """alternatives of a sequence expression, or None when it is not one of the recognised order-preserving forms"""
    if isinstance(e, ast.Name):
        if e.id in env:
            return env[e.id]
        return frozenset([Seq(e.id)])
    if isinstance(e, ast.Attribute):
        return frozenset([Seq(ast.unparse(e))])
    if isinstance(e, ast.Call):
        f = e.func
        # list(X) / tuple(X) / iter(X): same elements, same order
        if isinstance(f, ast.Name) and f.id in ("list", "tuple", "iter") and len(e.args) == 1 and not e.keywords:
            return describe(e.args[0], env)
        # X.values() / X.copy(): dict values in insertion order / shallow copy
        if isinstance(f, ast.Attribute) and f.attr == "values" and not e.args:
            return frozenset([Seq(ast.unparse(e))])
        if isinstance(f, ast.Attribute) and f.attr == "copy" and not e.args:
            return describe(f.value, env)
        # filter(pred, X) with a lambda
        if isinstance(f, ast.Name) and f.id == "filter" and len(e.args) == 2 and isinstance(e.args[0], ast.Lambda) and \
                len(e.args[0].args.args) == 1:
            inner = describe(e.args[1], env)
            if inner is None:
                return None
            lam = e.args[0]
            out = set()
            for s in inner:
                out.add(Seq(s.base, s.filters + (_subst_text(lam.body, lam.args.args[0].arg, s.elt),), s.elt))
            return frozenset(out)
        if isinstance(f, ast.Name) and f.id == "map" and len(e.args) == 2:
            inner = describe(e.args[1], env)
            if inner is None:
                return None
            fn0 = e.args[0]
            out = set()
            for s in inner:
                if isinstance(fn0, ast.Lambda) and len(fn0.args.args) == 1:
                    out.add(Seq(s.base, s.filters, _subst_text(fn0.body, fn0.args.args[0].arg, s.elt)))
                elif isinstance(fn0, (ast.Name, ast.Attribute)):
                    out.add(Seq(s.base, s.filters, f"{ast.unparse(fn0)}({s.elt})"))
                else:
                    return None
            return frozenset(out)
        # S.split(sep) / S.splitlines(): a pure function of S — two occurrences with the same text are the same sequence
        if isinstance(f, ast.Attribute) and f.attr in ("split", "rsplit", "splitlines") and not e.keywords and \
                isinstance(f.value, (ast.Name, ast.Attribute)) and all(isinstance(a, ast.Constant) for a in e.args):
            recv = describe(f.value, env)        # (the binding of the receiver in force here: `text#2.split(';')`)
            if recv is not None and len(recv) == 1 and not next(iter(recv)).filters and next(iter(recv)).elt == "_":
                return frozenset([Seq(f"{next(iter(recv)).base}.{f.attr}({', '.join(ast.unparse(a) for a in e.args)})")])
            return None
        return None
    if isinstance(e, (ast.ListComp, ast.GeneratorExp)) and len(e.generators) == 1 and isinstance(e.generators[0].target, ast.Name) and \
            not e.generators[0].is_async:
        g = e.generators[0]
        inner = describe(g.iter, env)
        if inner is None:
            return None
        var = g.target.id
        out = set()
        for s in inner:
            fl = s.filters + tuple(_subst_text(c, var, s.elt) for c in g.ifs)
            out.add(Seq(s.base, fl, _subst_text(e.elt, var, s.elt)))
        return frozenset(out)
    if isinstance(e, ast.IfExp):
        a, b = describe(e.body, env), describe(e.orelse, env)
        return None if a is None or b is None else a | b
    if isinstance(e, ast.Starred):
        return describe(e.value, env)
    if isinstance(e, (ast.List, ast.Tuple)) and len(e.elts) == 1 and isinstance(e.elts[0], ast.Starred):
        return describe(e.elts[0].value, env)
    return None


def prefix_sums_of(e: ast.AST, env: Dict[str, Alts]) -> Optional[FrozenSet[Seq]]:
    """when e computes 0, x0, x0+x1, ... over a sequence: the alternatives of that sequence (elt = the summand), else None.

        list(accumulate(G, initial=0))            [0] + list(accumulate(G))            [0, *accumulate(G)]
        np.cumsum([0] + L) / np.cumsum([0, *G])   np.concatenate([[0], np.cumsum(L)]) / np.append / np.insert(np.cumsum(L), 0, 0)
    """
    def is_zero_list(x):
        return isinstance(x, (ast.List, ast.Tuple)) and len(x.elts) == 1 and isinstance(x.elts[0], ast.Constant) and x.elts[0].value == 0

    def acc(x):
        """accumulate(G) / np.cumsum(G) without the initial 0"""
        if isinstance(x, ast.Call) and isinstance(x.func, ast.Name) and x.func.id in ("list", "tuple") and len(x.args) == 1:
            return acc(x.args[0])
        if isinstance(x, ast.Call) and ast.unparse(x.func).split(".")[-1] in ("accumulate", "cumsum") and x.args:
            kws = {k.arg: k.value for k in x.keywords}
            if ast.unparse(x.func).split(".")[-1] == "accumulate":
                if len(x.args) > 1 or (set(kws) - {"initial"}):
                    return None      # a custom binary function: not a sum
                if "initial" in kws:
                    return None
            return describe(x.args[0], env)
        if isinstance(x, ast.Call) and isinstance(x.func, ast.Attribute) and x.func.attr == "tolist" and not x.args:
            return acc(x.func.value)
        return None

    if isinstance(e, ast.Call) and isinstance(e.func, ast.Name) and e.func.id in ("list", "tuple") and len(e.args) == 1 and not e.keywords:
        return prefix_sums_of(e.args[0], env)
    if isinstance(e, ast.Call) and isinstance(e.func, ast.Attribute) and e.func.attr == "tolist" and not e.args:
        return prefix_sums_of(e.func.value, env)
    if isinstance(e, ast.Call) and ast.unparse(e.func).split(".")[-1] == "accumulate" and len(e.args) == 1:
        kws = {k.arg: k.value for k in e.keywords}
        if set(kws) == {"initial"} and isinstance(kws["initial"], ast.Constant) and kws["initial"].value == 0:
            return describe(e.args[0], env)
        return None
    if isinstance(e, ast.BinOp) and isinstance(e.op, ast.Add) and is_zero_list(e.left):
        return acc(e.right)
    if isinstance(e, (ast.List, ast.Tuple)) and len(e.elts) == 2 and isinstance(e.elts[0], ast.Constant) and e.elts[0].value == 0 and \
            isinstance(e.elts[1], ast.Starred):
        return acc(e.elts[1].value)
    if isinstance(e, ast.Call) and ast.unparse(e.func).split(".")[-1] == "cumsum" and len(e.args) == 1:
        a = e.args[0]
        if isinstance(a, ast.BinOp) and isinstance(a.op, ast.Add) and is_zero_list(a.left):
            return describe(a.right, env)
        if isinstance(a, (ast.List, ast.Tuple)) and len(a.elts) == 2 and isinstance(a.elts[0], ast.Constant) and a.elts[0].value == 0 and \
                isinstance(a.elts[1], ast.Starred):
            return describe(a.elts[1].value, env)
        return None
    if isinstance(e, ast.Call) and ast.unparse(e.func).split(".")[-1] == "concatenate" and len(e.args) >= 1 and \
            isinstance(e.args[0], (ast.List, ast.Tuple)) and len(e.args[0].elts) == 2 and is_zero_list(e.args[0].elts[0]):
        return acc(e.args[0].elts[1])
    if isinstance(e, ast.Call) and ast.unparse(e.func).split(".")[-1] == "insert" and len(e.args) == 3 and \
            all(isinstance(x, ast.Constant) and x.value == 0 for x in e.args[1:]):
        return acc(e.args[0])
    return None
