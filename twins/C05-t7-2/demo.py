"""Demo for property C05 (BMS writing).  Prints one line: DIGEST <sha256>.

Run:  cd /tmp/wt7/C05 && PYTHONPATH=/tmp/wt7/C05 /venv/bin/python demo.py
"""
import hashlib
import random
import warnings
from fractions import Fraction
from pathlib import Path

import numpy as np

import reamber
from reamber.algorithms.timing.TimingMap import TimingMap
from reamber.algorithms.timing.utils.BpmChangeOffset import BpmChangeOffset
from reamber.algorithms.timing.utils.Snapper import Snapper, snap as snap_fn
from reamber.algorithms.timing.utils.find_lcm import find_lcm
from reamber.bms import BMSHit, BMSHold
from reamber.bms.BMSBpm import BMSBpm
from reamber.bms.BMSChannel import BMSChannel
from reamber.bms.BMSMap import BMSMap
from reamber.bms.lists import BMSBpmList
from reamber.bms.lists.notes import BMSHitList, BMSHoldList

random.seed(50505)
OUT = []


def emit(*parts):
    OUT.append(" | ".join(str(p) for p in parts))


def typed(x):
    return f"{type(x).__module__}.{type(x).__name__}:{x!r}"


def dump_list(tl):
    df = tl.df
    return (
        f"cols={list(df.columns)} dtypes={[str(t) for t in df.dtypes]} "
        f"index={list(df.index)} rows={[[typed(v) for v in r] for r in df.itertuples(index=False)]}"
    )


def dump_map(m):
    return " ## ".join(
        [
            dump_list(m.hits),
            dump_list(m.holds),
            dump_list(m.bpms),
            repr(sorted(m.samples.items())),
            repr(m.misc),
            repr((m.title, m.artist, m.version, m.ln_end_channel)),
        ]
    )


LAYOUTS = dict(
    BMS=BMSChannel.BMS,
    BME=BMSChannel.BME,
    PMS=BMSChannel.PMS,
    PMS_BME=BMSChannel.PMS_BME,
    PMS_5B=BMSChannel.PMS_5B,
)


def columns_of(layout):
    return sorted(v for v in layout.values() if isinstance(v, int))


SAMPLES = {b"01": b"kick.wav", b"02": b"snare.wav", b"0A": b"hat.wav", b"ZY": b"fx.ogg"}
BPM_POOL = [120.0, 150.0, 60.0, 200.0, 240.0, 100.0, 187.5, 96.0, 75.0, 173.0, 133.33, 300.0]
DIVS = [1, 2, 3, 4, 6, 8, 12, 16, 5, 7, 9, 32]


def make_chart(n_bpm, n_hit, n_hold, layout, jitter, with_samples, shuffle):
    """4/4 tempo points on measure lines, objects not colliding in (lane, slot)."""
    cols = columns_of(layout)
    bpm_rows = []  # (offset, bpm, first_measure)
    offset, measure = 0.0, 0
    for k in range(n_bpm):
        bpm = random.choice(BPM_POOL)
        bpm_rows.append((offset, bpm, measure))
        n_meas = random.randint(1, 3)
        offset += n_meas * 4 * 60000.0 / bpm
        measure += n_meas
    # candidate slots: (bpm_ix, measure_in_section, num, div)
    used = set()

    def pick_time():
        for _ in range(200):
            k = random.randrange(n_bpm)
            off0, bpm, m0 = bpm_rows[k]
            n_meas = (bpm_rows[k + 1][2] - m0) if k + 1 < n_bpm else 3
            mi = random.randrange(n_meas)
            div = random.choice(DIVS)
            num = random.randrange(div * 4)
            pos = Fraction(num, div)  # beat within the measure
            key = (m0 + mi, pos)
            t = off0 + (mi * 4 + float(pos)) * 60000.0 / bpm
            return key, t
        raise RuntimeError

    hits, holds = [], []
    for _ in range(n_hit):
        for _try in range(50):
            key, t = pick_time()
            c = random.choice(cols)
            if (c, key) not in used:
                used.add((c, key))
                break
        else:
            continue
        if jitter and random.random() < 0.4:
            t += random.uniform(-0.4, 0.4)
            t = max(t, 0.0)
        smp = random.choice([b"", b"kick.wav", b"snare.wav", b"hat.wav", b"fx.ogg", b"unknown.wav"]) if with_samples else b""
        hits.append(BMSHit(offset=t, column=c, sample=smp))
    for _ in range(n_hold):
        for _try in range(50):
            key0, t0 = pick_time()
            key1, t1 = pick_time()
            c = random.choice(cols)
            if t1 < t0:
                key0, t0, key1, t1 = key1, t1, key0, t0
            if key0 != key1 and (c, key0) not in used and (c, key1) not in used:
                used.add((c, key0))
                used.add((c, key1))
                break
        else:
            continue
        smp = random.choice([b"", b"kick.wav", b"nope.wav"]) if with_samples else b""
        holds.append(BMSHold(offset=t0, column=c, length=t1 - t0, sample=smp))
    if shuffle:
        random.shuffle(hits)
        random.shuffle(holds)
    m = BMSMap()
    m.title = b"demo"
    m.artist = "artist"
    m.version = b"7"
    m.misc = {b"GENRE": b"x", "PLAYER": "1"}
    if with_samples:
        m.samples = dict(SAMPLES)
    m.hits = BMSHitList(hits)
    m.holds = BMSHoldList(holds)
    m.bpms = BMSBpmList([BMSBpm(offset=o, bpm=b, metronome=4) for o, b, _ in bpm_rows])
    return m


def run_write(tag, m, layout_name, **kw):
    before = dump_map(m)
    with warnings.catch_warnings(record=True) as w:
        warnings.simplefilter("always")
        try:
            b = m.write(note_channel_config=LAYOUTS[layout_name], **kw)
            res = f"type={type(b).__name__} len={len(b)} nlines={len(b.splitlines())} bytes={b!r}"
        except Exception as e:  # noqa
            res = f"EXC {type(e).__name__}"
    after = dump_map(m)
    emit(tag, layout_name, sorted(kw.items()), res,
         "warn=" + repr(sorted((x.category.__name__, str(x.message)) for x in w)),
         "unchanged=" + str(before == after), after)


# ---------------------------------------------------------------- A. generated charts
case = 0
for layout_name in LAYOUTS:
    layout = LAYOUTS[layout_name]
    specs = [
        (1, 0, 0, False, False, False),   # tempo only
        (1, 1, 0, False, False, False),   # one hit
        (1, 0, 1, False, True, False),    # one hold
        (1, 12, 3, False, True, True),
        (2, 20, 5, True, True, True),
        (3, 30, 8, True, True, True),
        (5, 40, 10, False, False, True),
        (8, 60, 12, True, True, True),
        (4, 25, 0, True, True, False),
        (4, 0, 9, False, True, True),
    ]
    for spec in specs:
        case += 1
        m = make_chart(spec[0], spec[1], spec[2], layout, spec[3], spec[4], spec[5])
        run_write(f"A{case}", m, layout_name)
        if case % 3 == 0:
            run_write(f"A{case}d", m, layout_name, no_sample_default=b"ZZ")
        if case % 7 == 0:
            # write the same chart with a different layout (columns may be missing -> KeyError)
            other = list(LAYOUTS)[(case // 7) % len(LAYOUTS)]
            run_write(f"A{case}x", m, other)

# many tempo points (2-char base-36 ids > Z)
m = make_chart(150, 40, 6, BMSChannel.BME, True, True, True)
run_write("A-many", m, "BME")
# too many tempo points -> assertion
m = BMSMap()
m.bpms = BMSBpmList([BMSBpm(offset=i * 2000.0, bpm=120.0, metronome=4) for i in range(1300)])
run_write("A-toomany", m, "BME")
# no tempo point at all
run_write("A-nobpm", BMSMap(), "BME")
# object before the first tempo point
m = make_chart(2, 3, 0, BMSChannel.BME, False, False, False)
m.bpms = BMSBpmList([BMSBpm(offset=500.0, bpm=120.0, metronome=4)])
m.hits = BMSHitList([BMSHit(offset=100.0, column=1)])
run_write("A-early", m, "BME")
# str header values, no LNOBJ
m = make_chart(2, 6, 0, BMSChannel.PMS, False, True, False)
m.title, m.artist, m.version, m.ln_end_channel = "t", b"a", "3", b""
run_write("A-nolnobj", m, "PMS")
# many objects of one lane in one measure with co-prime divisions (LCM line splitting)
hits = [BMSHit(offset=2000.0 * k + 2000.0 * n / d, column=2, sample=b"")
        for k, ds in enumerate([(2, 3, 7), (5, 9, 16), (32, 3), (12, 16, 5, 7), (96, 64, 7)])
        for d in ds for n in range(1, d) if np.gcd(n, d) == 1]
m = BMSMap()
m.bpms = BMSBpmList([BMSBpm(offset=0.0, bpm=120.0, metronome=4)])
m.hits = BMSHitList(hits)
run_write("A-lcm", m, "BME")
run_write("A-lcm", m, "PMS_5B")

# out of domain: two objects colliding in one (lane, slot), and an off-grid pair 1 ms apart
m = BMSMap()
m.samples = dict(SAMPLES)
m.bpms = BMSBpmList([BMSBpm(offset=0.0, bpm=120.0, metronome=4), BMSBpm(offset=4000.0, bpm=150.0, metronome=4)])
m.hits = BMSHitList([BMSHit(offset=500.0, column=3, sample=b"kick.wav"), BMSHit(offset=500.0, column=3, sample=b"snare.wav"),
                     BMSHit(offset=4100.0, column=3, sample=b"hat.wav"), BMSHit(offset=4101.0, column=3, sample=b"fx.ogg"),
                     BMSHit(offset=500.0, column=4, sample=b"")])
m.holds = BMSHoldList([BMSHold(offset=500.0, column=3, length=250.0, sample=b"hat.wav")])
run_write("A-collide", m, "BME")

# ---------------------------------------------------------------- B. real maps round trip
MAPS = Path(reamber.__file__).parent.parent / "rsc" / "maps" / "bms"
for name in ["take.bms", "searoad.bml", "coldBreath.bme"]:
    m = BMSMap.read_file(MAPS / name, BMSChannel.BME)
    run_write("B-" + name, m, "BME")

# ---------------------------------------------------------------- C. Snapper
def dump_snapper(s):
    return " ".join(
        f"{n}:{a.dtype}:{a.shape}:{hashlib.sha256(np.ascontiguousarray(a).tobytes()).hexdigest()[:16]}:{a[:6].tolist()}"
        for n, a in (("val", s.val), ("num", s.num), ("den", s.den))
    )


DIV_SETS = [None, (1,), (2,), (1, 2), (1, 2, 3, 4), (4, 3), (1, 2, 4, 8, 16), (12,), (7, 5), (96,), (192,), (1, 2, 3, 4, 5, 6, 7, 8, 9, 12, 16, 32, 64, 96),
            [4, 8], np.array([3, 6, 9]), (0,), (), (-2, -3), (2.0,)]
VALUES = [0, 0.0, 0.25, 0.5, 0.3333, 1 / 3, 2 / 3, 0.999999, 1.0, 3.75, 7.0001, 0.0051, 0.0052, 0.0053, 12.49, 0.5 + 1 / 192, 1e-9,
          np.float64(2.125), np.float64(0.1), Fraction(5, 7), Fraction(22, 3), 5, -0.25, -1.5]
VALUES += [random.uniform(0, 4) for _ in range(60)] + [k / d for d in (3, 5, 7, 9, 11, 13, 48, 96, 97) for k in range(0, 2 * d, max(1, d // 5))]
for ds in DIV_SETS:
    try:
        s = Snapper() if ds is None else Snapper(divisions=ds)
    except Exception as e:  # noqa
        emit("C", repr(ds), "EXC " + type(e).__name__)
        continue
    emit("C", repr(ds), dump_snapper(s))
    res = []
    for v in VALUES:
        try:
            res.append(typed(s.snap(v)))
        except Exception as e:  # noqa
            res.append("EXC " + type(e).__name__)
    emit("C-snap", repr(ds), res)
    if ds is not None:
        try:
            emit("C-fn", repr(ds), [typed(snap_fn(v, ds)) for v in VALUES[:12]])
        except Exception as e:  # noqa
            emit("C-fn", repr(ds), "EXC " + type(e).__name__)

# ---------------------------------------------------------------- D. find_lcm
LCM_INPUTS = [[], [4], [4, 4], [4, 8], [8, 4], [2, 3, 7], [1, 2, 3, 5], [4, 8, 12, 16, 20, 28, 36], [64, 96, 384], [384, 4], [99, 100, 101],
              [4, 4, 4, 4], [12, 16, 24, 32, 48, 64, 128, 256, 384], [7, 49], [50, 50], [1], [1, 1, 99]]
for _ in range(40):
    LCM_INPUTS.append([random.choice([4, 8, 12, 16, 20, 24, 28, 32, 36, 48, 64, 128, 256, 384, 5, 7, 9, 3])
                       for _ in range(random.randint(0, 9))])
for a in LCM_INPUTS:
    for thr in (100, 9, 1, 1000):
        arg = list(a)
        try:
            r = find_lcm(arg, thr)
            emit("D", a, thr, typed(r), [typed(x) for x in r], [typed(x) for x in arg])
        except Exception as e:  # noqa
            emit("D", a, thr, "EXC " + type(e).__name__, [typed(x) for x in arg])

# ---------------------------------------------------------------- E. TimingMap.snaps / offsets
for n_bpm in (1, 2, 5, 20):
    bco = []
    off = 0.0
    for k in range(n_bpm):
        bpm = random.choice(BPM_POOL)
        bco.append(BpmChangeOffset(bpm=bpm, metronome=4, offset=off))
        off += random.randint(1, 4) * 4 * 60000.0 / bpm
    tm = TimingMap.from_bpm_changes_offset(list(bco))
    for offs in ([], [0.0], [off], [off + 12345.678], sorted(random.uniform(0, off) for _ in range(30)),
                 [random.uniform(0, off) for _ in range(30)], [b.offset for b in bco], [10.0, 10.0, 0.0, 10.0], [-1.0, 5.0],
                 np.array([random.uniform(0, off) for _ in range(7)])):
        arg = offs.copy() if isinstance(offs, np.ndarray) else list(offs)
        try:
            sn = tm.snaps(arg, Snapper())
            emit("E", n_bpm, list(offs), typed(sn.dtype), sn.shape, [(typed(s.measure), typed(s.beat), typed(s.metronome)) for s in sn],
                 "arg=" + repr(list(arg)))
            back = tm.offsets(list(sn)) if len(sn) else None
            emit("E-back", None if back is None else (str(back.dtype), back.tolist()))
        except Exception as e:  # noqa
            emit("E", n_bpm, list(offs), "EXC " + type(e).__name__)
    emit("E-bco", [(b.bpm, b.metronome, b.offset) for b in tm.bpm_changes_offset])

text = "\n".join(OUT)
print("DIGEST", hashlib.sha256(text.encode("utf-8", "backslashreplace")).hexdigest())
