"""F40 (C01): numeric [General]/[Editor]/[Difficulty] values written with ':g' (6 significant digits).
Run:  cd /repo && /venv/bin/python /verif/triage/probes/F40_osu_meta_g_format.py
pinned tree: ValueError on read-back (AudioLeadIn: 1.23457e+06), SliderMultiplier 1.23456789 -> 1.23457"""
import warnings
warnings.simplefilter("ignore")
from reamber.osu.OsuMap import OsuMap
m = OsuMap.read_file("tests/unit_tests/osu/map_read.osu")
m.audio_lead_in = 1234567; m.slider_multiplier = 1.23456789; m.hp_drain_rate = 7.1234567
b = OsuMap.read("\n".join(m.write()).split("\n"))
assert (b.audio_lead_in, b.slider_multiplier, b.hp_drain_rate) == (1234567, 1.23456789, 7.1234567), (b.audio_lead_in, b.slider_multiplier)
print("ok")
