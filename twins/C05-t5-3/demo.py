"""Demo / equivalence digest for find_lcm and BMSMap.write (C05).

Generates several dozen in-memory BMS charts from the quantified domain
(4/4 tempo points on measure lines, every channel layout, on-grid and
off-grid objects, hits / holds, known and unknown samples, empty lists,
ties, unsorted rows, integer and float offsets ...), writes every one of them
and prints a sha256 over a canonical dump of

  * the written bytes (or the raised exception type),
  * the in-memory chart AFTER the write (values, dtypes, column order,
    row labels, header dictionaries, the channel layout dictionary), to pin
    down "write does not modify its input".

Run:  cd /tmp/wt6/C05 && PYTHONPATH=/tmp/wt6/C05 /venv/bin/python demo.py
"""
import hashlib
import random
import warnings
from fractions import Fraction

import numpy as np

warnings.filterwarnings("ignore")

from reamber.bms import BMSHit, BMSHold  # noqa: E402
from reamber.bms.BMSBpm import BMSBpm  # noqa: E402
from reamber.bms.BMSChannel import BMSChannel  # noqa: E402
from reamber.bms.BMSMap import BMSMap  # noqa: E402
from reamber.bms.lists import BMSBpmList  # noqa: E402
from reamber.bms.lists.notes import BMSHitList, BMSHoldList  # noqa: E402
from reamber.algorithms.timing.utils.find_lcm import find_lcm  # noqa: E402

SEED = 50503
LAYOUTS = {
    "BMS": BMSChannel.BMS,
    "BME": BMSChannel.BME,
    "PMS": BMSChannel.PMS,
    "PMS_BME": BMSChannel.PMS_BME,
    "PMS_5B": BMSChannel.PMS_5B,
}
BPM_POOL = [60, 90, 120, 150, 180, 240, 200, 100, 75, 125.5, 133.33, 174, 87.5]
GRID_DIVS = [1, 2, 3, 4, 6, 8, 12, 16]
SAMPLE_FILES = [b"kick.wav", b"snare.wav", b"hat.ogg", b"vox_01.wav", b"fx.wav"]

OUT = []


def emit(*parts):
    OUT.append(" | ".join(str(p) for p in parts))


def dump_df(tag, df):
    emit(tag, "columns", list(df.columns), "dtypes", [str(t) for t in df.dtypes])
    emit(tag, "index", type(df.index).__name__, list(df.index))
    for row in df.itertuples(index=True, name=None):
        emit(tag, "row", [repr(v) + ":" + type(v).__name__ for v in row])


def dump_map(tag, m, layout):
    dump_df(tag + ".hits", m.hits.df)
    dump_df(tag + ".holds", m.holds.df)
    dump_df(tag + ".bpms", m.bpms.df)
    emit(tag, "samples", repr(m.samples), "misc", repr(m.misc))
    emit(tag, "meta", repr(m.title), repr(m.artist), repr(m.version),
         repr(m.ln_end_channel), repr(m.exbpms))
    emit(tag, "layout", repr(layout))


def columns_of(layout):
    return sorted(v for v in layout.values() if isinstance(v, int))


def make_bpms(rng, n, float_offsets=True):
    """n tempo points, each on a measure line of the previous section (4/4)."""
    bpms = []
    offset = 0.0
    for i in range(n):
        bpm = rng.choice(BPM_POOL)
        bpms.append((offset, bpm))
        measures = rng.randint(1, 3)
        offset += measures * 4 * 60000.0 / bpm
    return bpms


def beat_to_offset(bpms, total_beat):
    """Offset of an absolute beat position given the (offset, bpm) sections."""
    beat = Fraction(total_beat)
    for i, (off, bpm) in enumerate(bpms):
        if i + 1 < len(bpms):
            sect_beats = Fraction(round((bpms[i + 1][0] - off) * bpm / 60000.0))
            if beat >= sect_beats:
                beat -= sect_beats
                continue
        return off + float(beat) * 60000.0 / bpm
    raise AssertionError


def make_chart(rng, layout, n_bpm, n_hit, n_hold, grid, known_samples,
               shuffle=False, int_offsets=False):
    m = BMSMap()
    bpms = make_bpms(rng, n_bpm)
    if int_offsets:
        # 120 bpm only => every measure line / 1/4 beat is an integer ms.
        bpms = [(i * 2000 * 2, 120) for i in range(n_bpm)]
    m.bpms = BMSBpmList([BMSBpm(o, b) for o, b in bpms])
    cols = columns_of(layout)

    if known_samples:
        ids = rng.sample(["02", "03", "0A", "1Z", "ZY", "A0", "zz"], len(SAMPLE_FILES))
        m.samples = {i.encode("ascii"): s for i, s in zip(ids, SAMPLE_FILES)}

    def pick_sample():
        r = rng.random()
        if known_samples and r < 0.6:
            return rng.choice(SAMPLE_FILES)
        if r < 0.8:
            return b""
        return b"unknown.wav"

    total_beats = 4 * (n_bpm + 3)
    used = set()

    def pick_time(col):
        if grid:
            for _ in range(50):
                div = rng.choice(GRID_DIVS)
                beat = Fraction(rng.randrange(0, total_beats * div), div)
                if (col, beat) not in used:
                    used.add((col, beat))
                    t = beat_to_offset(bpms, beat)
                    return int(round(t)) if int_offsets else t
            raise AssertionError
        return rng.uniform(0, bpms[-1][0] + 9000.0)

    hits = []
    for _ in range(n_hit):
        col = rng.choice(cols)
        hits.append(BMSHit(pick_time(col), col, sample=pick_sample()))
    holds = []
    for _ in range(n_hold):
        col = rng.choice(cols)
        t = pick_time(col)
        if grid:
            length = float(Fraction(rng.randint(1, 16), 4)) * 60000.0 / 120
        else:
            length = rng.uniform(30.0, 3000.0)
        holds.append(BMSHold(t, col, length, sample=pick_sample()))
    if shuffle:
        rng.shuffle(hits)
        rng.shuffle(holds)
    else:
        hits.sort(key=lambda h: h.offset)
        holds.sort(key=lambda h: h.offset)
    m.hits = BMSHitList(hits)
    m.holds = BMSHoldList(holds)
    return m


def run_case(tag, m, layout, **kwargs):
    emit("CASE", tag, sorted(kwargs.items()))
    try:
        out = m.write(note_channel_config=layout, **kwargs)
        emit(tag, "type", type(out).__name__, "len", len(out))
        for i, line in enumerate(out.split(b"\r\n")):
            emit(tag, "line", i, line.hex())
    except Exception as e:  # noqa
        emit(tag, "RAISED", type(e).__name__)
    dump_map(tag + ".after", m, layout)



def typed(xs):
    return [repr(x) + ":" + type(x).__name__ for x in xs]


def lcm_case(tag, a, threshold):
    """Direct call of find_lcm: result, element types, the input afterwards."""
    before = typed(a)
    try:
        res = find_lcm(a, threshold)
        emit(tag, "in", before, "thr", repr(threshold), "res", type(res).__name__,
             typed(res), "same-object-as-input", res is a)
    except Exception as e:  # noqa
        emit(tag, "in", before, "thr", repr(threshold), "RAISED", type(e).__name__)
    emit(tag, "input-after", typed(a))


def lcm_cases(rng):
    dens = [4, 8, 12, 16, 20, 24, 28, 32, 36, 48, 64, 128, 256, 384]
    n = 0
    # the denominators the BMS writer produces (beat denominator * 4)
    for length in range(0, 9):
        for rep in range(6):
            a = [rng.choice(dens) for _ in range(length)]
            lcm_case(f"lcm-den-{n}", a, 100)
            n += 1
    # arbitrary positive integers, other thresholds (incl. 0, 1, negative, huge)
    for rep in range(60):
        a = [rng.randint(1, 60) for _ in range(rng.randint(0, 10))]
        lcm_case(f"lcm-any-{n}", a, rng.choice([100, 1, 0, -5, 7, 10, 50, 1000, 10 ** 9]))
        n += 1
    # ties: all equal, pairs of equal values, sorted / reverse-sorted
    for v in (1, 4, 16, 99, 100, 101, 384):
        for k in (1, 2, 3, 5):
            lcm_case(f"lcm-eq-{n}", [v] * k, 100)
            n += 1
    for rep in range(10):
        a = sorted(rng.choice(dens) for _ in range(rng.randint(2, 9)))
        lcm_case(f"lcm-sorted-{n}", list(a), 100)
        lcm_case(f"lcm-rsorted-{n}", list(reversed(a)), 100)
        n += 1
    # numpy integers (what DataFrame columns may hand over), mixed with ints
    for rep in range(15):
        a = [np.int64(rng.choice(dens)) if rng.random() < 0.6 else rng.choice(dens)
             for _ in range(rng.randint(0, 8))]
        lcm_case(f"lcm-np-{n}", a, rng.choice([100, np.int64(100), 50]))
        n += 1
    # degenerate content: zeros, negatives, None, floats, tuple input
    lcm_case("lcm-zero", [0, 4, 8], 100)
    lcm_case("lcm-zeros", [0, 0], 100)
    lcm_case("lcm-zero-last", [4, 0], 100)
    lcm_case("lcm-neg", [-4, 6, 8], 100)
    lcm_case("lcm-none", [None, 4, 8, None, 12], 100)
    lcm_case("lcm-all-none", [None, None], 100)
    lcm_case("lcm-float", [4.0, 8.0], 100)
    lcm_case("lcm-str", ["a", "b"], 100)
    lcm_case("lcm-big", [2 ** 40, 3 ** 25, 7], 2 ** 62)
    t = (4, 8)
    try:
        emit("lcm-tuple", typed(find_lcm(t, 100)))
    except Exception as e:  # noqa
        emit("lcm-tuple", "RAISED", type(e).__name__)
    emit("lcm-tuple", "after", typed(t))
    lcm_case("lcm-thr-float", [4, 8, 12], 99.5)
    lcm_case("lcm-thr-none", [4, 8], None)
    lcm_case("lcm-thr-none-single", [4], None)


def main():
    rng = random.Random(SEED)
    random.seed(SEED)
    np.random.seed(SEED % (2 ** 32))

    lcm_cases(rng)

    n = 0
    # 1. broad random sweep over every layout
    for name, layout in LAYOUTS.items():
        for grid in (True, False):
            for known in (True, False):
                for rep in range(2):
                    n_bpm = rng.choice([1, 2, 3, 5, 8])
                    m = make_chart(
                        rng, layout, n_bpm,
                        n_hit=rng.randint(0, 25), n_hold=rng.randint(0, 8),
                        grid=grid, known_samples=known,
                        shuffle=(rep == 1),
                    )
                    run_case(f"sweep{n}-{name}-g{int(grid)}-k{int(known)}", m, layout)
                    n += 1

    # 2. edge cases
    bme = BMSChannel.BME
    # 2a. only tempo points (empty hit and hold lists)
    run_case("edge-empty", make_chart(rng, bme, 1, 0, 0, True, False), bme)
    run_case("edge-empty-3bpm", make_chart(rng, bme, 3, 0, 0, True, True), bme)
    # 2b. hits only / holds only
    run_case("edge-hits-only", make_chart(rng, bme, 2, 12, 0, True, True), bme)
    run_case("edge-holds-only", make_chart(rng, bme, 2, 0, 6, True, True), bme)
    # 2c. default arguments of write()
    m = make_chart(rng, bme, 2, 10, 3, True, True)
    emit("CASE", "edge-defaults")
    emit("edge-defaults", m.write().hex())
    dump_map("edge-defaults.after", m, bme)
    # 2d. other default sample id
    run_case("edge-nsd-ZZ", make_chart(rng, bme, 2, 10, 3, True, False), bme,
             no_sample_default=b"0Z")
    run_case("edge-nsd-AA", make_chart(rng, BMSChannel.PMS, 1, 10, 3, False, True),
             BMSChannel.PMS, no_sample_default=b"AA")
    # 2e. integer offsets (int64 columns)
    run_case("edge-int-offsets",
             make_chart(rng, bme, 3, 15, 4, True, True, int_offsets=True), bme)
    # 2f. ties: every lane of the layout hit at exactly the same time, time 0
    for name, layout in LAYOUTS.items():
        m = BMSMap()
        m.bpms = BMSBpmList([BMSBpm(0, 150)])
        m.hits = BMSHitList([BMSHit(0, c) for c in columns_of(layout)]
                            + [BMSHit(400.0, c) for c in reversed(columns_of(layout))])
        m.holds = BMSHoldList([BMSHold(800.0, c, 800.0) for c in columns_of(layout)])
        run_case(f"edge-ties-{name}", m, layout)
    # 2g. one lane, 1/192-ish dense off-grid stream
    m = BMSMap()
    m.bpms = BMSBpmList([BMSBpm(0, 180), BMSBpm(4 * 60000.0 / 180 * 2, 90)])
    m.hits = BMSHitList([BMSHit(i * 37.123, 3) for i in range(60)])
    run_case("edge-dense-offgrid", m, bme)
    # 2h. hold whose tail is in a later tempo section, tail on a measure line
    m = BMSMap()
    m.bpms = BMSBpmList([BMSBpm(0, 120), BMSBpm(2000, 240), BMSBpm(4000, 60)])
    m.holds = BMSHoldList([BMSHold(500, 0, 1500), BMSHold(1000, 1, 3000),
                           BMSHold(0, 2, 8000)])
    m.hits = BMSHitList([BMSHit(2000, 5), BMSHit(4000, 5), BMSHit(7999.99, 6)])
    run_case("edge-hold-across-sections", m, bme)
    # 2i. many tempo points (two-character base-36 ids beyond 'Z')
    m = make_chart(rng, bme, 80, 30, 5, True, True)
    run_case("edge-80-bpms", m, bme)
    # 2j. lane that does not exist in the chosen layout -> exception type
    m = BMSMap()
    m.bpms = BMSBpmList([BMSBpm(0, 120)])
    m.hits = BMSHitList([BMSHit(0, 0), BMSHit(500, 7)])
    run_case("edge-missing-lane-hit", m, BMSChannel.PMS_5B)
    m = BMSMap()
    m.bpms = BMSBpmList([BMSBpm(0, 120)])
    m.holds = BMSHoldList([BMSHold(0, 17, 250)])
    run_case("edge-missing-lane-hold", m, BMSChannel.BMS)
    # 2k. object before the first tempo point (negative time) -> whatever it does
    m = BMSMap()
    m.bpms = BMSBpmList([BMSBpm(0, 120)])
    m.hits = BMSHitList([BMSHit(-500, 0), BMSHit(500, 1)])
    run_case("edge-negative", m, bme)
    # 2l. str meta data and a misc header
    m = make_chart(rng, bme, 2, 8, 2, True, True)
    m.title, m.artist, m.version = "title あ", "artist", "12"
    m.misc = {b"GENRE": b"x", "PLAYER": "1"}
    run_case("edge-str-meta", m, bme)
    # 2m. no LNOBJ declared, no holds
    m = make_chart(rng, bme, 1, 8, 0, True, False)
    m.ln_end_channel = b""
    run_case("edge-no-lnobj", m, bme)

    text = "\n".join(OUT)
    print("DIGEST", hashlib.sha256(text.encode("utf-8")).hexdigest())


if __name__ == "__main__":
    main()
