"""Finite table functions: `f(arg) -> constant` written as an if/elif chain, a dict lookup or a search loop over the
inverse function.  Extracted to ({key: value}, default) by literal evaluation — nothing is executed.

Forms recognised (all occur, or occurred in refactors, in this repository):

    if arg == K: return V  [elif ...]  [else: return D]           (chain, any nesting of elif/else)
    return {K: V, ...}.get(arg, D)   /   return TABLE.get(arg[, D])   /   return TABLE[arg]
    if arg in TABLE: return TABLE[arg]   ...   return D
    for v in range(A, B[, S]):  if other(v) == arg: return v      (search over a sibling table function)
    for k, v in TABLE.items():  if v == arg: return k             (reverse search, first hit wins)
    for i, v in enumerate(SEQ):  if arg == i: return v  /  if v == arg: return i
    return SEQ.index(arg)  /  SEQ[arg]   [inside  try: ..  except ValueError / KeyError / IndexError: return D]
"""
from __future__ import annotations

import ast
from typing import Callable, Dict, Optional, Tuple


class Unknown(Exception):
    pass


MISSING = object()


def extract(fn: ast.FunctionDef, lit: Callable[[ast.AST], object], sibling: Callable[[str], Optional[Tuple[Dict, object]]] = None,
            arg: Optional[str] = None) -> Tuple[Dict, object]:
    """({key: value}, default) of a table function; `lit` evaluates constants (raises on anything else); `sibling(name)`
    returns the table of another function of the same class (for search loops)."""
    params = [a.arg for a in fn.args.args if a.arg not in ("self", "cls")]
    if arg is None:
        if len(params) != 1:
            raise Unknown(f"{fn.name}: one parameter expected, found {params}")
        arg = params[0]
    table: Dict = {}
    state = {"default": MISSING}

    def is_arg(n):
        return isinstance(n, ast.Name) and n.id == arg

    def dict_of(n) -> Dict:
        v = lit(n)
        if not isinstance(v, dict):
            raise Unknown(f"{ast.unparse(n)} is not a literal dict")
        return v

    def lit_or_none(n):
        try:
            return lit(n)
        except Exception:
            return None

    def put(k, v):
        try:
            hash(k)
        except TypeError:
            raise Unknown(f"unhashable key {k!r}")
        if k not in table:      # first match wins, as in the code
            table[k] = v

    def ret_expr(e) -> bool:
        """a return expression that completes the table; True if it was a total lookup"""
        if isinstance(e, ast.Call) and isinstance(e.func, ast.Attribute) and e.func.attr == "get" and e.args and is_arg(e.args[0]):
            d = dict_of(e.func.value)
            for k, v in d.items():
                put(k, v)
            state["default"] = lit(e.args[1]) if len(e.args) > 1 else None
            return True
        if isinstance(e, ast.Call) and isinstance(e.func, ast.Attribute) and e.func.attr == "index" and 1 <= len(e.args) <= 3 and is_arg(e.args[0]) and \
                not e.keywords:
            seq = lit(e.func.value)
            if not isinstance(seq, (list, tuple)):
                raise Unknown(f"{ast.unparse(e.func.value)} is not a literal sequence")
            lo = lit(e.args[1]) if len(e.args) > 1 else 0
            hi = lit(e.args[2]) if len(e.args) > 2 else len(seq)
            if not (isinstance(lo, int) and isinstance(hi, int)):
                raise Unknown("index bounds are not literal integers")
            for i, v in list(enumerate(seq))[slice(lo, hi)]:      # (the stop bound is exclusive, as in the code)
                put(v, i)             # .index: the first occurrence wins
            state["default"] = KeyError      # (ValueError when absent: the table is partial)
            return True
        if isinstance(e, ast.Subscript) and is_arg(e.slice) and isinstance(lit_or_none(e.value), (list, tuple)):
            for i, v in enumerate(lit(e.value)):
                put(i, v)
            state["default"] = KeyError
            return True
        if isinstance(e, ast.Subscript) and is_arg(e.slice):
            d = dict_of(e.value)
            for k, v in d.items():
                put(k, v)
            state["default"] = KeyError
            return True
        return False

    def walk(stmts) -> bool:
        """returns True when every path through stmts has returned"""
        for s in stmts:
            if isinstance(s, ast.Expr) and isinstance(s.value, ast.Constant):
                continue
            if isinstance(s, ast.If):
                t = s.test
                if isinstance(t, ast.Compare) and len(t.ops) == 1 and isinstance(t.ops[0], ast.Eq):
                    k = t.comparators[0] if is_arg(t.left) else t.left if is_arg(t.comparators[0]) else None
                    if k is None:
                        raise Unknown("test does not mention the argument")
                    if not (len(s.body) == 1 and isinstance(s.body[0], ast.Return)):
                        raise Unknown("branch is not a single return")
                    put(lit(k), lit(s.body[0].value) if s.body[0].value is not None else None)
                    if s.orelse and walk(s.orelse):
                        return True
                    continue
                if isinstance(t, ast.Compare) and len(t.ops) == 1 and isinstance(t.ops[0], ast.In) and is_arg(t.left):
                    # if arg in TABLE: return TABLE[arg]   /   if arg in (K1, K2): return V
                    if len(s.body) == 1 and isinstance(s.body[0], ast.Return) and isinstance(s.body[0].value, ast.Subscript) and \
                            is_arg(s.body[0].value.slice) and ast.unparse(s.body[0].value.value) == ast.unparse(t.comparators[0]):
                        for k, v in dict_of(t.comparators[0]).items():
                            put(k, v)
                    elif len(s.body) == 1 and isinstance(s.body[0], ast.Return):
                        ks = lit(t.comparators[0])
                        v = lit(s.body[0].value) if s.body[0].value is not None else None
                        for k in (ks if isinstance(ks, (list, tuple, set, frozenset)) else list(ks)):
                            put(k, v)
                    else:
                        raise Unknown("membership branch is not a single return")
                    if s.orelse and walk(s.orelse):
                        return True
                    continue
                raise Unknown("unrecognised test in table function")
            if isinstance(s, ast.Return):
                if s.value is not None and ret_expr(s.value):
                    return True
                state["default"] = lit(s.value) if s.value is not None else None
                return True
            if isinstance(s, ast.For):
                loop(s)
                continue
            if isinstance(s, ast.Try) and not s.finalbody and not s.orelse and len(s.body) == 1 and isinstance(s.body[0], ast.Return) and \
                    s.body[0].value is not None and len(s.handlers) == 1 and len(s.handlers[0].body) == 1 and isinstance(s.handlers[0].body[0], ast.Return) and \
                    s.handlers[0].type is not None and ast.unparse(s.handlers[0].type) in ("ValueError", "KeyError", "IndexError", "(KeyError, IndexError)", "LookupError"):
                # try: return TABLE.index(arg) / TABLE[arg]   except <lookup error>: return D
                if ret_expr(s.body[0].value) and state["default"] is KeyError:
                    hv = s.handlers[0].body[0].value
                    state["default"] = lit(hv) if hv is not None else None
                    return True
                raise Unknown("try body is not a table lookup")
            if isinstance(s, ast.Raise):
                state["default"] = KeyError
                return True
            raise Unknown(f"unexpected statement {type(s).__name__} in table function")
        return False

    def loop(s: ast.For):
        if s.orelse:
            raise Unknown("for/else")
        if not (len(s.body) == 1 and isinstance(s.body[0], ast.If) and not s.body[0].orelse and len(s.body[0].body) == 1 and
                isinstance(s.body[0].body[0], ast.Return) and s.body[0].body[0].value is not None):
            raise Unknown("search loop body is not `if ...: return ...`")
        t = s.body[0].test
        r = s.body[0].body[0].value
        if not (isinstance(t, ast.Compare) and len(t.ops) == 1 and isinstance(t.ops[0], ast.Eq)):
            raise Unknown("search loop test is not an equality")
        lhs, rhs = (t.left, t.comparators[0]) if is_arg(t.comparators[0]) else (t.comparators[0], t.left)
        if not is_arg(rhs):
            raise Unknown("search loop test does not mention the argument")
        it = s.iter
        # for v in range(A, B[, S]): if other(v) == arg: return v
        if isinstance(it, ast.Call) and isinstance(it.func, ast.Name) and it.func.id == "range" and isinstance(s.target, ast.Name):
            rng = range(*[lit(a) for a in it.args])
            v = s.target.id
            if isinstance(lhs, ast.Call) and len(lhs.args) == 1 and isinstance(lhs.args[0], ast.Name) and lhs.args[0].id == v and \
                    isinstance(r, ast.Name) and r.id == v and sibling is not None:
                name = lhs.func.attr if isinstance(lhs.func, ast.Attribute) else lhs.func.id if isinstance(lhs.func, ast.Name) else None
                sib = sibling(name) if name else None
                if sib is None:
                    raise Unknown(f"sibling table {name} not available")
                st, sd = sib
                for x in rng:
                    y = st.get(x, sd)
                    if y is KeyError or y is MISSING:
                        raise Unknown(f"sibling {name}({x}) raises")
                    put(y, x)
                return
            raise Unknown("range search loop not of the form other(v) == arg -> v")
        # for k, v in TABLE.items(): if v == arg: return k
        if isinstance(it, ast.Call) and isinstance(it.func, ast.Attribute) and it.func.attr == "items" and \
                isinstance(s.target, ast.Tuple) and len(s.target.elts) == 2 and all(isinstance(x, ast.Name) for x in s.target.elts):
            kn, vn = s.target.elts[0].id, s.target.elts[1].id
            d = dict_of(it.func.value)
            if isinstance(lhs, ast.Name) and isinstance(r, ast.Name) and {lhs.id, r.id} == {kn, vn}:
                for k, v in d.items():
                    if lhs.id == vn:
                        put(v, k)
                    else:
                        put(k, v)
                return
        # for i, name in enumerate(TABLE): if arg == i: return name   (or: if name == arg: return i)
        if isinstance(it, ast.Call) and isinstance(it.func, ast.Name) and it.func.id == "enumerate" and len(it.args) == 1 and not it.keywords and \
                isinstance(s.target, ast.Tuple) and len(s.target.elts) == 2 and all(isinstance(x, ast.Name) for x in s.target.elts):
            i_n, v_n = s.target.elts[0].id, s.target.elts[1].id
            seq = lit(it.args[0])
            if isinstance(seq, (list, tuple)) and isinstance(lhs, ast.Name) and isinstance(r, ast.Name) and {lhs.id, r.id} == {i_n, v_n}:
                for i, v in enumerate(seq):
                    if lhs.id == i_n:
                        put(i, v)
                    else:
                        put(v, i)
                return
        raise Unknown("unrecognised search loop")

    done = walk(fn.body)
    if not done and state["default"] is MISSING:
        state["default"] = None   # falling off the end returns None
    return table, state["default"]


def lookup(tab: Tuple[Dict, object], k):
    t, d = tab
    return t.get(k, d)
