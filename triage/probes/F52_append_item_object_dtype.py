"""F52 (C16 / C18): TimedList.append(item) turned every column into object dtype.
Run:  cd /repo && /venv/bin/python /verif/triage/probes/F52_append_item_object_dtype.py   (pinned tree: TypeError in hitsound_copy)"""
import warnings
warnings.simplefilter("ignore")
from reamber.osu.OsuMap import OsuMap
from reamber.osu.OsuHit import OsuHit
from reamber.osu.OsuHold import OsuHold
from reamber.osu.lists.notes.OsuHitList import OsuHitList
from reamber.osu.lists.notes.OsuHoldList import OsuHoldList
from reamber.algorithms.osu.hitsound_copy import hitsound_copy
src = OsuMap(); src.hits = OsuHitList([OsuHit(100, 0, hitsound_set=2)])
tgt = OsuMap(); tgt.hits = OsuHitList([OsuHit(100, 0)]); tgt.holds = OsuHoldList([OsuHold(200, 0, 3)])
tgt.holds = tgt.holds.append(OsuHold(100, 1, 40))
assert tgt.holds.df["length"].dtype.kind in "if", tgt.holds.df.dtypes.to_dict()
res = hitsound_copy(src, tgt)
assert len(res.hits) == 1 and len(res.holds) == 2
print("ok")
