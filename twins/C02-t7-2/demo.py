"""Demo for C02 refactoring 2: SMMapSet.read strips // comments with
str.split / str.partition per line instead of a regular expression.

Prints one line ``DIGEST <sha256>`` over a canonical dump of SMMapSet.read on
  * hand-written texts with comments in every awkward position (start / end of
    file, after a tag, containing ; : , # and "#NOTES:", "///", several "//" on
    one line, a lone "/", no trailing newline, CRLF line ends, "//" inside a
    header value, empty text, list input whose items contain newlines),
  * several dozen generated .sm texts (1-3 charts, 3-8 keys, all note symbols,
    mid-measure tempo changes) with comments and blank lines sprinkled at line
    ends and on own lines, given both as one string and as a list of lines.
Dumped per file: raised exception type or all header fields, every chart's
fields, every note list and tempo list (columns, dtypes, index, values as hex
floats), logged warnings, and whether the argument is unchanged afterwards.
"""
import hashlib
import logging
import random
import sys
from copy import deepcopy

import numpy as np
import pandas as pd

from reamber.sm.SMMapSet import SMMapSet

OUT = []


def emit(*a):
    OUT.append(" ".join(str(x) for x in a))


class Counter(logging.Handler):
    def __init__(self):
        super().__init__()
        self.msgs = []

    def emit(self, record):
        self.msgs.append((record.levelname, record.getMessage()))


COUNTER = Counter()
logging.getLogger().addHandler(COUNTER)
logging.getLogger().setLevel(logging.WARNING)
# keep stderr quiet: lastResort handler is not used once a handler is attached


def cell(v):
    if isinstance(v, (float, np.floating)):
        return f"{type(v).__name__}:{float(v).hex()}"
    return f"{type(v).__name__}:{v!r}"


def dump_df(name, df: pd.DataFrame):
    emit(" ", name, "cols", list(df.columns), "dtypes", [str(t) for t in df.dtypes])
    emit(" ", name, "index", type(df.index).__name__, list(df.index))
    for row in df.itertuples(index=False):
        emit("   ", [cell(v) for v in row])


# ------------------------------------------------------------------ .sm reading
CHARTS = [("dance-single", 4), ("dance-double", 8), ("dance-solo", 6),
          ("dance-threepanel", 3), ("kb7-single", 7), ("pump-single", 5),
          ("dance-couple", 8), ("kb7-single", 7)]


def gen_notes(rng, keys, n_measures):
    open_ = [False] * keys
    measures = []
    for m in range(n_measures + 1):
        last = m == n_measures
        rows = rng.choice([4, 4, 8, 8, 12, 16, 16, 24, 32, 48, 64, 96, 192])
        lines = []
        for r in range(rows):
            row = []
            dense = rng.random() < (0.5 if rows <= 16 else 0.12)
            for c in range(keys):
                if open_[c]:
                    if last or rng.random() < 0.25:
                        row.append("3")
                        open_[c] = False
                    else:
                        row.append("0")
                elif last or not dense or rng.random() < 0.5:
                    row.append("0")
                else:
                    ch = rng.choice("1111122244MLFK")
                    if ch in "24":
                        open_[c] = True
                    row.append(ch)
            lines.append("".join(row))
        if last and any(open_):
            raise AssertionError
        measures.append(lines)
    return measures


def gen_sm(rng, n_charts, n_bpms, style):
    offset = rng.choice([0.0, -0.25, 1.337, 0.009, -2.5])
    bpms = [(0, float(rng.choice([60, 120, 128, 150, 174.5, 200])))]
    for b in sorted(rng.sample(range(1, 48 * 24), n_bpms)):
        how = rng.random()
        if how < 0.35:
            b = b - b % 48
        elif how < 0.55:
            b = b - b % 192
        if b == 0 or b in [x[0] for x in bpms]:
            continue
        bpms.append((b, float(rng.choice([45, 80, 100, 140, 180, 222.2, 400]))))
    out = [
        f"#TITLE:Song {rng.randrange(1000)};", "#SUBTITLE:sub;", "#ARTIST:Someone;",
        "#TITLETRANSLIT:;", "#SUBTITLETRANSLIT:;", "#ARTISTTRANSLIT:;",
        "#GENRE:g;", "#CREDIT:me;", "#BANNER:bn.png;", "#BACKGROUND:bg.png;",
        "#LYRICSPATH:;", "#CDTITLE:;", "#MUSIC:a.ogg;",
    ]
    if style != "nooffset":
        out.append(f"#OFFSET:{offset:.3f};")
    out.append("#BPMS:" + (",\n" if style == "multiline" else ",").join(
        f"{b / 48:.3f}={v:.3f}" if (b * 1000) % 48 == 0 else f"{b / 48:.6f}={v:.3f}"
        for b, v in bpms) + ";")
    out += ["#SAMPLESTART:12.500;", "#SAMPLELENGTH:9.000;", "#DISPLAYBPM:*;",
            "#SELECTABLE:YES;", "#BGCHANGES:;", "#FGCHANGES:;"]
    for ci in range(n_charts):
        chart, keys = rng.choice(CHARTS)
        measures = gen_notes(rng, keys, rng.choice([1, 2, 3, 5, 8]))
        if style == "comments":
            out.append(f"//--------------- {chart} - chart {ci} ----------------")
        out.append("#NOTES:")
        out.append(f"     {chart}:")
        out.append(f"     desc {ci}:")
        out.append(f"     {rng.choice(['Beginner', 'Easy', 'Hard', 'Challenge', 'Edit'])}:")
        out.append(f"     {rng.randrange(1, 20)}:")
        out.append("     " + ",".join(f"{rng.random():.3f}" for _ in range(5)) + ":")
        for mi, lines in enumerate(measures):
            if style == "comments":
                out.append(f"  // measure {mi}")
            for ln in lines:
                out.append(ln)
                if style in ("comments", "blank") and rng.random() < 0.1:
                    out.append("")
            out.append("," if mi < len(measures) - 1 else ";")
    return "\n".join(out) + "\n"


META = ["title", "subtitle", "artist", "title_translit", "subtitle_translit",
        "artist_translit", "genre", "credit", "banner", "background", "lyrics_path",
        "cd_title", "music", "offset", "sample_start", "sample_length", "display_bpm",
        "selectable", "bg_changes", "fg_changes"]
LISTS = ["hits", "holds", "rolls", "mines", "lifts", "fakes", "keysounds", "bpms",
         "stops"]


def run_sm(tag, text):
    n0 = len(COUNTER.msgs)
    emit("SM", tag, hashlib.sha256(repr(text).encode()).hexdigest()[:16])
    keep = deepcopy(text)
    try:
        ms = SMMapSet.read(text)
    except Exception as e:  # noqa
        emit("  raised", type(e).__name__)
    else:
        emit("  meta", [(k, cell(getattr(ms, k))) for k in META])
        emit("  n maps", len(ms.maps))
        for i, m in enumerate(ms.maps):
            emit("  map", i, type(m).__name__, cell(m.chart_type), cell(m.description),
                 cell(m.difficulty), cell(m.difficulty_val),
                 [cell(x) for x in m.groove_radar])
            for name in LISTS:
                lst = getattr(m, name)
                emit("  list", name, type(lst).__name__)
                dump_df(name, lst.df)
    emit("  logged", COUNTER.msgs[n0:])
    emit("  input unchanged", keep == text)


# ---------------------------------------------------------------- hand-written
HEADER = "#TITLE:t;#ARTIST:a;#OFFSET:-0.100;#BPMS:0.000=120.000,6.500=180.000;"
NOTES = "#NOTES:dance-single:d:Hard:7:0,0,0,0,0:"
BODY = "1000\n0200\n0300\n000M\n,\nL000\n0F00\n00K0\n0004\n0000\n0003\n0100\n0000\n;"


def hand_cases():
    c = " // x; y: z, #NOTES: w = 1"
    cases = {
        "empty": "",
        "only-comment": "// nothing here",
        "only-comment-nl": "// nothing here\n",
        "only-slashes": "//",
        "plain": HEADER + "\n" + NOTES + "\n" + BODY,
        "no-trailing-nl-comment": HEADER + "\n" + NOTES + "\n" + BODY + " // end",
        "leading-comment": "// head ; : ,\n" + HEADER + "\n" + NOTES + "\n" + BODY,
        "comment-after-tags": HEADER.replace(";", ";" + c + "\n") + NOTES + "\n" + BODY,
        "comment-in-value": "#TITLE:ab // cd;\n#BANNER:http://x/y.png;\n" + HEADER
                            + NOTES + "\n" + BODY,
        "triple-slash": HEADER + "\n/// three\n" + NOTES + "\n" + BODY,
        "two-on-a-line": HEADER + "\n" + NOTES + " // a // b\n" + BODY,
        "slash-slash-adjacent": HEADER + "\n" + NOTES + "////\n" + BODY,
        "lone-slash": "#TITLE:a/b;#CREDIT:/ /;" + HEADER + "\n" + NOTES + "\n" + BODY,
        "rows-with-comments": HEADER + "\n" + NOTES + "\n"
                              + BODY.replace("\n", c + "\n"),
        "comment-lines-between-rows": HEADER + "\n" + NOTES + "\n"
                                      + BODY.replace("\n", "\n  // m\n\n"),
        "comment-with-notes-tag": HEADER + "\n// #NOTES: fake;\n" + NOTES + "\n" + BODY,
        "comment-eats-semicolon": "#TITLE:t // ;\n;" + HEADER + NOTES + "\n" + BODY,
        "crlf": (HEADER + "\n" + NOTES + c + "\n" + BODY.replace("\n", c + "\n")
                 ).replace("\n", "\r\n"),
        "cr-only-after-comment": HEADER + "\n" + NOTES + " // a\r1111\n" + BODY,
        "tabs-unicode": HEADER + "\n" + NOTES + "\t//\t\u266a \u00e9\n" + BODY,
        "two-charts": HEADER + "\n" + NOTES + "\n" + BODY + c + "\n"
                      + NOTES.replace(":d:", ":e:") + c + "\n" + BODY,
        "broken-notes-by-comment": HEADER + "\n#NOTES:dance-single: // :d:Hard:7:0,0,0,0,0:\n"
                                   + BODY,
        "unclosed-hold": HEADER + "\n" + NOTES + "\n2000\n0000\n0000\n0000 // x\n;",
        "tail-without-head": HEADER + "\n" + NOTES + "\n3000 // x\n0000\n0000\n0000\n;",
    }
    for tag, text in cases.items():
        run_sm("hand-" + tag, text)
    # list input: one item per line, items with embedded newlines, empty list
    full = cases["rows-with-comments"]
    run_sm("list-lines", full.split("\n"))
    run_sm("list-chunks", [full[:40], full[40:95], full[95:]])
    run_sm("list-embedded-nl", [HEADER + " // c\n" + NOTES, BODY + " // d"])
    run_sm("list-empty", [])
    run_sm("list-one-empty", [""])
    run_sm("list-comment-split-over-items", [HEADER + NOTES + " /", "/ not a comment\n" + BODY])


COMMENTS = ["// c", "//", "///", "// a // b", "//; : , = #NOTES: #BPMS:0=1;",
            "  //\tmeasure 3", "//0000", "// \u266a"]


def sprinkle(rng, text):
    """Adds comments at line ends / on own lines and blank lines; the chart
    described by the text stays the same."""
    out = []
    for line in text.split("\n"):
        r = rng.random()
        if r < 0.15:
            out.append(rng.choice(COMMENTS))
        elif r < 0.2:
            out.append("")
        if rng.random() < 0.25:
            line = line + rng.choice(["", " ", "\t"]) + rng.choice(COMMENTS)
        out.append(line)
    return "\n".join(out)


def sm_cases(rng):
    for i in range(40):
        style = ["plain", "comments", "blank", "multiline", "nooffset"][i % 5]
        text = gen_sm(rng, n_charts=rng.choice([1, 1, 2, 3]),
                      n_bpms=rng.choice([0, 1, 2, 3, 6]), style=style)
        if i % 4 != 3:
            text = sprinkle(rng, text)
        if i % 7 == 0:
            text = text.replace("\n", "\r\n")
        run_sm(f"gen{i}-{style}", text)
        if i % 3 == 0:
            run_sm(f"gen{i}-{style}-aslist", text.split("\n"))


def main():
    rng = random.Random(20802)
    random.seed(20802)
    np.random.seed(20802)
    hand_cases()
    sm_cases(rng)
    blob = "\n".join(OUT).encode()
    if len(sys.argv) > 1 and sys.argv[1] == "--dump":
        sys.stdout.write(blob.decode() + "\n")
    print("DIGEST", hashlib.sha256(blob).hexdigest())


if __name__ == "__main__":
    main()
