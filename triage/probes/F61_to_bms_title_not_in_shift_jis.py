"""F61 (C08): the X->BMS converters encode title / artist / difficulty name with the strict Shift-JIS codec: a source chart whose
metadata has a character Shift-JIS lacks (é, Korean, …) is not converted at all (UnicodeEncodeError).
Run: PYTHONPATH=<tree> /venv/bin/python F61_to_bms_title_not_in_shift_jis.py   (exit 1 = defect present)"""
import sys, warnings
warnings.simplefilter("ignore")
from reamber.osu.OsuMap import OsuMap
from reamber.quaver.QuaMap import QuaMap
from reamber.algorithms.convert import OsuToBMS, QuaToBMS

bad = False
osu = OsuMap.read_file("rsc/maps/osu/Gravity.osu")
for title in ("Café", "한글 제목", "Plain"):
    osu.title = title
    try:
        bms = OsuToBMS.convert(osu)
        print(repr(title), "->", bms.title, len(bms.hits), "hits")
    except UnicodeEncodeError as e:
        print(repr(title), "-> UnicodeEncodeError:", e)
        bad = True
if bad:
    print("DEFECT: charts with such metadata cannot be converted")
    sys.exit(1)
print("ok")
