"""Demo for the dominant_bpm refactoring (also seen through sv_normalize and
scroll_speed, which call it).

Deterministic set of charts of every format with sorted / shuffled / reversed /
appended / concatenated tempo rows, ties, repeated bpm values, empty lists and
odd values; everything returned (or raised) is hashed with the inputs afterwards.
"""
import hashlib
import random
import sys
import warnings

import numpy as np
import pandas as pd

from reamber.algorithms.utils import dominant_bpm
from reamber.algorithms.generate import sv_normalize
from reamber.algorithms.analysis import scroll_speed
from reamber.base.Map import Map
from reamber.base.Bpm import Bpm
from reamber.base.Hit import Hit
from reamber.base.Hold import Hold
from reamber.base.lists.BpmList import BpmList
from reamber.base.lists.notes.HitList import HitList
from reamber.base.lists.notes.HoldList import HoldList
from reamber.bms import BMSMap, BMSHit, BMSHold, BMSBpm
from reamber.bms.lists import BMSBpmList
from reamber.bms.lists.notes import BMSHitList, BMSHoldList
from reamber.o2jam import O2JMap, O2JHit, O2JHold, O2JBpm
from reamber.o2jam.lists import O2JBpmList
from reamber.o2jam.lists.notes import O2JHitList, O2JHoldList
from reamber.osu import OsuMap, OsuHit, OsuHold, OsuBpm, OsuSv
from reamber.osu.lists import OsuBpmList, OsuSvList
from reamber.osu.lists.notes import OsuHitList, OsuHoldList
from reamber.quaver import QuaMap, QuaHit, QuaHold, QuaBpm, QuaSv
from reamber.quaver.lists import QuaBpmList, QuaSvList
from reamber.quaver.lists.notes import QuaHitList, QuaHoldList
from reamber.sm import SMMap, SMHit, SMHold, SMBpm, SMStop
from reamber.sm.lists import SMBpmList, SMStopList
from reamber.sm.lists.notes import SMHitList, SMHoldList

random.seed(1215_2)
OUT = []


def emit(*a):
    OUT.append(" ".join(str(x) for x in a))


def dump_df(tag, df):
    emit(tag, "cols", list(df.columns))
    emit(tag, "dtypes", [str(t) for t in df.dtypes])
    emit(tag, "index", type(df.index).__name__, df.index.tolist())
    for row in df.to_numpy(dtype=object).tolist():
        emit(tag, "row", [(type(v).__name__, repr(v)) for v in row])


def dump_series(tag, s):
    emit(tag, "series", s.name, str(s.dtype), type(s.index).__name__, s.index.name,
         str(s.index.dtype))
    for k, v in zip(s.index.tolist(), s.tolist()):
        emit(tag, "item", repr(k), repr(v))


def dump_map(tag, m):
    emit(tag, type(m).__name__)
    for k, v in m.objs.items():
        dump_df(f"{tag}.{k}:{type(v).__name__}", v.df)


KINDS = {
    "base": (Map, HitList, HoldList, BpmList,
             lambda o, c: Hit(o, c), lambda o, c, l: Hold(o, c, l), lambda o, b: Bpm(o, b)),
    "osu": (OsuMap, OsuHitList, OsuHoldList, OsuBpmList,
            lambda o, c: OsuHit(o, c), lambda o, c, l: OsuHold(o, c, l),
            lambda o, b: OsuBpm(o, b, random.choice([3, 4]), volume=random.choice([20, 50]),
                                kiai=random.random() < .3)),
    "qua": (QuaMap, QuaHitList, QuaHoldList, QuaBpmList,
            lambda o, c: QuaHit(o, c, []), lambda o, c, l: QuaHold(o, c, l, []),
            lambda o, b: QuaBpm(o, b)),
    "sm": (SMMap, SMHitList, SMHoldList, SMBpmList,
           lambda o, c: SMHit(o, c), lambda o, c, l: SMHold(o, c, l), lambda o, b: SMBpm(o, b)),
    "bms": (BMSMap, BMSHitList, BMSHoldList, BMSBpmList,
            lambda o, c: BMSHit(o, c, b"0A"), lambda o, c, l: BMSHold(o, c, l, b"0B"),
            lambda o, b: BMSBpm(o, b)),
    "o2j": (O2JMap, O2JHitList, O2JHoldList, O2JBpmList,
            lambda o, c: O2JHit(o, c), lambda o, c, l: O2JHold(o, c, l), lambda o, b: O2JBpm(o, b)),
}


def order(rows, mode):
    rows = list(rows)
    if mode == "sorted":
        rows.sort(key=lambda r: r[0])
    elif mode == "reversed":
        rows.sort(key=lambda r: r[0], reverse=True)
    elif mode == "shuffled":
        random.shuffle(rows)
    return rows


def make_list(L, mk, rows, mode):
    if mode == "append":
        half = len(rows) // 2
        tl = L([mk(*r) for r in rows[half:]])
        for r in rows[:half]:
            tl = tl.append(mk(*r))
        return tl
    if mode == "concat":
        a = L([mk(*r) for r in order(rows, "reversed")[: len(rows) // 2]])
        b = L([mk(*r) for r in order(rows, "reversed")[len(rows) // 2:]])
        return b.append(a)
    return L([mk(*r) for r in order(rows, mode)])


def gen(kind, mode, as_float, n_bpm, n_hit, n_hold, n_sv, span, bpm_pool):
    Mp, HL, OL, BL, mk_hit, mk_hold, mk_bpm = KINDS[kind]

    def off(lo=0):
        v = random.randrange(lo, span, 125)
        return float(v) + random.choice([0.0, 0.5]) if as_float else int(v)

    def val(pool):
        v = random.choice(pool)
        return float(v) if as_float else v

    m = Mp()
    m.hits = make_list(HL, mk_hit, [(off(-500), random.randrange(4)) for _ in range(n_hit)], mode)
    m.holds = make_list(
        OL, mk_hold,
        [(off(-500), random.randrange(4), val([0, 10, 300, 5000])) for _ in range(n_hold)], mode)
    m.bpms = make_list(BL, mk_bpm, [(off(), val(bpm_pool)) for _ in range(n_bpm)], mode)
    if kind == "osu":
        m.svs = make_list(OsuSvList, lambda o, x: OsuSv(o, x),
                          [(off(), random.choice([0.5, 1.0, 2.0, 0.75])) for _ in range(n_sv)], mode)
    if kind == "qua":
        m.svs = make_list(QuaSvList, lambda o, x: QuaSv(o, x),
                          [(off(), random.choice([0.5, 1.0, 2.0, 0.75])) for _ in range(n_sv)], mode)
    if kind == "sm" and n_sv:
        m.stops = SMStopList([SMStop(off(), 100) for _ in range(n_sv)])
    return m


def call(tag, fn, *a, **k):
    with warnings.catch_warnings(record=True) as w:
        warnings.simplefilter("always")
        try:
            r = fn(*a, **k)
        except Exception as e:  # noqa
            emit(tag, "EXC", type(e).__name__)
            r = None
    emit(tag, "warnings", sorted({x.category.__name__ for x in w}))
    return r


def run(tag, m):
    before = m.deepcopy()
    r = call(tag + ".dom", dominant_bpm, m)
    emit(tag, "dominant", type(r).__name__, repr(r))
    if hasattr(m, "svs"):
        for ov in (None, 0, 135.5):
            svs = call(f"{tag}.norm{ov}", sv_normalize, m, ov)
            if svs is not None:
                emit(tag, "norm", ov, type(svs).__name__)
                dump_df(f"{tag}.norm{ov}", svs.df)
    for ov in (None, 200):
        ss = call(f"{tag}.speed{ov}", scroll_speed, m, ov)
        if ss is not None:
            dump_series(f"{tag}.speed{ov}", ss)
    dump_map(tag + ".in-after", m)
    for k in m.objs:
        emit(tag, "in-unchanged", k, before.objs[k].df.equals(m.objs[k].df))


POOLS = [
    [100, 150, 200],                # few values, so groups of several rows
    [120, 120, 120, 240],
    [90, 133.7, 180, 360, 45, 200],
    [60, 60.5, 1000, 1, 175],
]

case = 0
for kind in KINDS:
    for mode in ["sorted", "shuffled", "reversed", "append", "concat"]:
        for as_float in (False, True):
            for _ in range(2):
                case += 1
                pool = random.choice(POOLS)
                if not as_float:
                    pool = [int(v) for v in pool]
                m = gen(kind, mode, as_float,
                        n_bpm=random.choice([1, 2, 3, 6, 15]),
                        n_hit=random.choice([0, 1, 5, 20]),
                        n_hold=random.choice([0, 0, 2, 6]),
                        n_sv=random.choice([0, 1, 4, 9]),
                        span=random.choice([1000, 5000, 60000]),
                        bpm_pool=pool)
                run(f"c{case}:{kind}:{mode}:{as_float}", m)

# hand made edge cases -----------------------------------------------------
# 1. nothing at all, bpms only, notes only (no bpm), in every format
for kind, (Mp, HL, OL, BL, mk_hit, mk_hold, mk_bpm) in KINDS.items():
    run(f"empty:{kind}", Mp())
    m = Mp()
    m.bpms = BL([mk_bpm(0, 120), mk_bpm(1000, 240)])
    run(f"bpms-only:{kind}", m)
    m = Mp()
    m.hits = HL([mk_hit(0, 0), mk_hit(3000, 1)])
    run(f"notes-only:{kind}", m)


def osu(bpms, hits=((0, 0), (10000, 1)), svs=()):
    m = OsuMap()
    m.bpms = OsuBpmList([OsuBpm(o, b) for o, b in bpms])
    m.hits = OsuHitList([OsuHit(o, c) for o, c in hits])
    m.svs = OsuSvList([OsuSv(o, x) for o, x in svs])
    return m


EDGE = {
    # two bpm values active exactly as long: the tie has to break the same way
    "tie-total": [(0, 200), (5000, 100)],
    "tie-total-rev": [(5000, 100), (0, 200)],
    "tie-3way": [(0, 300), (2500, 100), (5000, 200), (7500, 100)],
    # several timing points on one offset, both row orders (zero long sections)
    "same-offset": [(0, 100), (0, 200), (4000, 300), (4000, 100)],
    "same-offset-rev": [(4000, 100), (4000, 300), (0, 200), (0, 100)],
    # the same bpm split over far apart sections wins only when summed
    "summed": [(0, 150), (3000, 100), (4000, 150), (7000, 170), (11000, 150)],
    "summed-shuf": [(7000, 170), (0, 150), (11000, 150), (4000, 150), (3000, 100)],
    # timing points after the last note and before the first
    "bpm-after-notes": [(0, 100), (20000, 200), (50000, 300)],
    "bpm-before-notes": [(-30000, 100), (-100, 200)],
    # odd values
    "zero-neg-bpm": [(0, 0), (1000, -120), (4000, 60)],
    "signed-zero": [(0, -0.0), (1000, 0.0), (2000, 5.0), (2001, -0.0)],
    "inf-bpm": [(0, float("inf")), (6000, 120.0)],
    "nan-bpm": [(0, float("nan")), (6000, 120.0), (7000, float("nan"))],
    "all-nan-bpm": [(0, float("nan"))],
    "nan-offset": [(float("nan"), 100.0), (0.0, 200.0)],
    "inf-offset": [(float("inf"), 100.0), (0.0, 200.0)],
    "huge": [(10 ** 12, 100), (10 ** 12 + 1, 200), (0, 50)],
    "fraction": [(0.1, 100.0), (0.2, 200.0), (0.30000000000000004, 100.0), (0.4, 50.0)],
}
for name, bpms in EDGE.items():
    run(f"edge:{name}", osu(bpms))
    run(f"edge-sv:{name}", osu(bpms, svs=[(0, 2.0), (3000, 0.5), (3000, 1.5)]))
    run(f"edge-nonotes:{name}", osu(bpms, hits=()))

# 2. the note lists decide the end: holds (head offset counts), unsorted hits
m = osu([(0, 100), (1000, 200)], hits=[(900, 0), (100, 1), (500, 2)])
m.holds = OsuHoldList([OsuHold(1500, 0, 99999), OsuHold(1200, 1, 1)])
run("end-by-hold", m)

# 3. a bpm frame with a shuffled, non range index and with a float bpm column
m = osu([(k * 1000, [100, 200, 300][k % 3]) for k in range(9)])
m.bpms.df = m.bpms.df.sample(frac=1, random_state=7)
run("odd-index", m)
m = QuaMap()
m.bpms = QuaBpmList([QuaBpm(o, b) for o, b in [(3000, 90), (0, 180), (1000, 90), (500, 45)]])
m.hits = QuaHitList([QuaHit(7000, 0, []), QuaHit(-200, 3, [])])
m.svs = QuaSvList([QuaSv(100, 2), QuaSv(50, 0.5)])
run("qua-mixed", m)

# 4. SM stops and other lists take part in "the last object"
m = SMMap()
m.bpms = SMBpmList([SMBpm(2000, 100), SMBpm(0, 200)])
m.hits = SMHitList([SMHit(1000, 0)])
m.stops = SMStopList([SMStop(9000, 10)])
run("sm-stop-last", m)

text = "\n".join(OUT)
print("LINES", len(OUT), "CASES", case, file=sys.stderr)
print("DIGEST", hashlib.sha256(text.encode()).hexdigest())
