"""Demo for PtnCombo.combinations.  Prints ONE line: DIGEST <sha256>."""
import hashlib
import os
import random

import numpy as np

from reamber.algorithms.pattern import Pattern
from reamber.algorithms.pattern.combos import PtnCombo
from reamber.algorithms.pattern.filters.PtnFilter import (
    PtnFilterChord,
    PtnFilterCombo,
    PtnFilterType,
)
from reamber.base.Hit import Hit
from reamber.base.Hold import Hold, HoldTail
from reamber.osu.OsuHit import OsuHit

random.seed(2020_2)
OUT = []
CALLS = []


def emit(*parts):
    OUT.append(" | ".join(str(p) for p in parts))


def cell(v):
    if isinstance(v, type):
        return "T:" + v.__name__
    return f"{type(v).__name__}:{v!r}"


def dump_array(a):
    a_type = type(a).__name__
    if a.dtype.names:
        rows = ["(" + ",".join(cell(x) for x in r.tolist()) + ")" for r in a.reshape(-1)]
        return f"{a_type} shape={a.shape} dtype={a.dtype!r} rows=[{';'.join(rows)}]"
    return f"{a_type} shape={a.shape} dtype={a.dtype!r} vals={[cell(x) for x in a.reshape(-1).tolist()]}"


def dump_groups(groups):
    return "[" + " ; ".join(dump_array(g) for g in groups) + "]"


def logged(tag, fn):
    """Wrap a filter so that the order and the arguments of its calls are part
    of the digest as well."""
    if fn is None:
        return None

    def wrapper(data):
        CALLS.append(f"{tag}:{dump_array(np.asarray(data))}")
        return fn(data)

    return wrapper


def run(label, groups, **kwargs):
    before = dump_groups(groups)
    n_before = len(groups)
    CALLS.clear()
    kw = dict(kwargs)
    for k in ("chord_filter", "combo_filter", "type_filter"):
        if k in kw:
            kw[k] = logged(k, kw[k])
    combo = PtnCombo(groups)
    try:
        res = combo.combinations(**kw)
    except Exception as e:  # noqa
        emit(label, "EXC", type(e).__name__)
    else:
        emit(label, type(res).__name__, len(res))
        for k, a in enumerate(res):
            emit("  c", k, dump_array(a))
    emit("  calls", hashlib.sha256("\n".join(CALLS).encode()).hexdigest(), len(CALLS))
    emit("  groups_unchanged", dump_groups(groups) == before, len(groups) == n_before, combo.groups is groups)


def rand_pattern(n, keys, with_holds):
    cols, offs, types = [], [], []
    for _ in range(n):
        c = random.randrange(keys)
        o = random.choice([0, 0, 20, 50, 100, 100, 150, 200, 300, 300.5, 450, 900, -50])
        if with_holds and random.random() < 0.3:
            ln = random.choice([0, 50, 100, 400])
            cols += [c, c]
            offs += [o, o + ln]
            types += [Hold, HoldTail]
        else:
            cols.append(c)
            offs.append(o)
            types.append(random.choice([Hit, OsuHit]))
    order = list(range(len(cols)))
    random.shuffle(order)
    return [cols[i] for i in order], [offs[i] for i in order], [types[i] for i in order]


def chord_filters(size, keys):
    O = PtnFilterChord.Option
    yield "none", None
    yield "c11", PtnFilterChord.create([[1] * size], keys=keys).filter
    yield "c21any", PtnFilterChord.create([[2] + [1] * (size - 1)], keys=keys, options=O.ANY_ORDER).filter
    yield "c2lower", PtnFilterChord.create([[2] * size], keys=keys, options=O.AND_LOWER).filter
    yield "c2higher_x", PtnFilterChord.create([[2] * size], keys=keys, options=O.AND_HIGHER, exclude=True).filter
    yield "c_all", PtnFilterChord.create([[3] * size], keys=keys, options=O.ANY_ORDER | O.AND_LOWER | O.AND_HIGHER).filter


def combo_filters(size, keys):
    O = PtnFilterCombo.Option
    yield "none", None
    yield "jack", PtnFilterCombo.create([[0] * size], keys=keys, options=O.REPEAT).filter
    yield "nojack", PtnFilterCombo.create([[0] * size], keys=keys, options=O.REPEAT, exclude=True).filter
    yield "stair", PtnFilterCombo.create(
        [list(range(min(size, keys)))[:size] + [0] * max(0, size - keys)],
        keys=keys,
        options=O.REPEAT | O.HMIRROR | O.VMIRROR,
    ).filter
    yield "fixed", PtnFilterCombo.create([[i % keys for i in range(1, size + 1)]], keys=keys).filter


def type_filters(size):
    O = PtnFilterType.Option
    yield "none", None
    yield "hits", PtnFilterType.create([[Hit] * size]).filter
    yield "notail", PtnFilterType.create([[HoldTail] + [object] * (size - 1)], options=O.ANY_ORDER, exclude=True).filter
    yield "holdfirst", PtnFilterType.create([[Hold] + [object] * (size - 1)], options=O.MIRROR).filter
    yield "osu_x", PtnFilterType.create([[OsuHit] * size], exclude=True).filter


# ----------------------------------------------------------------- patterns
PATTERNS = {
    "empty": ([], [], []),
    "single": ([1], [0], [Hit]),
    "conftest": (
        [0, 1, 1, 2, 2, 3, 2],
        [0, 0, 100, 100, 200, 200, 300],
        [Hit, Hit, Hit, Hold, HoldTail, Hit, Hit],
    ),
    "jacks": ([0, 0, 0, 1, 0, 1, 1], [0, 100, 200, 200, 300, 300, 400], [Hit] * 7),
    "chords": ([0, 1, 2, 3, 0, 1, 2, 0, 3, 1], [0, 0, 0, 0, 100, 100, 100, 200, 200, 300], [Hit] * 10),
    "ties_same_col": ([2, 2, 2, 1, 1], [0, 0, 0, 50, 50], [Hit, Hold, HoldTail, Hit, Hit]),
}
for k in range(14):
    keys = random.choice([1, 2, 4, 4, 7])
    PATTERNS[f"rand{k}_k{keys}"] = rand_pattern(random.choice([2, 3, 5, 8, 12]), keys, with_holds=k % 2 == 0)

GROUPINGS = [(50, None, True), (0, None, True), (100, None, False), (100, 1, True), (10**6, None, False)]

count = 0
for pname, (c, o, t) in PATTERNS.items():
    keys = max(c, default=0) + 1
    keys = max(keys, 4)
    p = Pattern(c, o, t)
    for gi, (v, h, jack) in enumerate(GROUPINGS):
        if gi >= 2 and pname.startswith("rand") and random.random() < 0.5:
            continue
        groups = p.group(v, h, jack)
        label0 = f"{pname} v={v} h={h} j={jack} ngroups={len(groups)}"
        for size in (2, 3, 4):
            # everything unfiltered, both foldings, default-argument form
            run(f"{label0} size={size} plain", groups, size=size)
            run(f"{label0} size={size} plain m2", groups, size=size, make_size2=True)
            cfs = list(chord_filters(size, keys))
            bfs = list(combo_filters(size, keys))
            tfs = list(type_filters(size))
            # each filter alone
            for nm, f in cfs[1:]:
                run(f"{label0} size={size} chord={nm}", groups, size=size, chord_filter=f, make_size2=random.random() < 0.5)
            for nm, f in bfs[1:]:
                run(f"{label0} size={size} combo={nm}", groups, size=size, combo_filter=f, make_size2=random.random() < 0.5)
            for nm, f in tfs[1:]:
                run(f"{label0} size={size} type={nm}", groups, size=size, type_filter=f, make_size2=random.random() < 0.5)
            # random mixtures
            for _ in range(4):
                (cn, cf), (bn, bf), (tn, tf) = random.choice(cfs), random.choice(bfs), random.choice(tfs)
                m2 = random.random() < 0.5
                run(
                    f"{label0} size={size} chord={cn} combo={bn} type={tn} m2={m2}",
                    groups, size=size, make_size2=m2, chord_filter=cf, combo_filter=bf, type_filter=tf,
                )
                count += 1
        # default call
        run(f"{label0} default", groups)
        # templates built on combinations
        combo = PtnCombo(groups)
        for prim, sec, low, inc in [(2, 1, False, False), (3, 2, True, False), (1, 1, False, True), (2, 2, True, True)]:
            try:
                res = combo.template_chord_stream(prim, sec, keys, low, inc)
                emit(label0, "chord_stream", prim, sec, low, inc, dump_groups(res))
            except Exception as e:  # noqa
                emit(label0, "chord_stream", prim, sec, low, inc, "EXC", type(e).__name__)
        for ml in (1, 2, 3, 4):
            try:
                res = combo.template_jacks(ml, keys)
                emit(label0, "jacks", ml, dump_groups(res))
            except Exception as e:  # noqa
                emit(label0, "jacks", ml, "EXC", type(e).__name__)

# --------------------------------------------------- sizes around the domain
p = Pattern(*PATTERNS["chords"])
groups = p.group()
for size in (1, 2, 3, 4, 5, 6, 0, -1, 2.0, "2", None):
    for m2 in (False, True):
        run(f"oddsize {size!r} m2={m2}", groups, size=size, make_size2=m2)
        run(
            f"oddsize {size!r} m2={m2} chord",
            groups, size=size, make_size2=m2, chord_filter=lambda d: bool(d.sum() % 2),
        )
for size in (2, 3):
    run(f"nogroups size={size}", [], size=size)
    run(f"nogroups size={size} m2", [], size=size, make_size2=True)
    run(f"onegroup size={size}", groups[:1], size=size, make_size2=True)

# ----------------------------------- filters that do not fit the chunk size
bad_chord = PtnFilterChord.create([[1, 1, 1]], keys=4).filter
bad_combo = PtnFilterCombo.create([[0, 1, 2]], keys=4).filter
bad_type = PtnFilterType.create([[Hit, Hit, Hit]]).filter
good_chord_rej = PtnFilterChord.create([[4, 4]], keys=4, exclude=True).filter


def raising(exc):
    def f(data):
        raise exc("boom")
    return f


def raising_late(exc, nth):
    state = {"n": 0}

    def f(data):
        state["n"] += 1
        if state["n"] >= nth:
            raise exc("late boom")
        return True
    return f


for kw_name, kw in [
    ("raise_chord_late", dict(chord_filter=raising_late(KeyError, 3), combo_filter=raising(IndexError))),
    ("bad_chord", dict(chord_filter=bad_chord)),
    ("bad_combo", dict(combo_filter=bad_combo)),
    ("bad_type", dict(type_filter=bad_type)),
    ("bad_chord+bad_combo", dict(chord_filter=bad_chord, combo_filter=bad_combo)),
    ("good_chord+bad_combo", dict(chord_filter=good_chord_rej, combo_filter=bad_combo)),
    ("bad_combo+bad_type", dict(combo_filter=bad_combo, type_filter=bad_type)),
    ("raise_chord", dict(chord_filter=raising(KeyError), combo_filter=raising(IndexError))),
    ("raise_combo", dict(combo_filter=raising(IndexError), type_filter=raising(OSError))),
    ("raise_type", dict(type_filter=raising(OSError))),
    ("chord_never", dict(chord_filter=lambda d: False, combo_filter=raising(IndexError))),
    ("chord_arrayish", dict(chord_filter=lambda d: d > 1)),
    ("chord_truthy_int", dict(chord_filter=lambda d: int(d[0]) - 1)),
    ("combo_all_false", dict(combo_filter=lambda d: np.zeros(d.shape[0], bool))),
    ("type_all_false", dict(type_filter=lambda d: np.zeros(d.shape[0], bool))),
]:
    for m2 in (False, True):
        run(f"misfit {kw_name} m2={m2}", groups, size=2, make_size2=m2, **kw)

emit("mixtures", count)
text = "\n".join(OUT)
if os.environ.get("DEMO_DUMP"):
    open(os.environ["DEMO_DUMP"], "w").write(text)
print("DIGEST", hashlib.sha256(text.encode("utf-8")).hexdigest())
