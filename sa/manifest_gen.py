"""Regenerates /verif/MANIFEST.json from the property modules (single source of truth)."""
from __future__ import annotations

import importlib
import json
import pathlib

VERIF = pathlib.Path(__file__).resolve().parent.parent
ALL = [f"C{i:02d}" for i in range(1, 21)]

NOT_APPLICABLE = {
    "C11": "Reseating: four of five clauses are equalities of elapsed time under an iterative rewrite computed "
           "from runtime bpm/position values in three arithmetic branches; no sound static argument within "
           "reach bounds them, and the two structural bookkeeping clauses are too thin to carry a claim "
           "(DESIGN.md §6).",
}

BASELINE_CMD = ("cd /repo && /venv/bin/python -m pytest -ra -q -p no:cacheprovider --timeout=900 "
                "--continue-on-collection-errors")


def build():
    checks = []
    claimed = []
    for pid in ALL:
        try:
            mod = importlib.import_module(f"sa.props.{pid.lower()}")
        except ModuleNotFoundError:
            continue
        meta = mod.META
        claimed.append(pid)
        rules = ", ".join(f"{s.rid} [{s.analysis}] {s.title}" for s in mod.SPECS)
        checks.append(dict(
            property_id=pid,
            quick_cmd=f"python3-vt -m sa.check {pid} --tier quick",
            thorough_cmd=f"python3-vt -m sa.check {pid} --tier thorough",
            evidence_file=f"/verif/evidence/{pid}.json",
            replay_cmd_template="python3-vt -m sa.check --replay {path}",
            engine="sa",
            level_claimed=dict(
                category="other",
                text=meta.get("level_text") or (
                    "Static analysis of /repo's current source (ast; no import, no execution, no solver). "
                    + meta["explanation"] + " Rules: " + rules + "."),
                design_ref=f"DESIGN.md §5 {pid}",
            ),
            level_note=("Decides the structural clauses named in the rules for every input at once; NOT decided: "
                        + (meta.get("not_decided") or "-")
                        + ". Trusted base: CPython ast, the pandas/numpy semantics table sa/models/pandas_model.py, "
                          "the static expansion of Property.py's decorators; assumptions listed in the evidence file."),
            technique=meta.get("technique", "repo-specific static analysis over the AST: "
                               + ", ".join(sorted({s.analysis for s in mod.SPECS}))),
        ))
    na = [dict(property_id=p, reason=r) for p, r in NOT_APPLICABLE.items()]
    for pid in ALL:
        if pid not in claimed and pid not in NOT_APPLICABLE:
            na.append(dict(property_id=pid, reason="check not built yet in this revision of /verif (planned, see DESIGN.md §5)"))
    man = dict(
        version=1,
        setup_cmd="cd /verif && python3-vt -m compileall -q sa && python3-vt -m sa.setup_check",
        hooks=dict(
            guard="EVE_NING_REAMBERPY_VERIF",
            enable="none needed: the checks parse /repo/reamber with ast and never import or run it",
            baseline_off_cmd=BASELINE_CMD,
            source_commits=[],
            add_only=True,
        ),
        engines=[dict(name="sa", path="/verif/sa", serves_properties=claimed,
                      kind_free_text="repository-specific static analyses over Python ASTs (program model, effect "
                                     "analysis, codec/table agreement, order typestate, path rules)")],
        checks=checks,
        not_applicable=na,
        notes="Exit protocol: 0 pass (KNOWN-FINDING lines allowed), 1 VIOLATION, 2 ANALYSIS-ERROR (undecided, "
              "vanished anchor, instance floor, blind rule). Known findings: /verif/known_findings.json.",
    )
    (VERIF / "MANIFEST.json").write_text(json.dumps(man, indent=1) + "\n")
    return man


if __name__ == "__main__":
    m = build()
    print("claimed:", [c["property_id"] for c in m["checks"]])
