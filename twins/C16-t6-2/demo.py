import hashlib
import importlib
import inspect
import pkgutil
import random
import sys
import warnings

import numpy as np
import pandas as pd

import reamber
from reamber.base.Series import Series as RSeries
from reamber.base.lists.TimedList import TimedList
from reamber.base.lists.notes.HoldList import HoldList

OUT = []


def emit(*parts):
    OUT.append(" | ".join(str(p) for p in parts))


# ---------------------------------------------------------------- dumping --
def cell(v):
    """Canonical text of one scalar, with its python/numpy type."""
    if isinstance(v, float) or isinstance(v, np.floating):
        return f"{type(v).__name__}:{float(v)!r}"
    if isinstance(v, (list, tuple)):
        return f"{type(v).__name__}[{','.join(cell(i) for i in v)}]"
    return f"{type(v).__name__}:{v!r}"


def dump(x):
    if isinstance(x, BaseException):
        msg = str(x) if isinstance(x, AssertionError) else ""
        return f"EXC<{type(x).__name__}>{msg}"
    if isinstance(x, TimedList):
        try:
            df = x.df
        except AttributeError:
            return f"TL<{type(x).__name__}>NO_DF"
        return f"TL<{type(x).__name__}>{dump(df)}"
    if isinstance(x, RSeries):
        return f"ITEM<{type(x).__name__}>{dump(x.data)}"
    if isinstance(x, pd.DataFrame):
        cols = [cell(c) for c in x.columns]
        dts = [str(d) for d in x.dtypes]
        idx = [cell(i) for i in x.index]
        rows = [[cell(v) for v in x[c].tolist()] for c in x.columns] \
            if x.columns.is_unique else [[cell(v) for v in r] for r in x.to_numpy().tolist()]
        return f"DF(cols={cols},dtypes={dts},index={type(x.index).__name__}{idx},data={rows})"
    if isinstance(x, pd.Series):
        return (f"S(name={x.name!r},dtype={x.dtype},index={[cell(i) for i in x.index]},"
                f"data={[cell(v) for v in x.tolist()]})")
    if isinstance(x, np.ndarray):
        return f"ND(dtype={x.dtype},shape={x.shape},data={[cell(v) for v in x.ravel().tolist()]})"
    if isinstance(x, (list, tuple)):
        return f"{type(x).__name__}({','.join(dump(i) for i in x)})"
    return cell(x)


def run(label, fn, *watch):
    """Runs fn, records result / exception / warnings and the watched inputs after."""
    with warnings.catch_warnings(record=True) as w:
        warnings.simplefilter("always")
        try:
            res = fn()
            if inspect.isgenerator(res):
                res = list(res)
        except Exception as e:  # noqa
            res = e
    ws = [f"{i.category.__name__}:{str(i.message)[:60]}" for i in w]
    emit(label, dump(res), "WARN", ws, "INPUTS", [dump(i) for i in watch])
    return res


# ------------------------------------------------------------ discovery ----
def list_classes():
    seen = {}
    for m in pkgutil.walk_packages(reamber.__path__, "reamber."):
        if ".algorithms" in m.name:
            continue
        try:
            mod = importlib.import_module(m.name)
        except Exception:  # noqa
            continue
        for n, o in vars(mod).items():
            if (inspect.isclass(o) and issubclass(o, TimedList) and o.__module__ == m.name
                    and not inspect.isabstract(o)):
                seen[f"{o.__module__}.{n}"] = o
    return [seen[k] for k in sorted(seen)]


# ----------------------------------------------------------- generation ----
OFFSETS = [-1000.5, -3.0, -0.0, 0.0, 0.25, 1.0, 1.0, 2.5, 2.5, 100.0, 100.0, 99.75, 1e6]
LENGTHS = [0.0, 0.0, 0.25, 1.5, 1.5, 97.5, 100.0, 1000.5]
NEG_LENGTHS = LENGTHS + [-1.5, -97.5]


def rand_value(rng, name, dtype, neg_len):
    if name == "offset":
        return rng.choice(OFFSETS)
    if name == "length":
        return rng.choice(NEG_LENGTHS if neg_len else LENGTHS)
    if dtype == "float":
        return rng.choice([0.0, 0.5, 1.0, 4.0, 120.0, 200.25, -1.0])
    if dtype == "int":
        return rng.randrange(0, 9)
    if dtype == "bool":
        return rng.random() < 0.5
    if dtype == "str":
        return rng.choice(["", "a.wav", "b.ogg"])
    if name == "sample":
        return rng.choice([b"", b"k.wav", b"z"])
    if name == "keysounds":
        return rng.choice([[], ["x"], ["x", "y"]])
    return rng.choice(["", "h.wav"])


def rand_rows(rng, cls, n, neg_len=False):
    props = cls._item_class()._props
    return [{k: rand_value(rng, k, t, neg_len) for k, (t, _) in props.items()} for _ in range(n)]


def make_list(cls, rows):
    """List of cls with declared dtypes, from row dicts (goes through the DataFrame ctor)."""
    props = cls._item_class()._props
    if not rows:
        return cls([])
    return cls(pd.DataFrame({k: pd.Series([r[k] for r in rows], dtype=t) for k, (t, _) in props.items()}))


def make_item(cls, row):
    return cls._item_class()(**row)


def finish():
    text = "\n".join(OUT)
    if "--dump" in sys.argv:
        sys.stdout.write(text + "\n")
    print("DIGEST", hashlib.sha256(text.encode()).hexdigest())


# ================================================================ scenario ==
# Refactoring 2: TimedList.__init__ (list built from items / list / frame / list).
class MyList(list):
    """A list subclass: still an instance of typing.List."""


class Junk:
    def __repr__(self):
        return "Junk()"


def exercise(tag, tl):
    """Ordered-collection view of a freshly built list."""
    if not isinstance(tl, TimedList):
        return
    run(f"{tag}.len", lambda: len(tl))
    run(f"{tag}.iter", lambda: list(tl), tl)
    run(f"{tag}.getitem0", lambda: tl[0], tl)
    run(f"{tag}.getitem-1", lambda: tl[-1], tl)
    run(f"{tag}.slice", lambda: tl[1:3], tl)
    run(f"{tag}.sorted", lambda: tl.sorted(), tl)
    run(f"{tag}.first_last", lambda: (tl.first_offset(), tl.last_offset()), tl)
    run(f"{tag}.after", lambda: tl.after(1.0, True), tl)
    run(f"{tag}.rebuild", lambda: type(tl)(list(tl)), tl)


def main():
    rng = random.Random(160002)
    classes = list_classes()
    emit("CLASSES", [c.__name__ for c in classes])
    junk_pool = [1, 2.5, "s", None, Junk(), b"b", (1, 2), [3], {"offset": 1}, True,
                 pd.Series({"offset": 1.0}), np.float64(3)]
    for ci, cls in enumerate(classes):
        other = classes[(ci + 7) % len(classes)]
        for n in (0, 1, 2, 5, 9):
            tag = f"{cls.__name__}[n={n}]"
            rows = rand_rows(rng, cls, n, neg_len=True)
            items = [make_item(cls, r) for r in rows]
            snapshot = [i.deepcopy() for i in items]

            # list of items (n == 0: the empty list)
            tl = run(f"{tag}.from_items", lambda: cls(items), items)
            exercise(f"{tag}.from_items", tl)
            run(f"{tag}.items_untouched", lambda: [bool(a == b) for a, b in zip(items, snapshot)])
            run(f"{tag}.from_listsubclass", lambda: cls(MyList(items)), items)
            run(f"{tag}.from_tuple", lambda: cls(tuple(items)), items)
            run(f"{tag}.from_generator", lambda: cls(i for i in items))
            # the frame of a list built from items is a new one each time
            run(f"{tag}.fresh_df", lambda: cls(items).df is cls(items).df)

            # from another list / from a frame: the frame is shared, not copied
            src = make_list(cls, rows)
            run(f"{tag}.from_list", lambda: cls(src), src)
            run(f"{tag}.from_list.shares_df", lambda: cls(src).df is src.df)
            run(f"{tag}.from_df", lambda: cls(src.df), src)
            run(f"{tag}.from_df.shares_df", lambda: cls(src.df).df is src.df)
            run(f"{tag}.from_other_class_list", lambda: cls(make_list(other, rand_rows(rng, other, n))))
            exercise(f"{tag}.from_list", cls(src))

            # a single item
            if items:
                run(f"{tag}.from_single", lambda: cls(items[0]), items[0])
                run(f"{tag}.from_single_last", lambda: cls(items[-1]), items[-1])
                exercise(f"{tag}.from_single", cls(items[0]))

            # items of another class are Timed as well: accepted, columns are the union
            o_items = [make_item(other, r) for r in rand_rows(rng, other, max(n, 1))]
            run(f"{tag}.from_foreign_items", lambda: cls(o_items), o_items)
            mixed = items + o_items
            rng.shuffle(mixed)
            run(f"{tag}.from_mixed_items", lambda: cls(mixed), mixed)

            # wrongly typed members: AssertionError naming the first five bad types
            for k in (1, 2, 5, 6, 9):
                bad = [rng.choice(junk_pool) for _ in range(k)]
                where = rng.choice(["front", "back", "spread", "only"])
                if where == "front":
                    objs = bad + items
                elif where == "back":
                    objs = items + bad
                elif where == "only":
                    objs = list(bad)
                else:
                    objs = list(items)
                    for b in bad:
                        objs.insert(rng.randrange(len(objs) + 1), b)
                before = list(objs)
                run(f"{tag}.bad[{k},{where}]", lambda: cls(objs))
                run(f"{tag}.bad[{k},{where}].arg_untouched",
                    lambda: len(objs) == len(before) and all(a is b for a, b in zip(objs, before)))
                run(f"{tag}.bad[{k},{where}].listsubclass", lambda: cls(MyList(objs)))

            # unsupported argument kinds leave the list without a frame, silently
            for name, arg in (("None", None), ("int", 3), ("str", "abc"), ("dict", {"offset": [1.0]}),
                              ("ndarray", np.array([1.0, 2.0])), ("pdSeries", pd.Series([1.0])),
                              ("set", set())):
                run(f"{tag}.from_{name}", lambda: cls(arg))
                run(f"{tag}.from_{name}.len", lambda: len(cls(arg)))

        # other ways of building that go through __init__
        run(f"{cls.__name__}.empty0", lambda: cls.empty(0))
        run(f"{cls.__name__}.empty3", lambda: cls.empty(3))
        run(f"{cls.__name__}.from_dict_empty", lambda: cls.from_dict({}))
        run(f"{cls.__name__}.from_dict", lambda: cls.from_dict({"offset": [2.0, 1.0, 1.0]}))
        run(f"{cls.__name__}.from_dict_rows", lambda: cls.from_dict([{"offset": -1.5}, {"offset": 0.0}]))
        run(f"{cls.__name__}.from_dict_badcol", lambda: cls.from_dict({"offset": [1.0], "nope": [1]}))
        run(f"{cls.__name__}.no_arg", lambda: cls())
    finish()


main()
