"""Demo for refactoring 3: TimedList.append (reamber/base/lists/TimedList.py)

Appends every accepted kind of value (a single item, its pd.Series, another
list, a DataFrame) and several rejected ones to lists of every game, sorted and
unsorted, once and in sequence; dumps result, list-afterwards and
value-afterwards (values, dtypes, columns, row labels), warnings and exception
types; then changes the result and dumps the inputs again. Prints one sha256
digest.
"""
import hashlib
import random
import sys
import warnings
from pathlib import Path

import numpy as np
import pandas as pd

from reamber.algorithms.osu.hitsound_copy import hitsound_copy
from reamber.base.Bpm import Bpm
from reamber.base.Hit import Hit
from reamber.base.Hold import Hold
from reamber.base.Timed import Timed
from reamber.base.lists.BpmList import BpmList
from reamber.base.lists.TimedList import TimedList
from reamber.base.lists.notes.HitList import HitList
from reamber.base.lists.notes.HoldList import HoldList
from reamber.bms import BMSMap
from reamber.bms.BMSHit import BMSHit
from reamber.bms.lists.notes.BMSHitList import BMSHitList
from reamber.o2jam.O2JHold import O2JHold
from reamber.o2jam.lists.notes.O2JHoldList import O2JHoldList
from reamber.osu import OsuMap
from reamber.osu.OsuBpm import OsuBpm
from reamber.osu.OsuHit import OsuHit
from reamber.osu.OsuSample import OsuSample
from reamber.osu.OsuSv import OsuSv
from reamber.osu.lists.OsuBpmList import OsuBpmList
from reamber.osu.lists.OsuSampleList import OsuSampleList
from reamber.osu.lists.OsuSvList import OsuSvList
from reamber.osu.lists.notes.OsuHitList import OsuHitList
from reamber.quaver.QuaHit import QuaHit
from reamber.quaver.QuaSv import QuaSv
from reamber.quaver.lists.QuaSvList import QuaSvList
from reamber.quaver.lists.notes.QuaHitList import QuaHitList
from reamber.sm.SMStop import SMStop
from reamber.sm.lists.SMStopList import SMStopList

ROOT = Path.cwd()  # run from inside the worktree
OUT: list = []


def emit(*a):
    OUT.append(" ".join(str(x) for x in a))


def cell(v):
    return f"{type(v).__name__}:{v!r}"


def dump_df(tag, df: pd.DataFrame):
    emit(tag, "shape", df.shape)
    emit(tag, "columns", list(df.columns))
    emit(tag, "dtypes", [str(t) for t in df.dtypes])
    emit(tag, "index", type(df.index).__name__, [cell(i) for i in df.index])
    for c in df.columns:
        emit(tag, "col", c, [cell(v) for v in df[c].tolist()])


def dump_any(tag, v):
    emit(tag, "type", type(v).__name__)
    if isinstance(v, TimedList):
        dump_df(tag, v.df)
    elif isinstance(v, pd.DataFrame):
        dump_df(tag, v)
    elif isinstance(v, pd.Series):
        emit(tag, "series", str(v.dtype), cell(v.name), [cell(i) for i in v.index],
             [cell(x) for x in v.tolist()])
    elif isinstance(v, Timed):
        dump_any(tag + ".data", v.data)
    else:
        emit(tag, "repr", repr(v))


OFFS = [-250.0, -0.0, 0.0, 100.0, 100.0, 333.25, 1000.0, 1e6]


def gen_item(rng, kind):
    o = rng.choice(OFFS)
    if kind == "Timed":
        return Timed(offset=o)
    if kind == "Hit":
        return Hit(offset=o, column=rng.randrange(7))
    if kind == "Hold":
        return Hold(offset=o, column=rng.randrange(7), length=rng.choice([0.0, 50.0, 1e3]))
    if kind == "Bpm":
        return Bpm(offset=o, bpm=rng.choice([60.0, 150.0, 222.5]), metronome=rng.choice([3, 4]))
    if kind == "OsuHit":
        return OsuHit(offset=o, column=rng.randrange(4), hitsound_set=rng.choice([0, 2, 8]),
                      volume=rng.choice([0, 30]), hitsound_file=rng.choice(["", "a.wav"]))
    if kind == "OsuBpm":
        return OsuBpm(offset=o, bpm=rng.choice([120.0, 180.0]), kiai=rng.random() < 0.5)
    if kind == "OsuSv":
        return OsuSv(offset=o, multiplier=rng.choice([0.5, 1.0, 2.0]), kiai=rng.random() < 0.5)
    if kind == "OsuSample":
        return OsuSample(offset=o, sample_file=rng.choice(["x.wav", "y.ogg"]), volume=rng.choice([10, 70]))
    if kind == "QuaHit":
        return QuaHit(offset=o, column=rng.randrange(7), keysounds=rng.choice([[], ["k1"], ["k1", "k2"]]))
    if kind == "QuaSv":
        return QuaSv(offset=o, multiplier=rng.choice([0.1, 1.0, -1.0]))
    if kind == "BMSHit":
        return BMSHit(offset=o, column=rng.randrange(8), sample=rng.choice([b"", b"01.wav"]))
    if kind == "O2JHold":
        return O2JHold(offset=o, column=rng.randrange(7), length=rng.choice([10.0, 500.0]),
                       volume=rng.randrange(3), pan=rng.randrange(3))
    if kind == "SMStop":
        return SMStop(offset=o, length=rng.choice([10.0, 250.0]))
    raise KeyError(kind)


KINDS = {
    "Timed": TimedList,
    "Hit": HitList,
    "Hold": HoldList,
    "Bpm": BpmList,
    "OsuHit": OsuHitList,
    "OsuBpm": OsuBpmList,
    "OsuSv": OsuSvList,
    "OsuSample": OsuSampleList,
    "QuaHit": QuaHitList,
    "QuaSv": QuaSvList,
    "BMSHit": BMSHitList,
    "O2JHold": O2JHoldList,
    "SMStop": SMStopList,
}


def gen_list(rng, kind, n, mode):
    tl = KINDS[kind]([gen_item(rng, kind) for _ in range(n)])
    df = tl.df
    if n and mode == 1:
        df = df.sample(frac=1.0, random_state=rng.randrange(10**6))
    elif n and mode == 2:
        df = df.set_axis([f"r{i}" for i in range(n)], axis=0)
    elif n and mode == 3:
        df = df.iloc[::-1]
    return KINDS[kind](df)


def gen_value(rng, kind, how):
    """The value to append."""
    other = rng.choice([k for k in KINDS if k != kind])
    if how == "item":
        return gen_item(rng, kind)
    if how == "item-other":
        return gen_item(rng, other)
    if how == "pd.Series":
        return gen_item(rng, kind).data
    if how == "pd.Series-named":
        s = gen_item(rng, kind).data.copy()
        s.name = "row"
        return s
    if how == "pd.Series-partial":
        return pd.Series({"offset": 5.5})
    if how == "list":
        return gen_list(rng, kind, rng.randrange(0, 5), rng.randrange(4))
    if how == "list-empty":
        return KINDS[kind]([])
    if how == "list-other":
        return gen_list(rng, other, rng.randrange(1, 4), 0)
    if how == "frame":
        return gen_list(rng, kind, rng.randrange(0, 5), rng.randrange(4)).df
    if how == "frame-extra":
        return pd.DataFrame({"offset": [1.0, 2.0], "extra": ["a", "b"]})
    if how == "frame-empty":
        return pd.DataFrame()
    if how == "int":
        return 5
    if how == "none":
        return None
    if how == "str":
        return "abc"
    if how == "pylist":
        return [gen_item(rng, kind)]
    if how == "dict":
        return {"offset": 1.0}
    if how == "ndarray":
        return np.array([1.0, 2.0])
    raise KeyError(how)


HOWS = [
    "item", "item-other", "pd.Series", "pd.Series-named", "pd.Series-partial",
    "list", "list-empty", "list-other", "frame", "frame-extra", "frame-empty",
    "int", "none", "str", "pylist", "dict", "ndarray",
]


def append_case(tag, tl, val, *args, **kwargs):
    emit("=== CASE", tag, args, kwargs)
    with warnings.catch_warnings(record=True) as ws:
        warnings.simplefilter("always")
        try:
            res = tl.append(val, *args, **kwargs)
        except Exception as e:  # noqa
            emit("EXC", type(e).__name__)
            res = None
    emit("WARN", sorted({w.category.__name__ for w in ws}), len(ws))
    if res is not None:
        emit("same-object", res is tl, res.df is tl.df, type(res).__name__)
        dump_any("res", res)
    dump_any("self-after", tl)
    dump_any("val-after", val)
    if res is not None and len(res):
        # the result is a copy: changing it does not change the inputs
        with warnings.catch_warnings(record=True) as ws2:
            warnings.simplefilter("always")
            try:
                res.offset += 11
                res.df.iloc[0, 0] = res.df.iloc[-1, 0]
                res[0:1] = res.df.iloc[-1].tolist()
            except Exception as e:  # noqa
                emit("EXC-mut", type(e).__name__)
        emit("WARN-mut", sorted({w.category.__name__ for w in ws2}), len(ws2))
        dump_any("res-mut", res)
        dump_any("self-after-mut", tl)
        dump_any("val-after-mut", val)
    return res


def main():
    rng = random.Random(140003)
    n = 0
    for kind in KINDS:
        for how in HOWS:
            for size, mode in ((0, 0), (1, 0), (4, rng.randrange(4))):
                tl = gen_list(rng, kind, size, mode)
                val = gen_value(rng, kind, how)
                sort = rng.random() < 0.5
                if n % 3 == 0:
                    append_case(f"{n}:{kind}:{how}:{size}:{mode}", tl, val)
                elif n % 3 == 1:
                    append_case(f"{n}:{kind}:{how}:{size}:{mode}", tl, val, sort)
                else:
                    append_case(f"{n}:{kind}:{how}:{size}:{mode}", tl, val, sort=sort)
                n += 1
    # in sequence, a list appended to itself, chained appends
    for kind in ("Hit", "OsuHit", "QuaHit", "OsuSv", "Bpm"):
        tl = gen_list(rng, kind, 3, 1)
        r = append_case(f"seq:{kind}:self", tl, tl, sort=True)
        r2 = append_case(f"seq:{kind}:2", r, gen_item(rng, kind))
        r3 = append_case(f"seq:{kind}:3", r2, gen_item(rng, kind).data, True)
        append_case(f"seq:{kind}:4", r3, tl.df)
        append_case(f"seq:{kind}:5", tl, r3[1:3])
    # users of append inside the library
    bl = gen_list(rng, "Bpm", 3, 0).sorted()
    for last in (None, 0, 5000.0, 2e6):
        with warnings.catch_warnings(record=True):
            warnings.simplefilter("always")
            try:
                so = bl.snap_offsets(nths=1.0, last_offset=last)
                emit("snap", last, str(so.dtype), len(so), [cell(x) for x in so[:50].tolist()])
            except Exception as e:  # noqa
                emit("snap", last, "EXC", type(e).__name__)
        dump_any("snap-self-after", bl)
    hs = ROOT / "tests/algorithm_tests/osu/hitsound_copy"
    src, tgt = OsuMap.read_file(hs / "source.osu"), OsuMap.read_file(hs / "target.osu")
    tgt.hits = tgt.hits[:20]
    tgt.holds = tgt.holds[:5]
    res = hitsound_copy(src, tgt)
    dump_any("hscopy.samples", res.samples)
    dump_any("hscopy.tgt.samples", tgt.samples)
    bms = BMSMap.read_file(ROOT / "rsc/maps/bms/coldBreath.bme")
    dump_any("bms.bpms", bms.bpms)

    text = "\n".join(OUT)
    print("LINES", len(OUT), file=sys.stderr)
    print("DIGEST", hashlib.sha256(text.encode("utf8")).hexdigest())


if __name__ == "__main__":
    main()
