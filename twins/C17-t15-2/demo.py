"""Demonstration for property C17 (full_ln keeps every note, fills gaps).

Runs ``reamber.algorithms.generate.full_ln`` on a fixed, seeded collection of
generated charts (all games, odd key counts, unsorted rows, filtered rows with
non-default labels, empty lists, negative / fractional times, zero-length
holds, stacked notes, chords, map sets, odd gap / threshold values, and a few
inputs that raise) and prints ONE line: a sha256 over a canonical text of

* every result (all lists of the returned map: class, columns, dtypes, row
  labels, values; plus the non-list fields of the map),
* the exception type when the call raised,
* the categories of the warnings emitted by the call,
* the state of the input map after the call (and whether it still equals the
  snapshot taken before the call).

Run as:  cd <worktree> && PYTHONPATH=<worktree> /venv/bin/python demo.py
"""
import dataclasses
import hashlib
import random
import sys
import warnings

import numpy as np
import pandas as pd

import reamber
from reamber.algorithms.generate import full_ln
from reamber.base.Map import Map
from reamber.bms.BMSMap import BMSMap
from reamber.o2jam.O2JMap import O2JMap
from reamber.o2jam.O2JMapSet import O2JMapSet
from reamber.osu.OsuMap import OsuMap
from reamber.quaver.QuaMap import QuaMap
from reamber.sm.SMMap import SMMap
from reamber.sm.SMMapSet import SMMapSet

print(reamber.__file__, file=sys.stderr)

SEED = 170217
rng = random.Random(SEED)


# --------------------------------------------------------------------------- #
# canonical text
# --------------------------------------------------------------------------- #
def canon_value(v):
    if isinstance(v, float) or isinstance(v, np.floating):
        return f"{type(v).__name__}:{float(v)!r}"
    return f"{type(v).__name__}:{v!r}"


def canon_df(df: pd.DataFrame) -> str:
    parts = [
        "cols=" + repr(list(df.columns)),
        "dtypes=" + repr([str(t) for t in df.dtypes]),
        "index=" + type(df.index).__name__ + repr(df.index.tolist()),
    ]
    for c in df.columns:
        parts.append(f"{c}=[" + ",".join(canon_value(v) for v in df[c].tolist()) + "]")
    return ";".join(parts)


def canon_map(m) -> str:
    out = [type(m).__name__]
    for name, lst in m.objs.items():
        out.append(f"  {name}<{type(lst).__name__}>: {canon_df(lst.df)}")
    if dataclasses.is_dataclass(m):
        for f in dataclasses.fields(m):
            if f.name == "objs":
                continue
            out.append(f"  .{f.name}={getattr(m, f.name)!r}")
    return "\n".join(out)


# --------------------------------------------------------------------------- #
# generators
# --------------------------------------------------------------------------- #
GAMES = [Map, OsuMap, QuaMap, SMMap, BMSMap, O2JMap]


def gen_offsets(n, style):
    if style == "grid":  # many equal differences, ties with gap+threshold
        return [float(rng.choice(range(0, 3000, 50))) for _ in range(n)]
    if style == "frac":
        return [round(rng.uniform(-500, 4000), 3) for _ in range(n)]
    if style == "neg":
        return [float(rng.randint(-3000, 200)) for _ in range(n)]
    if style == "dense":  # lots of stacked notes
        return [float(rng.choice([0, 100, 250, 250, 400, 1000])) for _ in range(n)]
    if style == "wide":
        return [rng.uniform(-1e7, 1e7) for _ in range(n)]
    raise AssertionError(style)


def fill(m, n_hits, n_holds, keys, style, zero_len=False, sort=False, int_off=False):
    h_off = gen_offsets(n_hits, style)
    h_col = [rng.randrange(keys) for _ in range(n_hits)]
    d_off = gen_offsets(n_holds, style)
    d_col = [rng.randrange(keys) for _ in range(n_holds)]
    d_len = [
        0.0 if (zero_len and rng.random() < 0.5) else round(rng.uniform(0, 700), 2)
        for _ in range(n_holds)
    ]
    if int_off:
        h_off = [int(o) for o in h_off]
        d_off = [int(o) for o in d_off]
    if sort:
        order = sorted(range(n_hits), key=lambda i: h_off[i])
        h_off = [h_off[i] for i in order]
        h_col = [h_col[i] for i in order]
    m.hits = type(m.hits).from_dict({"offset": h_off, "column": h_col})
    m.holds = type(m.holds).from_dict(
        {"offset": d_off, "column": d_col, "length": d_len}
    )
    m.bpms = type(m.bpms).from_dict(
        {"offset": [0.0, 1234.5], "bpm": [120.0, rng.choice([90.0, 222.2])]}
    )
    return m


def filtered(m):
    """Drop some rows, keeping the (now non-default) row labels."""
    for name in ("hits", "holds"):
        lst = getattr(m, name)
        df = lst.df
        if len(df) == 0:
            continue
        keep = [rng.random() < 0.6 for _ in range(len(df))]
        setattr(m, name, type(lst)(df[keep]))
    return m


def shuffled(m):
    for name in ("hits", "holds"):
        lst = getattr(m, name)
        df = lst.df
        perm = list(range(len(df)))
        rng.shuffle(perm)
        setattr(m, name, type(lst)(df.iloc[perm]))
    return m


CASES = []  # (label, map-or-object, gap, threshold, use_defaults)


def add(label, m, gap=150, thres=100, defaults=False):
    CASES.append((label, m, gap, thres, defaults))


# 1. every game, random key counts, random mixes
for i, game in enumerate(GAMES * 3):
    keys = rng.choice([1, 2, 3, 4, 5, 6, 7, 8, 9, 10, 18])
    style = rng.choice(["grid", "frac", "neg", "dense"])
    m = fill(game(), rng.randint(0, 25), rng.randint(0, 15), keys, style)
    add(
        f"rand{i}-{game.__name__}-{keys}k-{style}",
        m,
        rng.choice([0, 50, 150, 150.5, 1e-9]),
        rng.choice([0, 1, 100, 99.99, 1000]),
    )

# 2. default options
for game in (Map, OsuMap, SMMap):
    add(f"defaults-{game.__name__}", fill(game(), 20, 10, 4, "grid"), defaults=True)

# 3. empties
add("empty-all", Map())
add("empty-all-osu", OsuMap(), 0, 0)
add("empty-hits", fill(QuaMap(), 0, 12, 4, "grid"))
add("empty-holds", fill(BMSMap(), 12, 0, 7, "grid"))
add("single-hit", fill(Map(), 1, 0, 4, "frac"))
add("single-hold", fill(O2JMap(), 0, 1, 7, "frac"))

# 4. single-note columns / empty columns (many keys, few notes)
add("sparse-18k", fill(SMMap(), 6, 4, 18, "frac"), 10, 10)
add("one-column", fill(Map(), 15, 10, 1, "grid"), 100, 50)

# 5. unsorted rows, filtered rows with non-default labels
add("shuffled-osu", shuffled(fill(OsuMap(), 20, 12, 4, "grid")), 120, 80)
add("filtered-qua", filtered(fill(QuaMap(), 25, 15, 7, "grid")), 75, 25)
add("filtered-shuffled", shuffled(filtered(fill(Map(), 25, 15, 5, "frac"))), 30.25, 60)
add("sorted-hits", fill(Map(), 20, 0, 3, "grid", sort=True), 100, 100)

# 6. negative / fractional / wide times, zero-length holds, integer offsets
add("negative", fill(OsuMap(), 15, 10, 4, "neg"), 200, 0)
add("wide", fill(Map(), 15, 10, 4, "wide"), 1e5, 1e5)
add("zero-len-holds", fill(BMSMap(), 5, 20, 6, "grid", zero_len=True), 0, 0)
add("int-offsets", fill(Map(), 15, 10, 4, "grid", int_off=True), 50, 100)

# 7. stacked notes in one column at one time, chords
add("stacked", fill(Map(), 20, 15, 2, "dense"), 50, 50)
add("stacked-0-0", fill(O2JMap(), 20, 15, 2, "dense"), 0, 0)
m = Map()
m.hits = type(m.hits).from_dict({"offset": [0.0] * 4 + [500.0] * 4, "column": [0, 1, 2, 3] * 2})
m.holds = type(m.holds).from_dict(
    {"offset": [250.0, 250.0, 750.0], "column": [0, 3, 3], "length": [10.0, 500.0, 0.0]}
)
add("chords", m, 150, 100)

# 8. exact threshold boundary (diff - gap == threshold, and one ulp below)
m = Map()
m.hits = type(m.hits).from_dict(
    {"offset": [0.0, 250.0, 499.9999999999999, 0.1, 0.30000000000000004], "column": [0, 0, 0, 1, 1]}
)
add("boundary", m, 150, 100)
add("boundary-frac", m.deepcopy(), 0.1, 0.1)

# 9. unusual gap / threshold values
base = fill(Map(), 18, 9, 4, "grid")
add("gap-inf", base.deepcopy(), float("inf"), 100)
add("thres-inf", base.deepcopy(), 150, float("inf"))
add("gap-nan", base.deepcopy(), float("nan"), 100)
add("thres-nan", base.deepcopy(), 150, float("nan"))
add("np-scalars", base.deepcopy(), np.float64(33.3), np.int64(7))
add("np-f32", base.deepcopy(), np.float32(0.1), np.float32(0.7))
add("bool-gap", base.deepcopy(), True, False)
add("huge-gap", base.deepcopy(), 10**12, 0)
add("negative-gap", base.deepcopy(), -100, -5)

# 10. NaN inside the data
m = fill(Map(), 10, 6, 3, "grid")
m.holds.df.loc[m.holds.df.index[::2], "length"] = np.nan
add("nan-lengths", m, 100, 50)
m = fill(Map(), 10, 6, 3, "grid")
m.hits.df.loc[m.hits.df.index[::3], "offset"] = np.nan
add("nan-offsets", m, 100, 50)

# 11. SM maps with the other hit/hold-like lists populated
m = fill(SMMap(), 12, 6, 4, "grid")
m.rolls = type(m.rolls).from_dict({"offset": [125.0, 875.0], "column": [1, 2], "length": [40.0, 300.0]})
m.mines = type(m.mines).from_dict({"offset": [60.0, 1800.0, 1800.0], "column": [0, 0, 3]})
m.lifts = type(m.lifts).from_dict({"offset": [333.0], "column": [2]})
add("sm-extra-lists", m, 60, 30)

# 12. inputs that raise
add("raise-gap-str", base.deepcopy(), "150", 100)
add("raise-thres-str", base.deepcopy(), 150, "100")
add("raise-gap-none", base.deepcopy(), None, 100)
add("raise-not-a-map", None)
add("raise-not-a-map-2", [1, 2, 3])
add("noraise-gap-str-empty", Map(), "150", "100")
m = Map()
m.hits = type(m.hits).from_dict({"offset": [0.0, 10.0, 20.0], "column": [0, 1, 2]})
add("gap-str-single-note-columns", m, "150", 100)

# 13. several charts in a set
sm_set = SMMapSet()
sm_set.maps = [fill(SMMap(), 10, 5, k, "grid") for k in (4, 6, 8)]
o2_set = O2JMapSet()
o2_set.maps = [fill(O2JMap(), 8, 8, 7, "frac") for _ in range(3)]
for si, s in enumerate((sm_set, o2_set)):
    for mi, m in enumerate(s.maps):
        add(f"set{si}-map{mi}", m, 40 * (mi + 1), 20 * mi)


# --------------------------------------------------------------------------- #
# run
# --------------------------------------------------------------------------- #
def snapshot(obj) -> str:
    if hasattr(obj, "objs"):
        return canon_map(obj)
    return repr(obj)


lines = []
n_ok = n_exc = 0
for label, m, gap, thres, defaults in CASES:
    before = snapshot(m)
    with warnings.catch_warnings(record=True) as w:
        warnings.simplefilter("always")
        try:
            out = full_ln(m) if defaults else full_ln(m, gap, thres)
            res = "OK\n" + canon_map(out)
            res += f"\n  same-object-as-input={out is m}"
            n_ok += 1
        except Exception as e:  # noqa
            res = f"EXC {type(e).__name__}"
            n_exc += 1
    warn = sorted({x.category.__name__ for x in w})
    after = snapshot(m)
    lines.append(
        f"### {label} gap={gap!r} thres={thres!r} defaults={defaults}\n"
        f"{res}\nwarnings={warn}\ninput-unchanged={before == after}\ninput-after:\n{after}"
    )

# the sets themselves afterwards
lines.append("set-sizes " + repr([len(sm_set.maps), len(o2_set.maps)]))

text = "\n".join(lines)
print(f"cases={len(CASES)} ok={n_ok} exc={n_exc} chars={len(text)}", file=sys.stderr)
if "--dump" in sys.argv:
    sys.stderr.write(text + "\n")
print(hashlib.sha256(text.encode("utf-8")).hexdigest())
