"""Deterministic behaviour digest of reamber.algorithms.pattern (property C20).

Run from inside the worktree:
    cd /tmp/wt7/C20 && PYTHONPATH=/tmp/wt7/C20 /venv/bin/python demo.py
Prints one line ``DIGEST <sha256>``.
"""
import hashlib
import itertools
import random
import sys
import warnings

import numpy as np
import pandas as pd

warnings.filterwarnings("ignore")

from reamber.algorithms.pattern import Pattern
from reamber.algorithms.pattern.combos import PtnCombo
from reamber.algorithms.pattern.filters import (
    PtnFilterChord,
    PtnFilterCombo,
    PtnFilterType,
)
from reamber.base.Hit import Hit
from reamber.base.Hold import Hold, HoldTail
from reamber.base.lists.notes.HitList import HitList
from reamber.base.lists.notes.HoldList import HoldList
from reamber.osu.OsuHit import OsuHit
from reamber.osu.OsuHold import OsuHold

random.seed(20200820)
OUT = []


def emit(*parts):
    OUT.append(" ".join(str(p) for p in parts))


def canon(x):
    if isinstance(x, type):
        return f"<{x.__module__}.{x.__qualname__}>"
    if isinstance(x, (list, tuple)):
        return type(x).__name__ + "(" + ",".join(canon(i) for i in x) + ")"
    return f"{type(x).__name__}:{x!r}"


def dump(a):
    """Canonical text of an array / frame / list of arrays / scalar."""
    if isinstance(a, pd.DataFrame):
        return (
            f"DF cols={list(a.columns)} dtypes={[str(d) for d in a.dtypes]} "
            f"index={canon(a.index.tolist())} "
            + " ".join(f"{c}={canon(a[c].tolist())}" for c in a.columns)
        )
    if isinstance(a, np.ndarray):
        head = (
            f"{type(a).__name__} shape={a.shape} W={int(a.flags.writeable)} "
        )
        if a.dtype.names:
            return (
                head
                + f"dtype={a.dtype.descr} "
                + " ".join(
                    f"{n}={canon(a[n].ravel().tolist())}" for n in a.dtype.names
                )
            )
        return head + f"dtype={a.dtype} " + canon(a.ravel().tolist())
    if isinstance(a, (list, tuple)):
        return type(a).__name__ + "[" + " || ".join(dump(i) for i in a) + "]"
    return canon(a)


def attempt(label, fn):
    try:
        r = fn()
    except Exception as e:  # noqa
        emit(label, "RAISED", type(e).__name__)
        return None
    emit(label, dump(r))
    return r


# --------------------------------------------------------------------------
# note-set generators
# --------------------------------------------------------------------------
TYPES = [Hit, Hold, HoldTail, OsuHit, OsuHold]


def gen_notes(n, keys, grid, float_offsets):
    cols = [random.randrange(keys) for _ in range(n)]
    offs = [random.randrange(0, 12) * grid for _ in range(n)]
    if float_offsets:
        offs = [o + random.choice([0.0, 0.25, 0.5]) for o in offs]
    types = [random.choice(TYPES) for _ in range(n)]
    return cols, offs, types


NOTE_SETS = []
# hand-made edge cases
NOTE_SETS.append(("empty", 4, ([], [], [])))
NOTE_SETS.append(("single", 4, ([2], [100], [Hit])))
NOTE_SETS.append(("two_same", 4, ([1, 1], [0, 0], [Hit, Hit])))
NOTE_SETS.append(
    (
        "fixture",
        4,
        (
            [0, 1, 1, 2, 2, 3, 2],
            [0, 0, 100, 100, 200, 200, 300],
            [Hit, Hit, Hit, Hold, HoldTail, Hit, Hit],
        ),
    )
)
NOTE_SETS.append(
    ("all_tied", 4, ([0, 1, 2, 3, 0, 1, 2, 3], [50] * 8, [Hit] * 4 + [Hold] * 4))
)
NOTE_SETS.append(
    ("one_col", 1, ([0] * 6, [0, 10, 10, 20, 30, 30], [Hit, Hold, HoldTail] * 2))
)
NOTE_SETS.append(
    ("negative", 7, ([6, 0, 3, 3, 5], [-100.5, -100.5, -50, 0, 25], [Hit] * 5))
)
NOTE_SETS.append(
    (
        "unsorted_desc",
        4,
        ([0, 1, 2, 3, 2, 1], [500, 400, 300, 200, 100, 0], [OsuHit] * 6),
    )
)
for n in (2, 3, 5, 8, 13, 20, 30):
    for keys in (1, 4, 7):
        for grid, fo in ((50, False), (10, True)):
            NOTE_SETS.append(
                (f"rnd{n}k{keys}g{grid}", keys, gen_notes(n, keys, grid, fo))
            )

V_WINDOWS = [0, 0.5, 10, 50.0, 100, 10**9]
H_WINDOWS = [None, 0, 1, 2, 10]


def prod_top(groups, k):
    sizes = sorted((g.shape[0] for g in groups), reverse=True)[:k]
    p = 1
    for s in sizes:
        p *= s
    return p


# --------------------------------------------------------------------------
# 1. Pattern construction, masks, grouping
# --------------------------------------------------------------------------
ALL_GROUPINGS = []
for name, keys, (cols, offs, types) in NOTE_SETS:
    cols_in, offs_in, types_in = list(cols), list(offs), list(types)
    p = Pattern(cols, offs, types)
    emit("PATTERN", name, dump(p.df), "len", len(p))
    emit("INPUT_KEPT", name, cols == cols_in, offs == offs_in, types == types_in)
    df_before = dump(p.df)
    ar = p.df.to_records(index=False)

    # direct mask calls on the record array and on the frame itself
    ref_offsets = sorted(set(offs))[:4] + [-1, 10**7]
    for ro in ref_offsets:
        for v in (0, 10, 100, 10**9):
            for aj in (True, False):
                attempt(
                    f"VMASK_AR {name} o={ro} v={v} aj={aj}",
                    lambda: Pattern.v_mask(ar, ro, v, aj),
                )
                if len(p):
                    attempt(
                        f"VMASK_DF {name} o={ro} v={v} aj={aj}",
                        lambda: Pattern.v_mask(p.df, ro, v, aj),
                    )
    for c in range(-1, keys + 1):
        for h in (0, 1, 3):
            attempt(f"HMASK_AR {name} c={c} h={h}", lambda: Pattern.h_mask(ar, c, h))
            if len(p):
                attempt(
                    f"HMASK_DF {name} c={c} h={h}",
                    lambda: np.asarray(Pattern.h_mask(p.df, c, h)),
                )
    emit("AR_KEPT", name, dump(ar) == dump(p.df.to_records(index=False)))

    for v in V_WINDOWS:
        for h in H_WINDOWS:
            for aj in (True, False):
                g = attempt(
                    f"GROUP {name} v={v} h={h} aj={aj}",
                    lambda: p.group(v, h, aj),
                )
                if g is not None:
                    ALL_GROUPINGS.append((name, keys, v, h, aj, g))
    attempt(f"GROUP {name} default", lambda: p.group())
    attempt(f"GROUP {name} v<0", lambda: p.group(-1))
    attempt(f"GROUP {name} v<0 tiny", lambda: p.group(-1e-9, None, False))
    attempt(f"GROUP {name} h<0", lambda: p.group(10, -1))
    emit("DF_KEPT", name, df_before == dump(p.df))

# from_note_lists, with and without tails
for seed in range(8):
    n_hit = random.choice([0, 1, 3, 6])
    n_hold = random.choice([0, 1, 2, 5])
    hits = HitList(
        [Hit(random.randrange(8) * 50, random.randrange(4)) for _ in range(n_hit)]
    )
    holds = HoldList(
        [
            Hold(random.randrange(8) * 50, random.randrange(4), random.choice([0, 25, 50, 200]))
            for _ in range(n_hold)
        ]
    )
    for tails in (True, False):
        for order in ((hits, holds), (holds, hits), (hits,), (holds,), ()):
            lab = f"FROM_NL s={seed} tails={tails} order={[type(o).__name__ for o in order]}"
            pp = attempt(lab, lambda: Pattern.from_note_lists(list(order), tails).df)
            p2 = Pattern.from_note_lists(list(order), tails)
            for v, h, aj in ((0, None, True), (50, 1, True), (100, None, False)):
                g = attempt(lab + f" GROUP v={v} h={h} aj={aj}", lambda: p2.group(v, h, aj))
                if g is not None:
                    ALL_GROUPINGS.append((lab, 4, v, h, aj, g))

# --------------------------------------------------------------------------
# 2. Filter construction
# --------------------------------------------------------------------------
CO = PtnFilterChord.Option
for keys in (0, 1, 2, 4, 5, 7):
    for sizes in (
        [[1, 1]],
        [[2, 1]],
        [[3, 2]],
        [[2, 2], [1, 3]],
        [[1, 2, 3]],
        [[4, 1, 2]],
        [[2, 2, 1, 1]],
        [[1, 2, 1, 3], [3, 3, 3, 3]],
        [2],
        [3, 1],
        [[keys + 2, 1]],
        [[0, 1]],
        [[-1, 2]],
        [[keys, keys]],
    ):
        for opt in range(8):
            for exclude in (False, True):
                def mk():
                    f = PtnFilterChord.create(sizes, keys, opt, exclude)
                    probe = []
                    width = f.ar.shape[1] if f.ar.ndim == 2 else 0
                    for cand in itertools.islice(
                        itertools.product(range(0, 5), repeat=width), 0, 200, 7
                    ):
                        try:
                            probe.append(f.filter(np.array(cand)))
                        except Exception as e:  # noqa
                            probe.append(type(e).__name__)
                    return [f.ar, f.keys, f.invert_filter, probe]

                attempt(f"CHORD_CREATE k={keys} s={sizes} o={opt} x={exclude}", mk)

BO = PtnFilterCombo.Option
for keys in (1, 4, 7):
    for combos in ([[0, 0]], [[0, 1]], [[1, 2], [3, 0]], [[0, 1, 2]], [[0, 0, 0, 0]], [0], [[0, 2, 1, 3]]):
        for opt in range(8):
            for exclude in (False, True):
                def mk():
                    f = PtnFilterCombo.create(combos, keys, opt, exclude)
                    width = f.ar.shape[1]
                    data = np.array(
                        list(itertools.product(range(keys), repeat=width))[:300]
                    ).reshape(-1, width)
                    return [f.ar, f.keys, f.invert_filter, f.filter(data)]

                attempt(f"COMBO_CREATE k={keys} c={combos} o={opt} x={exclude}", mk)

TO = PtnFilterType.Option
for types_ in ([[Hit, Hit]], [[HoldTail, object]], [[Hold, Hit], [Hit, Hold]], [[Hit, Hold, HoldTail]], [[HoldTail, object, object, object]], [Hit]):
    for opt in range(4):
        for exclude in (False, True):
            def mk():
                f = PtnFilterType.create(types_, opt, exclude)
                width = f.ar.shape[1]
                data = np.array(
                    list(itertools.product(TYPES, repeat=width))[:200], dtype=object
                ).reshape(-1, width)
                return [f.ar, f.invert_filter, f.filter(data), f.filter(data[:0])]

            attempt(f"TYPE_CREATE t={canon(types_)} o={opt} x={exclude}", mk)

# --------------------------------------------------------------------------
# 3. Combinations over the groupings
# --------------------------------------------------------------------------


class Recorder:
    """Wraps a filter and records what it was called with (dtype, shape, values)"""

    def __init__(self, name, fn):
        self.name, self.fn, self.calls = name, fn, []

    def __call__(self, data):
        self.calls.append(dump(np.array(data, copy=True)) if not isinstance(data, np.ndarray) else dump(data))
        return self.fn(data)


def chord_filters(size, keys):
    yield "none", None
    yield "eq21", PtnFilterChord.create([([2, 1] * 2)[:size]], keys).filter
    yield "any_lower", PtnFilterChord.create(
        [([2, 1] * 2)[:size]], keys, CO.ANY_ORDER | CO.AND_LOWER
    ).filter
    yield "higher_x", PtnFilterChord.create(
        [[2] * size], keys, CO.AND_HIGHER, True
    ).filter
    yield "ones", PtnFilterChord.create([[1] * size], keys).filter


def combo_filters(size, keys):
    yield "none", None
    yield "jack", PtnFilterCombo.create([[0] * size], keys, BO.REPEAT).filter
    yield "nojack", PtnFilterCombo.create([[0] * size], keys, BO.REPEAT, True).filter
    if keys >= 2:
        yield "stair", PtnFilterCombo.create(
            [[i % 2 for i in range(size)]], keys, BO.REPEAT | BO.HMIRROR | BO.VMIRROR
        ).filter


def type_filters(size):
    yield "none", None
    yield "notail", PtnFilterType.create(
        [[HoldTail] + [object] * (size - 1)], TO.ANY_ORDER, True
    ).filter
    yield "hits", PtnFilterType.create([[Hit] * size]).filter
    yield "holdhit_m", PtnFilterType.create(
        [[Hold] + [Hit] * (size - 1)], TO.MIRROR
    ).filter


n_combo_cases = 0
for gi, (name, keys, v, h, aj, groups) in enumerate(ALL_GROUPINGS):
    # a deterministic thinning so the demo stays fast; edge cases all kept
    if name.startswith("rnd") and gi % 11 != 0:
        continue
    if name.startswith("FROM_NL") and gi % 3 != 0:
        continue
    groups_before = dump(groups)
    ptn = PtnCombo(groups)
    for size in (2, 3, 4):
        if prod_top(groups, size) > 3000:
            continue
        variants = list(
            itertools.product(
                chord_filters(size, keys), combo_filters(size, keys), type_filters(size)
            )
        )
        # all-none, each single filter, and a rotating sample of full mixes
        chosen = [
            t
            for i, t in enumerate(variants)
            if sum(f[1] is not None for f in t) <= 1 or (i + gi) % 17 == 0
        ]
        for (cn, cf), (bn, bf), (tn, tf) in chosen:
            for ms2 in (True, False):
                rec = [
                    Recorder("chord", cf) if cf else None,
                    Recorder("combo", bf) if bf else None,
                    Recorder("type", tf) if tf else None,
                ]
                lab = (
                    f"COMBOS {name} v={v} h={h} aj={aj} size={size} ms2={ms2} "
                    f"chord={cn} combo={bn} type={tn}"
                )
                attempt(
                    lab,
                    lambda: ptn.combinations(
                        size=size,
                        make_size2=ms2,
                        chord_filter=rec[0],
                        combo_filter=rec[1],
                        type_filter=rec[2],
                    ),
                )
                for r in rec:
                    if r is not None:
                        emit(lab, "CALLS", r.name, len(r.calls), hashlib.sha256("\n".join(r.calls).encode()).hexdigest())
                n_combo_cases += 1
    # odd sizes
    for size in (1, 5, len(groups), len(groups) + 1):
        if size >= 1 and prod_top(groups, size) <= 3000:
            attempt(f"COMBOS {name} v={v} h={h} aj={aj} size={size} plain", lambda: ptn.combinations(size=size))
    # templates
    if prod_top(groups, 4) <= 3000:
        for pr, se, al, ij in ((2, 1, False, False), (3, 2, True, False), (1, 1, False, True), (2, 2, True, True)):
            attempt(
                f"TPL_CS {name} v={v} h={h} aj={aj} {pr},{se},{al},{ij}",
                lambda: ptn.template_chord_stream(pr, se, max(keys, 1), al, ij),
            )
        for ml in (1, 2, 3, 4):
            attempt(
                f"TPL_JACK {name} v={v} h={h} aj={aj} ml={ml}",
                lambda: ptn.template_jacks(ml, max(keys, 1)),
            )
    emit("GROUPS_KEPT", name, v, h, aj, groups_before == dump(groups))

# --------------------------------------------------------------------------
# 4. PtnFilterChord.create: randomised base chords x every option mask,
#    including sizes above ``keys``, zero / negative sizes, empty input
# --------------------------------------------------------------------------
def chord_case(label, sizes, keys, opt, exclude):
    def mk():
        f = PtnFilterChord.create(sizes, keys, opt, exclude)
        width = f.ar.shape[1] if f.ar.ndim == 2 else 0
        cands = list(itertools.product(range(0, min(keys, 4) + 3), repeat=width))
        probe = []
        for cand in cands[:: max(1, len(cands) // 60)]:
            try:
                probe.append(f.filter(np.array(cand)))
            except Exception as e:  # noqa
                probe.append(type(e).__name__)
        return [f.ar, f.keys, f.invert_filter, probe]

    attempt(f"CHORD_RND {label} k={keys} s={sizes} o={opt} x={exclude}", mk)


for case in range(60):
    keys = random.choice([0, 1, 2, 3, 4, 5, 6, 7])
    width = random.choice([1, 2, 2, 3, 3, 4])
    rows = random.choice([1, 1, 2, 3])
    sizes = [
        [random.randint(-1 if case % 10 == 0 else 0 if case % 5 == 0 else 1, keys + 1) for _ in range(width)]
        for _ in range(rows)
    ]
    for opt in range(8):
        chord_case(case, sizes, keys, opt, bool(case % 2))
for sizes in ([[]], [], [[], []], [[1.0, 2.0]], [[1, 2], [3]], 3, [[True, False]], [["a", "b"]]):
    for keys in (0, 4):
        for opt in range(8):
            chord_case("odd", sizes, keys, opt, False)
for sizes in ([[2, 1]], np.array([[2, 1]]), np.array([[2, 1]], dtype="int32"), ((2, 1),), [np.int64(2), np.int64(1)]):
    for keys in (4, np.int64(4)):
        for opt in range(8):
            chord_case("kinds", sizes if not isinstance(sizes, np.ndarray) else sizes, keys, opt, True)

text = "\n".join(OUT)
print(f"lines={len(OUT)} combo_cases={n_combo_cases}", file=sys.stderr)
print("DIGEST", hashlib.sha256(text.encode()).hexdigest())
if len(sys.argv) > 1:
    open(sys.argv[1], "w").write(text)
