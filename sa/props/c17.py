"""C17 — full-LN generation keeps every note and fills gaps by the stated rule (DESIGN §5 C17)."""
from __future__ import annotations

import ast
from typing import Dict, List, Optional, Tuple

from ..model import AnalysisError, walk_no_nested, params_of, HITLIST, HOLDLIST, MAP
from .. import report as R
from ..report import RuleSpec
from .. import sym
from ..flow import ctor_kwargs
from .common import unparse, call_name, local_defs, concrete_classes, short

FULL_LN = "reamber.algorithms.generate.full_ln.full_ln"


def _fn(ctx):
    return ctx.M.fn(FULL_LN)


def _row_loop(fn) -> Tuple[ast.For, ast.For]:
    """(outer loop over column groups, inner loop over rows)"""
    for n in walk_no_nested(fn.node):
        if isinstance(n, ast.For):
            for m in ast.walk(n):
                if m is not n and isinstance(m, ast.For) and isinstance(m.iter, ast.Call) and call_name(m.iter) in (
                        "itertuples", "iterrows"):
                    return n, m
    raise AnalysisError("full_ln: per-column / per-row loops not found")


def _branch_paths(body: List[ast.stmt], conds=()) -> List[Tuple[tuple, List[ast.stmt], str]]:
    """[(conditions, simple statements, exit)] for every path through an if/else tree"""
    paths = [(tuple(conds), [], "fall")]
    for s in body:
        nxt = []
        for c, st, ex in paths:
            if ex != "fall":
                nxt.append((c, st, ex))
                continue
            if isinstance(s, ast.If):
                for sub in _branch_paths(s.body, ()):
                    nxt.append((c + ((s.test, True),) + sub[0], st + sub[1], sub[2]))
                for sub in _branch_paths(s.orelse, ()):
                    nxt.append((c + ((s.test, False),) + sub[0], st + sub[1], sub[2]))
            elif isinstance(s, ast.Continue):
                nxt.append((c, st, "continue"))
            elif isinstance(s, ast.Break):
                nxt.append((c, st, "break"))
            elif isinstance(s, ast.Return):
                nxt.append((c, st + [s], "return"))
            elif isinstance(s, (ast.For, ast.While, ast.Try, ast.With)):
                nxt.append((c, st + [s], "opaque"))
            else:
                nxt.append((c, st + [s], ex))
        paths = nxt
    return paths


def _appends(stmts) -> List[Tuple[str, ast.Call]]:
    out = []
    for s in stmts:
        for n in ast.walk(s):
            if isinstance(n, ast.Call) and call_name(n) == "append" and isinstance(n.func.value, ast.Name):
                out.append((n.func.value.id, n))
    return out


def rule_r1(ctx) -> List[R.Inst]:
    M = ctx.M
    rid = "C17.R1"
    fn = _fn(ctx)
    file = M.mods[fn.mod].rel
    outer, inner = _row_loop(fn)
    insts = []
    # row variables: positional unpack must match the projected columns (+ the added gap column)
    proj = None
    for n in walk_no_nested(fn.node):
        if isinstance(n, ast.Subscript) and isinstance(n.value, ast.Attribute) and n.value.attr == "loc" and \
                isinstance(n.slice, ast.Tuple) and len(n.slice.elts) == 2 and isinstance(n.slice.elts[1], ast.List):
            proj = [e.value for e in n.slice.elts[1].elts if isinstance(e, ast.Constant)]
    added = [n.targets[0].slice.value for n in ast.walk(outer) if isinstance(n, ast.Assign) and
             isinstance(n.targets[0], ast.Subscript) and isinstance(n.targets[0].slice, ast.Constant) and
             isinstance(n.targets[0].value, ast.Name) and isinstance(outer.target, ast.Tuple) and
             n.targets[0].value.id == getattr(outer.target.elts[-1], "id", None)]
    names = [t.id for t in inner.target.elts] if isinstance(inner.target, ast.Tuple) else []
    idx_false = any(k.arg == "index" and isinstance(k.value, ast.Constant) and k.value.value is False for k in inner.iter.keywords)
    cols = (proj or []) + added
    if proj is None or not names:
        insts.append(R.undec(rid, "row-unpack", file, inner.lineno, "projection / row unpacking not recognised"))
    elif names == cols and idx_false:
        insts.append(R.ok(rid, "row-unpack", file, inner.lineno, idiom=f"rows unpacked as {names} = projected columns + added"))
    else:
        insts.append(R.viol(rid, "row-unpack", file, inner.lineno,
                            f"rows are unpacked positionally as {names} but the frame's columns are {cols}"
                            f"{'' if idx_false else ' preceded by the index'}: values land in the wrong variables",
                            construct=f"{names} vs {cols}"))
    # every column group reaches the per-row loop: no early exit from the per-column body before it
    pre = []
    for st in outer.body:
        if st is inner or any(x is inner for x in ast.walk(st)):
            break
        pre.append(st)
    early = [(c, ex) for c, sts, ex in _branch_paths(pre) if ex != "fall"]
    if early:
        c, ex = early[0]
        ctxt = " and ".join(("" if pol else "not ") + f"({unparse(t)})" for t, pol in c) or "always"
        insts.append(R.viol(rid, "column-groups", file, outer.lineno,
                            f"when [{ctxt}] a whole column is skipped ({ex}) before its notes are processed: the result lists are "
                            f"rebuilt from scratch, so those notes disappear", construct=f"per-column body: {ctxt} -> {ex}"))
    else:
        insts.append(R.ok(rid, "column-groups", file, outer.lineno, idiom="every column group reaches the per-row loop"))
    # every path appends exactly one note carrying the row's offset and column
    paths = _branch_paths(inner.body)
    bad = 0
    for conds, stmts, ex in paths:
        apps = [(nm, c) for nm, c in _appends(stmts) if nm in ("hits", "holds")]
        cond_txt = " and ".join(("" if pol else "not ") + f"({unparse(t)})" for t, pol in conds) or "always"
        key = f"path:{cond_txt[:70]}"
        if ex in ("break", "return", "opaque"):
            insts.append(R.viol(rid, key, file, inner.lineno, f"a row path leaves the loop early ({ex}): later notes of the column are lost",
                                construct=f"{cond_txt}: {ex}"))
            bad += 1
            continue
        if len(apps) != 1:
            insts.append(R.viol(rid, key, file, inner.lineno,
                                f"on the path [{cond_txt}] a note produces {len(apps)} output notes (must be exactly one)",
                                construct=f"{cond_txt}: {len(apps)} appends"))
            bad += 1
            continue
        nm, call = apps[0]
        kw = ctor_kwargs(call.args[0]) if call.args else None
        if not kw or unparse(kw.get("offset", ast.Constant(value=None))) != "offset" or \
                unparse(kw.get("column", ast.Constant(value=None))) != "column":
            insts.append(R.viol(rid, key, file, call.lineno, "the output note does not carry the input row's offset and column unchanged",
                                construct=unparse(call)))
            bad += 1
            continue
        if nm == "holds" and "length" not in kw:
            insts.append(R.viol(rid, key, file, call.lineno, "a hold is produced without a length", construct=unparse(call)))
            bad += 1
            continue
        if nm == "hits" and "length" in kw:
            insts.append(R.viol(rid, key, file, call.lineno, "a hit is produced with a length", construct=unparse(call)))
            bad += 1
            continue
        insts.append(R.ok(rid, key, file, call.lineno, idiom=f"exactly one {nm[:-1]}(offset, column{', length' if nm == 'holds' else ''})"))
    return insts


def rule_r2(ctx) -> List[R.Inst]:
    M = ctx.M
    rid = "C17.R2"
    fn = _fn(ctx)
    file = M.mods[fn.mod].rel
    outer, inner = _row_loop(fn)
    ps = params_of(fn.node)
    gap, thres = ps[1], ps[2]
    insts = []
    # (0) the caller's gap and threshold are used as given (0 is a legal value for both)
    from .. import cmp as P
    for prm in (gap, thres):
        rb = P.rebinds(fn.node, prm)
        if rb:
            insts.append(R.viol(rid, f"parameter:{prm}", file, rb[0].lineno,
                                f"'{prm}' is replaced before use ('{unparse(rb[0])}'): with `x or default` an explicit 0 silently becomes "
                                f"the default, so gap = 0 / threshold = 0 do not follow the stated rule", construct=unparse(rb[0])))
        else:
            insts.append(R.ok(rid, f"parameter:{prm}", file, fn.node.lineno, idiom=f"'{prm}' is never rebound"))
    # (a) sorted by offset, then grouped by column
    grp = None
    for n in walk_no_nested(fn.node):
        if isinstance(n, ast.Call) and call_name(n) == "groupby":
            grp = n
    if grp is None:
        insts.append(R.undec(rid, "sort-then-group", file, fn.node.lineno, "groupby not found"))
    else:
        chain = []
        e = grp
        while isinstance(e, ast.Call) and isinstance(e.func, ast.Attribute):
            chain.insert(0, e)
            e = e.func.value
        names = [c.func.attr for c in chain]
        gkey = unparse(grp.args[0]).strip("'\"[]") if grp.args else ""
        srt = [c for c in chain if c.func.attr == "sort_values"]
        skey = unparse(srt[0].args[0]).strip("'\"[]") if srt and srt[0].args else ""
        desc = srt and any(k.arg == "ascending" and unparse(k.value) == "False" for k in srt[0].keywords)
        if srt and names.index("sort_values") < names.index("groupby") and skey == "offset" and gkey == "column" and not desc:
            insts.append(R.ok(rid, "sort-then-group", file, grp.lineno, idiom="sort_values(offset) then groupby(column): each group is one column in time order"))
        else:
            insts.append(R.viol(rid, "sort-then-group", file, grp.lineno,
                                f"notes must be ordered by time and then split per column (found sort key '{skey or 'none'}'"
                                f"{' descending' if desc else ''}, group key '{gkey}'): 'next note of the column' is otherwise "
                                f"not the next row", construct=" . ".join(names) + f" sort={skey} group={gkey}"))
    # (b) gap to next = diff().shift(-1) of the offset
    d = [n for n in ast.walk(outer) if isinstance(n, ast.Assign) and isinstance(n.targets[0], ast.Subscript) and
         isinstance(n.targets[0].slice, ast.Constant) and n.targets[0].slice.value == "diff"]
    if len(d) != 1:
        insts.append(R.undec(rid, "gap-to-next", file, outer.lineno, "computation of the gap to the next note not found"))
    else:
        v = d[0].value
        chain = []
        e = v
        while isinstance(e, ast.Call) and isinstance(e.func, ast.Attribute):
            chain.insert(0, e)
            e = e.func.value
        sig = [(c.func.attr, [unparse(a) for a in c.args] + [f"{k.arg}={unparse(k.value)}" for k in c.keywords]) for c in chain]
        base = unparse(e).replace('"', "'")
        # symbolic index algebra: diff() -> x[i]-x[i-1]; shift(-1) -> value at i+1  => x[i+1]-x[i]
        good = sig == [("diff", []), ("shift", ["-1"])] and base.endswith("['offset']")
        alt = sig == [("shift", ["-1"])] and False
        # equivalent: x.shift(-1) - x
        if isinstance(v, ast.BinOp) and isinstance(v.op, ast.Sub):
            l, r = unparse(v.left).replace('"', "'"), unparse(v.right).replace('"', "'")
            good = l.endswith("['offset'].shift(-1)") and r.endswith("['offset']") and l.startswith(r)
        if good:
            insts.append(R.ok(rid, "gap-to-next", file, d[0].lineno, idiom="offset.diff().shift(-1) = next offset - own offset"))
        elif [s[0] for s in sig] and set(s[0] for s in sig) <= {"diff", "shift"}:
            insts.append(R.viol(rid, "gap-to-next", file, d[0].lineno,
                                f"the gap must be (next note's time - own time) = diff().shift(-1); found {unparse(v)}",
                                construct=unparse(v)))
        else:
            insts.append(R.undec(rid, "gap-to-next", file, d[0].lineno, f"gap expression not recognised: {unparse(v)}"))
    # (c) inv_length = diff - gap
    il = local_defs(inner, "inv_length")
    if len(il) == 1 and isinstance(il[0], ast.Call) and call_name(il[0]) in ("max", "min", "abs", "clip", "round", "int"):
        insts.append(R.viol(rid, "hold-length", file, il[0].lineno,
                            f"the length compared with the threshold is '{unparse(il[0])}', not (gap to next) - {gap} itself: clamping or "
                            f"rounding changes the hit/hold decision (with threshold 0 a note closer than '{gap}' to the next one "
                            f"becomes a zero-length hold instead of a hit)", construct=unparse(il[0])))
    elif len(il) == 1 and sym.same_formula(il[0], f"diff - {gap}"):
        insts.append(R.ok(rid, "hold-length", file, il[0].lineno, idiom=f"length = gap to next - {gap}: the hold ends exactly {gap} before the next note"))
    elif len(il) == 1 and sym.only_modelled(il[0], {"diff", gap, thres}):
        insts.append(R.viol(rid, "hold-length", file, il[0].lineno,
                            f"a generated hold must end exactly '{gap}' before the next note: length = (gap to next) - {gap}",
                            construct=unparse(il[0])))
    else:
        insts.append(R.undec(rid, "hold-length", file, inner.lineno, "hold length expression not recognised"))
    # (d) decision table over the paths
    paths = _branch_paths(inner.body)

    def cls(t: ast.AST) -> Optional[str]:
        u = unparse(t)
        if u in ("np.isnan(diff)", "pd.isna(diff)", "isnan(diff)"):
            return "last"
        if u in ("np.isnan(length)", "pd.isna(length)", "isnan(length)"):
            return "was_hit"
        if isinstance(t, ast.Compare) and len(t.ops) == 1:
            l, r = unparse(t.left), unparse(t.comparators[0])
            op = type(t.ops[0])
            # a local that folds the last-note case into the compared value: x = length if isnan(diff) else diff - gap
            for side in (l, r):
                ds = local_defs(inner, side) if side.isidentifier() else []
                if len(ds) == 1 and isinstance(ds[0], ast.IfExp) and "isnan(diff)" in unparse(ds[0].test).replace("np.", "").replace("pd.", ""):
                    return "folded"
            if l == "inv_length" and r == thres:
                return {ast.GtE: "long_enough", ast.Gt: "long_enough_strict", ast.Lt: "!long_enough", ast.LtE: "!long_enough_strict"}.get(op)
            if r == "inv_length" and l == thres:
                return {ast.LtE: "long_enough", ast.Lt: "long_enough_strict", ast.Gt: "!long_enough", ast.GtE: "!long_enough_strict"}.get(op)
        return None
    table = {}
    und = False
    for conds, stmts, ex in paths:
        facts = {}
        for t, pol in conds:
            c = cls(t)
            if c is None:
                und = True
                continue
            if c.startswith("!"):
                c, pol = c[1:], not pol
            facts[c] = pol
        apps = [(nm, call) for nm, call in _appends(stmts) if nm in ("hits", "holds")]
        if len(apps) == 1:
            kw = ctor_kwargs(apps[0][1].args[0]) or {}
            table[tuple(sorted(facts.items()))] = (apps[0][0], unparse(kw["length"]) if "length" in kw else None)
    folded = any(cls(t) == "folded" for conds, _, _ in paths for t, _ in conds)
    if folded:
        insts.append(R.viol(rid, "decision-table", file, inner.lineno,
                            "the last note of a column is sent through the threshold test with its own length: a final hold shorter than "
                            "the threshold is turned into a hit, although the last note keeps its kind and length",
                            construct="last-note case folded into the threshold comparison"))
    elif und:
        insts.append(R.undec(rid, "decision-table", file, inner.lineno, "a branch condition is not one of: last note / was a hit / long enough"))
    else:
        want = {
            (("last", True), ("was_hit", True)): ("hits", None),
            (("last", True), ("was_hit", False)): ("holds", "length"),
            (("last", False), ("long_enough", True)): ("holds", "inv_length"),
            (("last", False), ("long_enough", False)): ("hits", None),
        }
        strict = any("long_enough_strict" in dict(k) for k in table)
        got = {tuple((a.replace("_strict", ""), b) for a, b in k): v for k, v in table.items()}
        probs = []
        if strict:
            probs.append("the threshold comparison is strict: a gap that leaves exactly the threshold length becomes a hit, the rule says 'at least'")
        for k, v in want.items():
            kk = tuple(sorted(k))
            if got.get(kk) != v:
                probs.append(f"case {dict(k)} yields {got.get(kk)} instead of {v}")
        if probs:
            insts.append(R.viol(rid, "decision-table", file, inner.lineno, "; ".join(probs), construct="; ".join(probs)))
        else:
            insts.append(R.ok(rid, "decision-table", file, inner.lineno,
                              idiom="last note keeps kind and length; otherwise hold(gap-to-next - gap) iff >= threshold else hit"))
    return insts


def rule_r3(ctx) -> List[R.Inst]:
    M, E = ctx.M, ctx.E
    rid = "C17.R3"
    fn = _fn(ctx)
    file = M.mods[fn.mod].rel
    insts = []
    s = E.summary(FULL_LN)
    if s.mut:
        (p, f), sites = sorted(s.mut.items())[0]
        insts.append(R.viol(rid, "works-on-copy", file, sites[0].line, f"full_ln modifies its input '{p}': {sites[0].text}",
                            construct=sites[0].text))
    else:
        insts.append(R.ok(rid, "works-on-copy", file, fn.node.lineno, idiom="every write is rooted in m.deepcopy()"))
    p0 = params_of(fn.node)[0]
    written = sorted({n.targets[0].attr for n in walk_no_nested(fn.node) if isinstance(n, ast.Assign) and
                      isinstance(n.targets[0], ast.Attribute) and isinstance(n.targets[0].value, ast.Name) and
                      n.targets[0].value.id == p0})
    if written == ["hits", "holds"]:
        insts.append(R.ok(rid, "write-set", file, fn.node.lineno, idiom="only hits and holds of the copy are reassigned"))
    else:
        insts.append(R.viol(rid, "write-set", file, fn.node.lineno,
                            f"full_ln reassigns {written}; only the hit and hold lists may change (tempo and other lists stay)",
                            construct=f"writes {written}"))
    # the new lists are built by the chart's own list classes from the collected dicts
    for slot in ("hits", "holds"):
        a = [n for n in walk_no_nested(fn.node) if isinstance(n, ast.Assign) and isinstance(n.targets[0], ast.Attribute) and
             n.targets[0].attr == slot]
        key = f"rebuild:{slot}"
        if len(a) == 1 and isinstance(a[0].value, ast.Call) and call_name(a[0].value) == "from_dict" and \
                unparse(a[0].value.func.value) in (f"type({p0}.{slot})", f"{p0}.{slot}.__class__") and \
                a[0].value.args and unparse(a[0].value.args[0]) == slot:
            insts.append(R.ok(rid, key, file, a[0].lineno, idiom=f"type(m.{slot}).from_dict({slot})"))
        else:
            insts.append(R.viol(rid, key, file, (a[0] if a else fn.node).lineno,
                                f"m.{slot} must be rebuilt by its own list class from the collected '{slot}' records",
                                construct=unparse(a[0]) if a else f"no assignment to {slot}"))
    return insts


def stack_filter_classes(ctx) -> List[str]:
    """list base classes the notes are selected by: m.stack((HitList, HoldList))"""
    M = ctx.M
    fn = _fn(ctx)
    for n in walk_no_nested(fn.node):
        if isinstance(n, ast.Call) and call_name(n) == "stack" and n.args:
            a = n.args[0]
            elts = a.elts if isinstance(a, (ast.Tuple, ast.List)) else [a]
            out = []
            for e in elts:
                r = M.resolve_expr(fn.mod, e)
                if r and r[0] == "class":
                    out.append(r[1])
            return out
    return []


def rule_r4(ctx) -> List[R.Inst]:
    M = ctx.M
    rid = "C17.R4"
    fn = _fn(ctx)
    file = M.mods[fn.mod].rel
    flt = stack_filter_classes(ctx)
    if sorted(flt) != sorted([HITLIST, HOLDLIST]):
        return [R.viol(rid, "note-filter", file, fn.node.lineno,
                       f"notes are selected by {[short(c) for c in flt] or 'no type filter'}; the rule is about hits and holds",
                       construct=f"stack filter {[short(c) for c in flt]}")]
    insts = [R.ok(rid, "note-filter", file, fn.node.lineno, idiom="stack((HitList, HoldList))")]
    for chart in concrete_classes(M, "chart"):
        slots = M.map_slots(chart)
        read = sorted(s for s, lc in slots.items() if any(M.is_sub(lc, b) for b in flt))
        key = f"{chart.rsplit('.', 1)[1]}:read=write"
        cfile = M.mods[M.cls(chart).mod].rel
        if read == ["hits", "holds"]:
            insts.append(R.ok(rid, key, cfile, M.cls(chart).node.lineno, idiom="lists selected by the filter = lists rewritten (hits, holds)"))
        else:
            extra = [s for s in read if s not in ("hits", "holds")]
            insts.append(R.viol(rid, key, cfile, M.cls(chart).node.lineno,
                                f"the note filter also selects {extra} (hit/hold-typed lists of this game); their objects are folded "
                                f"into the new hits/holds AND kept in their own lists: the result has more notes than the input",
                                construct=f"{chart.rsplit('.', 1)[1]}: reads {read}, writes ['hits', 'holds']"))
    return insts


def rule_dep(ctx):
    """obligations inherited from shared code reached through the call graph (sa/props/deps.py)"""
    from .deps import dep_insts
    return dep_insts(ctx, "C17", [FULL_LN], skip_groups=())


SPECS = [
    RuleSpec("C17.R1", rule_r1, 6, "A8", "one output note per input note on every path, carrying offset and column; positional row unpack"),
    RuleSpec("C17.R2", rule_r2, 6, "A7", "sorted by time then grouped by column; gap = next - own; length = gap - 'gap'; decision table"),
    RuleSpec("C17.R3", rule_r3, 4, "A3", "works on a deep copy; reassigns only hits and holds, rebuilt by their own classes"),
    RuleSpec("C17.R4", rule_r4, 7, "A2", "lists selected by the note filter = lists rewritten, for every chart class"),
    RuleSpec("C17.D", rule_dep, 1, "M0", "rules of the shared code (timing engine, list classes, stacker) that the operations of this property reach"),
]

META = dict(
    explanation=(
        "full_ln: every path through the per-row body (enumerated with its branch conditions) appends exactly one note "
        "carrying the row's offset and column, rows are unpacked in the order of the projected columns; notes are "
        "sorted by offset and then grouped by column, the gap to the next note is diff().shift(-1) of the offsets "
        "(symbolic index algebra), a generated hold has length gap-to-next minus 'gap', and the decision table over the "
        "three conditions (last note of the column / was a hit / at least the threshold) equals the stated rule; the "
        "function works on a deep copy (effect analysis) and reassigns only hits and holds through their own list "
        "classes; and for every chart class the lists selected by the (HitList, HoldList) filter are exactly the lists "
        "rewritten."),
    not_decided="notes stacked at one time in one column (either processing order accepted), float comparison at the threshold",
)
