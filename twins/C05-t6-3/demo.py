"""Demo for C05 refactoring 3 (find_lcm: index loops -> itertools.permutations / zip).

Calls find_lcm directly on many generated denominator lists (result values AND types,
plus the in-place mutation of the argument), then writes a set of BMS charts whose
LCM line splitting depends on it.  Prints one line: DIGEST <sha256>.
"""
import hashlib
import random
import warnings
from fractions import Fraction

import numpy as np

from reamber.algorithms.timing.utils.find_lcm import find_lcm
from reamber.bms.BMSMap import BMSMap
from reamber.bms.BMSChannel import BMSChannel
from reamber.bms.BMSHit import BMSHit
from reamber.bms.BMSHold import BMSHold
from reamber.bms.BMSBpm import BMSBpm
from reamber.bms.lists.BMSBpmList import BMSBpmList
from reamber.bms.lists.notes.BMSHitList import BMSHitList
from reamber.bms.lists.notes.BMSHoldList import BMSHoldList

warnings.simplefilter("ignore")
random.seed(50503)
np.random.seed(50503)

OUT = []


def emit(*a):
    OUT.append(" ".join(str(x) for x in a))


def show(x):
    return f"{type(x).__name__}:{x!r}"


def lcm_case(tag, a, threshold):
    before = [show(x) for x in a]
    ident = id(a)
    try:
        r = find_lcm(a, threshold)
        emit("LCM", tag, "thr", threshold, "in", before)
        emit("   ret", type(r).__name__, [show(x) for x in r], "same_obj_as_input", r is a)
    except Exception as e:  # noqa
        emit("LCM", tag, "thr", threshold, "in", before, "raised", type(e).__name__)
    emit("   arg after", type(a).__name__, [show(x) for x in a], id(a) == ident)


DENS = [1, 2, 3, 4, 5, 6, 7, 8, 9, 12, 16, 32, 64, 96]

# --- direct calls ---------------------------------------------------------------
lcm_case("empty", [], 100)
lcm_case("single", [4], 100)
lcm_case("single_big", [384], 100)
lcm_case("pair_eq", [4, 4], 100)
lcm_case("pair_small", [4, 8], 100)
lcm_case("pair_big", [64, 96], 100)
lcm_case("docstring", [1, 2, 3, 5], 15)
lcm_case("docstring9", [1, 2, 3, 5], 9)
lcm_case("docstring5", [1, 2, 3, 5], 5)
lcm_case("all_ones", [1, 1, 1, 1], 100)
lcm_case("with_zero", [0, 4, 8], 100)
lcm_case("zeros", [0, 0], 100)
lcm_case("neg", [-4, 6, 8], 100)
lcm_case("thr0", [4, 8, 12], 0)
lcm_case("thr_neg", [4, 8, 12], -5)
lcm_case("thr_exact", [4, 6], 12)
lcm_case("thr_exact1", [4, 6], 13)
lcm_case("np_ints", [np.int64(4), np.int64(12), np.int64(16)], 100)
lcm_case("mixed_np", [4, np.int64(12), 16, np.int32(3)], 100)
lcm_case("with_none", [4, None, 8, None], 100)
lcm_case("floats", [4.0, 8.0], 100)
lcm_case("strs", ["4", "8"], 100)
lcm_case("tuple_arg", (4, 8), 100)
lcm_case("tuple_single", (4,), 100)
lcm_case("nparray_arg", np.array([4, 8, 12]), 100)
for k in range(60):
    n = random.randint(0, 12)
    style = k % 4
    if style == 0:      # what the BMS writer passes: beat denominator * 4
        a = [random.choice(DENS) * 4 for _ in range(n)]
    elif style == 1:    # small numbers with many ties
        a = [random.choice([1, 2, 3, 4, 6]) for _ in range(n)]
    elif style == 2:    # anything
        a = [random.randint(1, 120) for _ in range(n)]
    else:               # sorted / reverse sorted
        a = sorted((random.choice(DENS) * random.choice([1, 4]) for _ in range(n)), reverse=bool(k % 8 == 3))
    lcm_case(f"rand{k}", a, random.choice([100, 100, 100, 50, 200, 385, 17]))

# --- through the BMS writer -------------------------------------------------------
LAYOUTS = {"BMS": BMSChannel.BMS, "BME": BMSChannel.BME, "PMS": BMSChannel.PMS,
           "PMS_BME": BMSChannel.PMS_BME, "PMS_5B": BMSChannel.PMS_5B}
SAMPLES = {b"01": b"kick.wav", b"02": b"snare.wav", b"0A": b"hat.wav"}


def chart(layout, n_bpm, n_hit, n_hold, off_grid, shuffle):
    cols = sorted(v for v in layout.values() if isinstance(v, int))
    pts, off = [], 0.0
    for _ in range(n_bpm):
        bpm = random.choice([60, 90, 120, 150, 200, 133.33])
        pts.append((off, bpm))
        off += random.randint(1, 3) * 4 * 60000.0 / bpm
    used = set()

    def pick():
        while True:
            i = random.randrange(len(pts))
            den = random.choice(DENS)
            beat = Fraction(random.randrange(0, 4 * den), den)
            col = random.choice(cols)
            if (i, beat, col) in used:
                continue
            used.add((i, beat, col))
            t = pts[i][0] + float(beat) * 60000.0 / pts[i][1]
            if off_grid:
                t = max(0.0, t + random.uniform(-0.4, 0.4))
            return t, col

    hits = [BMSHit(*pick(), random.choice([b"kick.wav", b"", b"x.wav"])) for _ in range(n_hit)]
    holds = []
    for _ in range(n_hold):
        t, c = pick()
        holds.append(BMSHold(t, c, random.choice([1, 2, 3]) * 60000.0 / pts[0][1] / random.choice([1, 2, 3, 4]),
                             random.choice([b"snare.wav", b""])))
    bpms = [BMSBpm(o, b) for o, b in pts]
    if shuffle:
        random.shuffle(hits), random.shuffle(holds), random.shuffle(bpms)
    m = BMSMap()
    m.title, m.artist, m.version = b"t", b"a", b"1"
    m.samples = dict(SAMPLES)
    m.bpms, m.hits, m.holds = BMSBpmList(bpms), BMSHitList(hits), BMSHoldList(holds)
    return m


def dump_list(name, lst):
    df = lst.df
    emit(name, list(df.columns), [str(t) for t in df.dtypes], list(df.index))
    for row in df.itertuples():
        emit("  ", tuple(repr(x) for x in row))


k = 0
for name, layout in LAYOUTS.items():
    for off_grid in (False, True):
        for n_hit, n_hold in ((0, 0), (40, 0), (0, 10), (60, 12)):
            k += 1
            m = chart(layout, random.randint(1, 5), n_hit, n_hold, off_grid, bool(k % 2))
            emit("=== WRITE", k, name, off_grid, n_hit, n_hold)
            try:
                b = m.write(note_channel_config=layout)
                for ln in b.split(b"\r\n"):
                    emit("  L", ln.hex())
                r = BMSMap.read(b.decode("shift_jis").split("\r\n"), note_channel_config=layout)
                dump_list("rb.hits", r.hits), dump_list("rb.holds", r.holds), dump_list("rb.bpms", r.bpms)
            except Exception as e:  # noqa
                emit("  raised", type(e).__name__)
            dump_list("after.hits", m.hits), dump_list("after.holds", m.holds), dump_list("after.bpms", m.bpms)

print("DIGEST", hashlib.sha256("\n".join(OUT).encode()).hexdigest())
