import dataclasses
import hashlib
import random
import warnings
from pathlib import Path

import numpy as np
import pandas as pd

from reamber.algorithms.convert import *  # noqa: F401,F403
from reamber.algorithms.convert import (
    BMSToOsu, BMSToQua, BMSToSM, O2JToBMS, O2JToOsu, O2JToQua, O2JToSM,
    OsuToBMS, OsuToQua, OsuToSM, QuaToBMS, QuaToOsu, QuaToSM, SMToBMS,
    SMToOsu, SMToQua,
)
from reamber.base.lists.TimedList import TimedList
from reamber.base.Map import Map
from reamber.base.MapSet import MapSet
from reamber.bms.BMSBpm import BMSBpm
from reamber.bms.BMSHit import BMSHit
from reamber.bms.BMSHold import BMSHold
from reamber.bms.BMSMap import BMSMap
from reamber.bms.lists.BMSBpmList import BMSBpmList
from reamber.bms.lists.notes.BMSHitList import BMSHitList
from reamber.bms.lists.notes.BMSHoldList import BMSHoldList
from reamber.o2jam.O2JBpm import O2JBpm
from reamber.o2jam.O2JHit import O2JHit
from reamber.o2jam.O2JHold import O2JHold
from reamber.o2jam.O2JMap import O2JMap
from reamber.o2jam.O2JMapSet import O2JMapSet
from reamber.o2jam.lists.O2JBpmList import O2JBpmList
from reamber.o2jam.lists.notes.O2JHitList import O2JHitList
from reamber.o2jam.lists.notes.O2JHoldList import O2JHoldList
from reamber.osu.OsuBpm import OsuBpm
from reamber.osu.OsuHit import OsuHit
from reamber.osu.OsuHold import OsuHold
from reamber.osu.OsuMap import OsuMap
from reamber.osu.OsuSv import OsuSv
from reamber.osu.lists.OsuBpmList import OsuBpmList
from reamber.osu.lists.OsuSvList import OsuSvList
from reamber.osu.lists.notes.OsuHitList import OsuHitList
from reamber.osu.lists.notes.OsuHoldList import OsuHoldList
from reamber.quaver.QuaBpm import QuaBpm
from reamber.quaver.QuaHit import QuaHit
from reamber.quaver.QuaHold import QuaHold
from reamber.quaver.QuaMap import QuaMap
from reamber.quaver.QuaMapMeta import QuaMapMode
from reamber.quaver.QuaSv import QuaSv
from reamber.quaver.lists.QuaBpmList import QuaBpmList
from reamber.quaver.lists.QuaSvList import QuaSvList
from reamber.quaver.lists.notes.QuaHitList import QuaHitList
from reamber.quaver.lists.notes.QuaHoldList import QuaHoldList
from reamber.sm.SMBpm import SMBpm
from reamber.sm.SMHit import SMHit
from reamber.sm.SMHold import SMHold
from reamber.sm.SMMap import SMMap
from reamber.sm.SMMapMeta import SMMapChartTypes
from reamber.sm.SMMapSet import SMMapSet
from reamber.sm.lists.SMBpmList import SMBpmList
from reamber.sm.lists.notes.SMHitList import SMHitList
from reamber.sm.lists.notes.SMHoldList import SMHoldList

import logging

logging.disable(logging.CRITICAL)
warnings.simplefilter("ignore")

MAPS = Path("rsc/maps")
OUT = []  # the canonical text dump


def emit(*parts):
    OUT.append(" ".join(str(p) for p in parts))


# ---------------------------------------------------------------- dumping
def dump_value(v):
    if isinstance(v, TimedList):
        return dump_tl(v)
    if isinstance(v, (list, tuple)):
        return type(v).__name__ + "[" + ",".join(dump_value(i) for i in v) + "]"
    if isinstance(v, dict):
        return "{" + ",".join(f"{k!r}:{dump_value(i)}" for k, i in v.items()) + "}"
    return f"{type(v).__name__}:{v!r}"


def dump_tl(tl):
    df = tl.df
    parts = [
        type(tl).__name__,
        type(df).__name__,
        type(df.index).__name__,
        str(df.index.dtype),
        repr(df.index.tolist()),
        repr(list(df.columns)),
    ]
    for c in df.columns:
        col = df[c]
        parts.append(
            f"{c}|{col.dtype}|"
            + ",".join(f"{type(v).__name__}:{v!r}" for v in col.tolist())
        )
    return "<" + ";".join(parts) + ">"


def dump_obj(o):
    """Maps, map sets, lists of them"""
    if isinstance(o, (list, tuple)):
        return type(o).__name__ + "[" + " ## ".join(dump_obj(i) for i in o) + "]"
    if isinstance(o, MapSet):
        meta = [
            f"{f.name}={dump_value(getattr(o, f.name))}"
            for f in dataclasses.fields(o)
            if f.name != "maps"
        ]
        return (
            f"{type(o).__name__}(keys={list(vars(o))};{';'.join(meta)};maps="
            + dump_obj(o.maps)
            + ")"
        )
    if isinstance(o, Map):
        meta = [
            f"{f.name}={dump_value(getattr(o, f.name))}"
            for f in dataclasses.fields(o)
            if f.name != "objs"
        ]
        lists = [f"{k}={dump_tl(v)}" for k, v in o.objs.items()]
        return (
            f"{type(o).__name__}(keys={list(vars(o))};{';'.join(meta)};"
            f"{';'.join(lists)})"
        )
    return dump_value(o)


def maps_of(o):
    if isinstance(o, (list, tuple)):
        return [m for i in o for m in maps_of(i)]
    if isinstance(o, MapSet):
        return list(o.maps)
    if isinstance(o, Map):
        return [o]
    return []


def shares(src, res):
    """Does any column of the result alias a column of the source?"""
    out = []
    for ms in maps_of(src):
        for mr in maps_of(res):
            for ks, ls in ms.objs.items():
                for kr, lr in mr.objs.items():
                    for cs in ls.df.columns:
                        for cr in lr.df.columns:
                            a, b = ls.df[cs].to_numpy(), lr.df[cr].to_numpy()
                            if a.dtype != object and b.dtype != object:
                                if a.size and b.size and np.shares_memory(a, b):
                                    out.append((ks, cs, kr, cr))
    return out


def run(label, fn, src, **kwargs):
    """Runs one conversion, dumps result/exception and the source afterwards"""
    before = dump_obj(src)
    try:
        with warnings.catch_warnings(record=True) as w:
            warnings.simplefilter("always")
            res = fn(src, **kwargs)
        emit("CASE", label, sorted(kwargs.items()))
        emit("  WARN", sorted(f"{i.category.__name__}:{i.message}" for i in w))
        emit("  RES", dump_obj(res))
        emit("  SHARE", shares(src, res))
        # the result must own its data: editing it leaves the source alone
        for m in maps_of(res):
            for tl in m.objs.values():
                if len(tl):
                    tl.df.iloc[0, 0] = 123456
    except Exception as e:  # noqa
        emit("CASE", label, sorted(kwargs.items()))
        emit("  EXC", type(e).__name__, str(e)[:200])
    after = dump_obj(src)
    emit("  SRC_SAME", before == after)
    emit("  SRC", hashlib.sha256(after.encode()).hexdigest())


# ------------------------------------------------------------ generators
def rand_notes(rng, n, keys, kind):
    """offsets: unsorted, with ties, zero and negative values"""
    pool = [0.0, -250.0, 1000.0, 1000.0, 33.333333333333336, 1e6, 0.5]
    offs = [
        rng.choice(pool) if rng.random() < 0.3 else round(rng.uniform(-500, 60000), 3)
        for _ in range(n)
    ]
    cols = [rng.randrange(keys) for _ in range(n)]
    if kind == "hit":
        return offs, cols, None
    lens = [rng.choice([0.0, 1.0, 250.5, 4000.0, 1e-3]) for _ in range(n)]
    return offs, cols, lens


def rand_bpms(rng, n):
    offs = [rng.choice([0.0, -100.0, 5000.0, 5000.0, 12345.678]) if rng.random() < 0.4
            else round(rng.uniform(0, 60000), 2) for _ in range(n)]
    bpms = [rng.choice([120.0, 0.0, 1e-4, 999.99, 60.0, 240.0, 173.3]) for _ in range(n)]
    return offs, bpms


def mk_osu(rng, nh, nl, nb, ns, keys):
    m = OsuMap()
    o, c, _ = rand_notes(rng, nh, keys, "hit")
    m.hits = OsuHitList([OsuHit(a, b, hitsound_file=rng.choice(["", "a.wav"])) for a, b in zip(o, c)])
    o, c, l = rand_notes(rng, nl, keys, "hold")
    m.holds = OsuHoldList([OsuHold(a, b, d, volume=rng.randrange(100)) for a, b, d in zip(o, c, l)])
    o, b = rand_bpms(rng, nb)
    m.bpms = OsuBpmList([OsuBpm(a, d, kiai=rng.random() < 0.5) for a, d in zip(o, b)])
    o, b = rand_bpms(rng, ns)
    m.svs = OsuSvList([OsuSv(a, rng.choice([1.0, 0.0, -1.5, 10.0, 0.01])) for a in o])
    m.circle_size = keys
    m.title = rng.choice(["Title", "", "Tïtle ünï", "タイトル"])
    m.title_unicode = m.title + "U"
    m.artist = rng.choice(["Artist", "", "アーティスト"])
    m.artist_unicode = m.artist + "U"
    m.creator = rng.choice(["me", "", "Evening"])
    m.version = rng.choice(["Hard", "", "7K MX"])
    m.tags = rng.choice([[], ["a"], ["a", "b", "c"]])
    m.audio_file_name = rng.choice(["audio.mp3", ""])
    m.background_file_name = rng.choice(["bg.png", ""])
    m.preview_time = rng.choice([-1, 0, 12345])
    return m


def mk_qua(rng, nh, nl, nb, ns, keys):
    m = QuaMap()
    o, c, _ = rand_notes(rng, nh, keys, "hit")
    m.hits = QuaHitList([QuaHit(a, b, rng.choice([[], ["k1"], ["k1", "k2"]])) for a, b in zip(o, c)])
    o, c, l = rand_notes(rng, nl, keys, "hold")
    m.holds = QuaHoldList([QuaHold(a, b, d, []) for a, b, d in zip(o, c, l)])
    o, b = rand_bpms(rng, nb)
    m.bpms = QuaBpmList([QuaBpm(a, d) for a, d in zip(o, b)])
    o, b = rand_bpms(rng, ns)
    m.svs = QuaSvList([QuaSv(a, rng.choice([1.0, 0.0, -1.5, 10.0])) for a in o])
    m.mode = QuaMapMode.get_mode(keys) or rng.choice(["", "Keys4", "KeysX"])
    m.title = rng.choice(["Title", "", "タイトル"])
    m.artist = rng.choice(["Artist", "", "アーティスト"])
    m.creator = rng.choice(["me", ""])
    m.difficulty_name = rng.choice(["Hard", "", "7K MX"])
    m.tags = rng.choice([[], ["x", "y"]])
    m.audio_file = rng.choice(["audio.mp3", ""])
    m.background_file = rng.choice(["bg.png", ""])
    m.song_preview_time = rng.choice([0, 777])
    return m


def mk_bms(rng, nh, nl, nb, keys):
    m = BMSMap()
    o, c, _ = rand_notes(rng, nh, keys, "hit")
    m.hits = BMSHitList([BMSHit(a, b, rng.choice([b"", b"01", b"ZZ"])) for a, b in zip(o, c)])
    o, c, l = rand_notes(rng, nl, keys, "hold")
    m.holds = BMSHoldList([BMSHold(a, b, d, rng.choice([b"", b"0A"])) for a, b, d in zip(o, c, l)])
    o, b = rand_bpms(rng, nb)
    m.bpms = BMSBpmList([BMSBpm(a, d) for a, d in zip(o, b)])
    m.title = rng.choice([b"Title", b"", "タイトル".encode("sjis")])
    m.artist = rng.choice([b"Artist", b"", "アーティスト".encode("sjis")])
    m.version = rng.choice([b"HYPER", b""])
    return m


def mk_sm_map(rng, nh, nl, nb, keys):
    m = SMMap()
    o, c, _ = rand_notes(rng, nh, keys, "hit")
    m.hits = SMHitList([SMHit(a, b) for a, b in zip(o, c)])
    o, c, l = rand_notes(rng, nl, keys, "hold")
    m.holds = SMHoldList([SMHold(a, b, d) for a, b, d in zip(o, c, l)])
    o, b = rand_bpms(rng, nb)
    m.bpms = SMBpmList([SMBpm(a, d) for a, d in zip(o, b)])
    m.chart_type = SMMapChartTypes.get_type(keys) or rng.choice(
        [SMMapChartTypes.DANCE_SINGLE, SMMapChartTypes.PUMP_SINGLE]
    )
    m.difficulty = rng.choice(["Hard", "Edit", ""])
    m.difficulty_val = rng.choice([1, 12])
    m.description = rng.choice(["desc", ""])
    return m


def mk_sms(rng, n_maps, sizes, keys):
    s = SMMapSet()
    s.maps = [mk_sm_map(rng, *sizes, keys) for _ in range(n_maps)]
    s.title = rng.choice(["Title", "", "タイトル"])
    s.title_translit = rng.choice(["Title", ""])
    s.artist = rng.choice(["Artist", "アーティスト"])
    s.artist_translit = rng.choice(["Artist", ""])
    s.credit = rng.choice(["me", ""])
    s.music = rng.choice(["a.ogg", ""])
    s.background = rng.choice(["bg.png", ""])
    s.sample_start = rng.choice([0.0, 12.75])
    s.offset = rng.choice([0.0, -0.5])
    return s


def mk_o2js(rng, n_maps, sizes, keys=7):
    maps = []
    nh, nl, nb = sizes
    for _ in range(n_maps):
        m = O2JMap()
        o, c, _ = rand_notes(rng, nh, keys, "hit")
        m.hits = O2JHitList([O2JHit(a, b, rng.randrange(16), rng.randrange(16)) for a, b in zip(o, c)])
        o, c, l = rand_notes(rng, nl, keys, "hold")
        m.holds = O2JHoldList([O2JHold(a, b, d) for a, b, d in zip(o, c, l)])
        o, b = rand_bpms(rng, nb)
        m.bpms = O2JBpmList([O2JBpm(a, d) for a, d in zip(o, b)])
        maps.append(m)
    s = O2JMapSet()
    s.maps = maps
    s.level = [rng.randrange(1, 60) for _ in range(max(n_maps, 3))]
    s.title = rng.choice(["Title", "", "タイトル"])
    s.artist = rng.choice(["Artist", ""])
    s.creator = rng.choice(["me", ""])
    return s


# ------------------------------------------------------------- histories
def h_fresh(m, rng):
    return m


def h_deepcopy(m, rng):
    return m.deepcopy()


def h_rate(m, rng):
    return m.rate(rng.choice([1.5, 0.75, 1.1]))


def h_stack(m, rng):
    c = m.deepcopy()
    s = c.stack()
    s.offset += 100
    s.column = s.column  # plain store through the stack
    s.loc[s.offset > 2000, "offset"] *= 2
    return c


def h_filter(m, rng):
    c = m.deepcopy()
    c.hits = c.hits.after(500.0)
    c.holds = c.holds.between(0.0, 30000.0, include_ends=True)
    c.bpms = c.bpms[c.bpms.bpm > 0.5]
    return c


def h_sort(m, rng):
    c = m.deepcopy()
    c.hits = c.hits.sorted()
    c.holds = c.holds.sorted(reverse=True)
    c.bpms = c.bpms.sorted()
    return c


def h_shuffle(m, rng):
    c = m.deepcopy()
    for k in ("hits", "holds", "bpms"):
        tl = getattr(c, k)
        setattr(c, k, type(tl)(tl.df.sample(frac=1, random_state=rng.randrange(1000))))
    return c


def h_append(m, rng):
    c = m.deepcopy()
    if len(c.hits):
        c.hits = c.hits.append(c.hits[0]).append(c.hits[:2])
    if len(c.holds):
        c.holds = c.holds.append(c.holds[-1:], sort=True)
    if len(c.bpms):
        c.bpms = c.bpms.append(c.bpms[:1])
    return c


def h_emptied(m, rng):
    c = m.deepcopy()
    c.holds = c.holds[:0]
    if rng.random() < 0.5:
        c.hits = c.hits[c.hits.offset > 1e12]
    return c


def h_combo(m, rng):
    return h_stack(h_append(h_filter(h_rate(m, rng), rng), rng), rng)


HISTORIES = [h_fresh, h_deepcopy, h_rate, h_stack, h_filter, h_sort, h_shuffle,
             h_append, h_emptied, h_combo]


def apply_history(src, h, rng):
    """Applies a history to a map, or to each map of a map set"""
    if isinstance(src, MapSet):
        if h is h_fresh:
            return src
        if h is h_rate:
            return src.rate(rng.choice([1.5, 0.75]))
        c = src.deepcopy()
        for m in c.maps:
            n = h(m, rng)
            for k in n.objs:
                m.objs[k].df = n.objs[k].df
        return c
    return h(src, rng)


# ------------------------------------------------------------ converters
def merge(o2js):
    return O2JToSM.convert_merge(o2js)


CONVERTERS = {
    "osu": [(OsuToBMS.convert, [{}, {"move_right_by": 1}, {"move_right_by": -2}]),
            (OsuToQua.convert, [{}, {"raise_bad_mode": False}]),
            (OsuToSM.convert, [{}, {"raise_bad_mode": False}])],
    "qua": [(QuaToBMS.convert, [{}, {"move_right_by": 2}]),
            (QuaToOsu.convert, [{}]),
            (QuaToSM.convert, [{}])],
    "bms": [(BMSToOsu.convert, [{}]),
            (BMSToQua.convert, [{}, {"raise_bad_mode": False}]),
            (BMSToSM.convert, [{}])],
    "sm": [(SMToBMS.convert, [{}]),
           (SMToOsu.convert, [{}]),
           (SMToQua.convert, [{}, {"raise_bad_mode": False}])],
    "o2j": [(O2JToBMS.convert, [{}, {"move_right_by": 0}, {"move_right_by": 3}]),
            (O2JToOsu.convert, [{}]),
            (O2JToQua.convert, [{}]),
            (O2JToSM.convert, [{}]),
            (merge, [{}])],
}


def name_of(fn):
    return getattr(fn, "__qualname__", str(fn))


def head(m, n):
    """A freshly read map cut to its first rows (keeps the dump small)"""
    c = m.deepcopy()
    for tl in c.objs.values():
        tl.df = tl.df.iloc[:n]
    return c


def sources(rng):
    out = []
    # freshly read
    osu = OsuMap.read_file(MAPS / "osu/Gravity.osu")
    out.append(("osu", "read:Gravity", osu))
    out.append(("osu", "read:LNDan14", OsuMap.read_file(MAPS / "osu/LNDan14.osu")))
    qua = QuaMap.read_file(MAPS / "qua/CarryMeAway.qua")
    out.append(("qua", "read:CarryMeAway", qua))
    out.append(("qua", "read:NeuroCloud", QuaMap.read_file(MAPS / "qua/NeuroCloud.qua")))
    bms = BMSMap.read_file(MAPS / "bms/coldBreath.bme")
    out.append(("bms", "read:coldBreath", bms))
    sms = SMMapSet.read_file(MAPS / "sm/Escapes.sm")
    out.append(("sm", "read:Escapes", sms))
    o2j = O2JMapSet.read_file(MAPS / "o2jam/o2ma178.ojn")
    out.append(("o2j", "read:o2ma178", o2j))
    # freshly read + every history, on a cut
    fresh_small = [("osu", "Gravity", head(osu, 60)), ("qua", "CarryMeAway", head(qua, 60)),
                   ("bms", "coldBreath", head(bms, 60))]
    sms_small = sms.deepcopy()
    for m in sms_small.maps:
        for tl in m.objs.values():
            tl.df = tl.df.iloc[:40]
    o2j_small = o2j.deepcopy()
    for m in o2j_small.maps:
        for tl in m.objs.values():
            tl.df = tl.df.iloc[:40]
    fresh_small += [("sm", "Escapes", sms_small), ("o2j", "o2ma178", o2j_small)]
    for game, nm, src in fresh_small:
        for h in HISTORIES[1:]:
            out.append((game, f"read:{nm}:{h.__name__}", apply_history(src, h, rng)))
    # built from objects
    sizes = [(0, 0, 0), (0, 0, 1), (1, 0, 1), (0, 3, 2), (7, 5, 3), (12, 9, 4)]
    for i, (nh, nl, nb) in enumerate(sizes):
        for keys in (4, 7, 5):
            h = HISTORIES[(i * 3 + keys) % len(HISTORIES)]
            ns = rng.choice([0, 1, 4])
            out.append(("osu", f"obj:{nh},{nl},{nb},{ns}k{keys}:{h.__name__}",
                        apply_history(mk_osu(rng, nh, nl, nb, ns, keys), h, rng)))
            out.append(("qua", f"obj:{nh},{nl},{nb},{ns}k{keys}:{h.__name__}",
                        apply_history(mk_qua(rng, nh, nl, nb, ns, keys), h, rng)))
            out.append(("bms", f"obj:{nh},{nl},{nb}k{keys}:{h.__name__}",
                        apply_history(mk_bms(rng, nh, nl, nb, keys), h, rng)))
            out.append(("sm", f"obj:{nh},{nl},{nb}k{keys}:{h.__name__}",
                        apply_history(mk_sms(rng, rng.choice([0, 1, 3]), (nh, nl, nb), keys), h, rng)))
        out.append(("o2j", f"obj:{nh},{nl},{nb}:{h.__name__}",
                    apply_history(mk_o2js(rng, rng.choice([1, 3]), (nh, nl, nb)), h, rng)))
    return out


def run_all(rng, only=None):
    n = 0
    for game, label, src in sources(rng):
        for fn, kwargs_list in CONVERTERS[game]:
            if only and name_of(fn) not in only:
                continue
            for kwargs in kwargs_list:
                run(f"{name_of(fn)}:{label}", fn, src, **kwargs)
                n += 1
    emit("N_CASES", n)


def finish():
    text = "\n".join(OUT)
    print("DIGEST", hashlib.sha256(text.encode("utf-8")).hexdigest())


# ------------------------------------------------ direct ConvertBase.cast
class StrKey(str):
    pass


class MySeries(pd.Series):
    pass


def cast_case(label, src, target, mapping):
    before = dump_tl(src)
    try:
        with warnings.catch_warnings(record=True) as w:
            warnings.simplefilter("always")
            res = ConvertBase.cast(src, target, mapping)
        emit("CAST", label, dump_tl(res))
        emit("  WARN", sorted(f"{i.category.__name__}:{i.message}" for i in w))
        for c in res.df.columns:
            for cs in src.df.columns:
                a, b = res.df[c].to_numpy(), src.df[cs].to_numpy()
                if a.dtype != object and b.dtype != object and a.size and b.size:
                    emit("  SHARE", c, cs, bool(np.shares_memory(a, b)))
    except Exception as e:  # noqa
        emit("CAST", label, "EXC", type(e).__name__, str(e)[:200])
    emit("  SRC_SAME", before == dump_tl(src))


def cast_cases(rng):
    from reamber.algorithms.convert.ConvertBase import ConvertBase as CB
    globals()["ConvertBase"] = CB
    srcs = []
    for n in (0, 1, 2, 6):
        m = mk_osu(rng, n, n, n, n, 4)
        srcs.append((f"osu{n}", m.hits, m.holds, m.bpms, m.svs))
        f = h_filter(h_shuffle(m, rng), rng)
        srcs.append((f"osu{n}f", f.hits, f.holds, f.bpms, f.svs))
    for nm, hits, holds, bpms, svs in srcs:
        n = len(hits)
        odd = pd.Series([f"s{i}" for i in range(n)], index=[10 * i + 3 for i in range(n)][::-1], dtype=object)
        mappings = {
            "names": dict(offset="offset", column="column"),
            "strsub": dict(offset=StrKey("offset"), column=StrKey("column")),
            "np_str": dict(offset=np.str_("offset")),
            "series": dict(offset="offset", column="column", hitsound_file=odd),
            "series_sub": dict(offset="offset", hitsound_file=MySeries(odd)),
            "series_float": dict(offset=hits.offset * 2, column=hits.column + 1),
            "const_int": dict(offset="offset", column=3, volume=np.int64(7)),
            "const_float": dict(offset=1.5, column="column"),
            "const_str": dict(offset="offset", hitsound_file=b"raw"),
            "const_none": dict(offset="offset", hitsound_file=None),
            "const_bool": dict(offset="offset", volume=True),
            "ndarray": dict(offset=np.arange(n, dtype=float), column=np.zeros(n, dtype=int)),
            "list": dict(offset=[float(i) for i in range(n)]),
            "tuple": dict(offset="offset", column=tuple(range(n))),
            "index": dict(offset=pd.Index(np.arange(n) * 2.0)),
            "bad_len": dict(offset=np.arange(n + 1, dtype=float)),
            "bad_name": dict(offset="nope"),
            "swap": dict(offset="column", column="offset"),
            "attr_df": dict(offset="df"),
            "attr_method": dict(offset="first_offset"),
            "frame": dict(offset=hits.df[["offset"]]),
            "not_prop_target": dict(offset="offset", brand_new="column"),
            "empty_map": dict(),
        }
        for ml, mapping in mappings.items():
            cast_case(f"{nm}:{ml}", hits, OsuHitList, mapping)
            cast_case(f"{nm}:{ml}:q", hits, QuaHitList, {k: v for k, v in mapping.items() if k != "volume"} if ml != "const_int" else dict(offset="offset", column=3))
        cast_case(f"{nm}:hold", holds, BMSHoldList, dict(offset="offset", column="column", length="length"))
        cast_case(f"{nm}:bpm", bpms, SMBpmList, dict(offset="offset", bpm="bpm"))
        cast_case(f"{nm}:sv", svs, QuaSvList, dict(offset="offset", multiplier="multiplier"))
        cast_case(f"{nm}:sv_as_bpm", svs, QuaBpmList, dict(offset="offset", bpm="multiplier"))
        cast_case(f"{nm}:bms_sample", hits, BMSHitList, dict(offset="offset", column="column", sample=hits.hitsound_file.apply(str.encode)))


if __name__ == "__main__":
    rng = random.Random(801)
    run_all(rng)
    cast_cases(rng)
    emit("N_LINES", len(OUT))
    finish()
