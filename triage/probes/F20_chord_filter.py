import numpy as np
from reamber.algorithms.pattern.filters.PtnFilter import PtnFilterChord
f = PtnFilterChord.create([[1,1],[2,2]], keys=4)
print(f.filter(np.array([2,1])), f.filter(np.array([1,1])), f.filter(np.array([2,2])), f.filter(np.array([3,3])))
assert not f.filter(np.array([2,1])) and f.filter(np.array([1,1]))
g = PtnFilterChord.create([[1,1],[2,2]], keys=4, exclude=True)
assert g.filter(np.array([2,1])) and not g.filter(np.array([1,1]))
print("ok")
