import warnings; warnings.filterwarnings("ignore")
from reamber.quaver.QuaMap import QuaMap
from reamber.algorithms.convert.QuaToSM import QuaToSM
from reamber.sm.SMMapSet import SMMapSet
doc = """AudioFile: a.mp3
Mode: Keys4
Title: t
TimingPoints:
- StartTime: 1000
  Bpm: 120
SliderVelocities:
- StartTime: %d
  Multiplier: 2.0
HitObjects:
- StartTime: 1500
  Lane: 1
  KeySounds: []
- StartTime: 2000
  Lane: 4
  KeySounds: []
"""
for sv in (1200, 0):
    q = QuaMap.read(doc % sv)
    sms = QuaToSM.convert(q)
    txt = sms.write()
    back = SMMapSet.read(txt)
    print("sv at", sv, "offset field", sms.offset, "hits back", list(back[0].hits.offset), "bpms back", list(back[0].bpms.offset))
