import hashlib
import logging
import os
import random
import warnings

import numpy as np
import pandas as pd

from reamber.algorithms.analysis import scroll_speed
from reamber.algorithms.generate import sv_normalize
from reamber.algorithms.utils import dominant_bpm
from reamber.bms import BMSMap, BMSBpm, BMSHit
from reamber.bms.lists import BMSBpmList
from reamber.bms.lists.notes import BMSHitList
from reamber.o2jam import O2JMap, O2JBpm, O2JHit
from reamber.o2jam.lists import O2JBpmList
from reamber.o2jam.lists.notes import O2JHitList
from reamber.osu import OsuMap, OsuBpm, OsuSv, OsuHit, OsuHold
from reamber.osu.lists import OsuBpmList, OsuSvList
from reamber.osu.lists.notes import OsuHitList, OsuHoldList
from reamber.quaver import QuaMap, QuaBpm, QuaSv, QuaHit, QuaHold
from reamber.quaver.lists import QuaBpmList, QuaSvList
from reamber.quaver.lists.notes import QuaHitList, QuaHoldList
from reamber.sm import SMMap, SMBpm, SMHit
from reamber.sm.lists import SMBpmList
from reamber.sm.lists.notes import SMHitList

logging.disable(logging.CRITICAL)  # the BMS reader logs a notice; stdout stays one line
OUT = []


def emit(*parts):
    OUT.append(" ".join(str(p) for p in parts))


# ---------------------------------------------------------------- canonical dump
def scalar(v):
    """Canonical text of one scalar, exact for floats, with its python type."""
    t = type(v).__name__
    if isinstance(v, (bool, np.bool_)):
        return f"{t}:{bool(v)}"
    if isinstance(v, (float, np.floating)):
        return f"{t}:{float(v).hex()}"
    if isinstance(v, (int, np.integer)):
        return f"{t}:{int(v)}"
    if v is None:
        return "None"
    return f"{t}:{v!r}"


def dump_index(ix):
    return (
        f"{type(ix).__name__}[{ix.dtype}] name={ix.name!r} "
        f"[{','.join(scalar(v) for v in ix.tolist())}]"
    )


def dump_series(s):
    return (
        f"Series name={s.name!r} dtype={s.dtype} index={dump_index(s.index)} "
        f"values=[{','.join(scalar(v) for v in s.tolist())}]"
    )


def dump_frame(df):
    cols = [
        f"{c!r}:{df[c].dtype}:[{','.join(scalar(v) for v in df[c].tolist())}]"
        for c in df.columns
    ]
    return (
        f"Frame cols={list(df.columns)!r} colindex={type(df.columns).__name__}"
        f"[{df.columns.dtype}] colname={df.columns.name!r} "
        f"index={dump_index(df.index)} {' | '.join(cols)}"
    )


def dump_any(r):
    if isinstance(r, pd.Series):
        return dump_series(r)
    if isinstance(r, pd.DataFrame):
        return dump_frame(r)
    if hasattr(r, "df") and isinstance(r.df, pd.DataFrame):
        return f"{type(r).__name__}({dump_frame(r.df)})"
    return scalar(r)


def dump_map(m):
    return " ## ".join(
        f"{k}={type(v).__name__}({dump_frame(v.df)})" for k, v in m.objs.items()
    )


def call(label, fn, m, *args):
    """Runs fn(m, *args); records result / exception type, warnings, and the map afterwards."""
    before = dump_map(m)
    ids_before = [id(v) for v in m.objs.values()] + [id(v.df) for v in m.objs.values()]
    with warnings.catch_warnings(record=True) as w:
        warnings.simplefilter("always")
        try:
            r = fn(m, *args)
            res = "OK " + dump_any(r)
        except Exception as e:  # noqa
            r = None
            res = "EXC " + type(e).__name__
    ws = sorted({f"{x.category.__name__}:{str(x.message)[:60]}" for x in w})
    after = dump_map(m)
    ids_after = [id(v) for v in m.objs.values()] + [id(v.df) for v in m.objs.values()]
    emit(label, res)
    emit(label, "WARN", ws)
    emit(label, "INPUT_UNCHANGED", before == after, ids_before == ids_after)
    emit(label, "INPUT", after)
    return r


# ---------------------------------------------------------------- map generation
KINDS = {
    "osu": (OsuMap, OsuBpm, OsuBpmList, OsuHit, OsuHitList),
    "qua": (QuaMap, QuaBpm, QuaBpmList, QuaHit, QuaHitList),
    "sm": (SMMap, SMBpm, SMBpmList, SMHit, SMHitList),
    "bms": (BMSMap, BMSBpm, BMSBpmList, BMSHit, BMSHitList),
    "o2j": (O2JMap, O2JBpm, O2JBpmList, O2JHit, O2JHitList),
}
BPM_POOL = [60, 90, 120, 120.5, 150, 180, 200, 240, 0.1 + 0.2, 333.333, 1e-3, 1e5]
SV_POOL = [1, 1.0, 0.5, 2, 0.1, 10, 0.75, 1.3333333333333333, 0.01, 0.0, -1.0]


def make_hit(kind, offset, column):
    Hit = KINDS[kind][3]
    if kind == "qua":
        return Hit(offset, column, [])
    if kind == "bms":
        return Hit(offset=offset, column=column, sample=b"01")
    return Hit(offset, column)


def build_map(kind, bpm_rows, sv_rows, hit_offsets, hold_rows=()):
    """bpm_rows: [(offset, bpm)], sv_rows: [(offset, mult)], hold_rows: [(offset, length)]"""
    Map, Bpm, BpmList, Hit, HitList = KINDS[kind]
    m = Map()
    if kind == "osu":
        # give the tempo points distinguishable attributes that the SVs inherit
        m.bpms = BpmList(
            [
                Bpm(o, b, metronome=3 + i % 3, volume=(i * 17) % 101, kiai=bool(i % 2),
                    sample_set=i % 4, sample_set_index=i % 3)
                for i, (o, b) in enumerate(bpm_rows)
            ]
        )
    else:
        m.bpms = BpmList([Bpm(o, b) for o, b in bpm_rows])
    m.hits = HitList([make_hit(kind, o, i % 4) for i, o in enumerate(hit_offsets)])
    if kind == "osu":
        if sv_rows:
            m.svs = OsuSvList([OsuSv(o, x, volume=(i * 7) % 101) for i, (o, x) in enumerate(sv_rows)])
        if hold_rows:
            m.holds = OsuHoldList([OsuHold(o, i % 4, l) for i, (o, l) in enumerate(hold_rows)])
    elif kind == "qua":
        if sv_rows:
            m.svs = QuaSvList([QuaSv(o, x) for o, x in sv_rows])
        if hold_rows:
            m.holds = QuaHoldList([QuaHold(o, i % 4, l, []) for i, (o, l) in enumerate(hold_rows)])
    return m


def random_layout(rng, float_times, shuffle_rows):
    """A random layout in the quantified domain.

    * >= 1 tempo point, tempo offsets pairwise distinct, one of them at or before the first object
    * >= 1 object
    * any number of SVs; they may coincide with tempo points / each other / lie before the first tempo point
    """
    step = rng.choice([1, 10, 125, 250])
    conv = (lambda t: t * step + (0.5 if float_times and t % 3 == 0 else 0.0)) if float_times else (lambda t: t * step)
    n_bpm = rng.choice([1, 1, 2, 2, 3, 4, 6, 9])
    slots = rng.sample(range(-5, 40), n_bpm)
    first = min(slots)
    n_val = rng.choice([1, 2, 3, len(BPM_POOL)])
    pool = rng.sample(BPM_POOL, n_val)
    bpm_rows = [(conv(t), rng.choice(pool)) for t in sorted(slots)]
    n_hit = rng.choice([1, 1, 2, 5, 12])
    # objects never before the first tempo point; they may coincide with tempo points
    hit_slots = [rng.randint(first, 50) for _ in range(n_hit)]
    if rng.random() < 0.3:
        hit_slots[0] = first
    if rng.random() < 0.3:
        hit_slots.append(max(slots))  # last object exactly on the last tempo point
    hit_offsets = [conv(t) for t in hit_slots]
    n_sv = rng.choice([0, 0, 1, 2, 4, 8, 15])
    sv_rows = []
    for _ in range(n_sv):
        c = rng.random()
        if c < 0.3:
            t = rng.choice(slots)  # on a tempo point
        elif c < 0.45 and sv_rows:
            t = None  # on another SV
        elif c < 0.55:
            t = first - rng.randint(1, 5)  # before the first tempo point
        elif c < 0.65:
            t = rng.choice(hit_slots)
        else:
            t = rng.randint(first - 2, 55)
        o = rng.choice(sv_rows)[0] if t is None else conv(t)
        sv_rows.append((o, rng.choice(SV_POOL[:9] if rng.random() < 0.9 else SV_POOL)))
    hold_rows = []
    if rng.random() < 0.3:
        hold_rows = [(conv(rng.randint(first, 50)), rng.choice([1, 10, 500.5])) for _ in range(rng.randint(1, 3))]
    if shuffle_rows:
        rng.shuffle(bpm_rows)
        rng.shuffle(hit_offsets)
    else:
        sv_rows.sort(key=lambda r: r[0])
    if float_times:
        bpm_rows = [(float(o), float(b)) for o, b in bpm_rows]
        sv_rows = [(float(o), float(x)) for o, x in sv_rows]
        hit_offsets = [float(o) for o in hit_offsets]
    return bpm_rows, sv_rows, hit_offsets, hold_rows


def generated_maps(seed, n, kinds):
    rng = random.Random(seed)
    for i in range(n):
        kind = kinds[i % len(kinds)]
        float_times = rng.random() < 0.5
        shuffle_rows = rng.random() < 0.4
        bpm_rows, sv_rows, hit_offsets, hold_rows = random_layout(rng, float_times, shuffle_rows)
        yield f"gen{i}-{kind}", kind, build_map(kind, bpm_rows, sv_rows, hit_offsets, hold_rows)


def handmade_maps():
    """Named edge cases of the quantified domain."""
    for kind in ("osu", "qua", "sm"):
        # single tempo point, single object on it
        yield f"single-{kind}", kind, build_map(kind, [(0, 120)], [], [0])
        # exact tie of total active time between two different bpm values (both orders)
        yield f"tie-lohi-{kind}", kind, build_map(kind, [(0, 100), (1000, 200)], [], [0, 2000])
        yield f"tie-hilo-{kind}", kind, build_map(kind, [(0, 200), (1000, 100)], [], [0, 2000])
        # repeated bpm value beats a longer single stretch
        yield f"repeat-{kind}", kind, build_map(
            kind, [(0, 100), (300, 200), (700, 100), (1000, 150)], [], [0, 1100]
        )
        # last object exactly on the last tempo point (zero-length last stretch)
        yield f"zero-tail-{kind}", kind, build_map(kind, [(0, 100), (500, 300)], [], [100, 500])
        # unsorted tempo rows
        yield f"unsorted-{kind}", kind, build_map(
            kind, [(800, 90.5), (0, 180.0), (400, 90.5), (200, 60.0)], [], [900.0, 10.0, 1300.0]
        )
        # tempo point before the first object, and one after the last object
        yield f"late-bpm-{kind}", kind, build_map(kind, [(-500, 100), (0, 200), (5000, 400)], [], [100, 1000])
    for kind in ("osu", "qua"):
        # SV coincides with tempo point / with another SV / before the first tempo point / on head and tail
        yield f"sv-mix-{kind}", kind, build_map(
            kind,
            [(0, 100), (200, 200), (300, 300)],
            [(-50, 3), (0, 1), (0, 0.5), (100, 2), (100, 4), (200, 0.25), (300, 2), (400, 8), (450, 9)],
            [0, 400],
        )
        yield f"sv-unsorted-{kind}", kind, build_map(
            kind,
            [(300.0, 300.0), (0.0, 100.0), (200.0, 200.0)],
            [(300.0, 2.0), (100.0, 4.0), (100.0, 2.0), (0.0, 1.0)],
            [400.0, -0.0],
        )
        yield f"sv-only-before-{kind}", kind, build_map(kind, [(0, 150)], [(-100, 2)], [0, 50])
        yield f"sv-after-last-{kind}", kind, build_map(kind, [(0, 150), (10, 75)], [(5, 2), (1000, 3)], [0, 50])
        yield f"sv-holds-{kind}", kind, build_map(
            kind, [(0, 150), (100, 75)], [(50, 2), (100, 0.5), (150, 1.5)], [0], hold_rows=[(20, 300), (60, 10.5)]
        )


def digest():
    text = "\n".join(OUT)
    if os.environ.get("DEMO_DUMP"):
        with open(os.environ["DEMO_DUMP"], "w") as f:
            f.write(text + "\n")
    print("DIGEST", hashlib.sha256(text.encode()).hexdigest())


# ================================================================ demo 1: dominant_bpm
def main():
    cases = list(handmade_maps()) + list(
        generated_maps(1901, 70, ["osu", "qua", "sm", "bms", "o2j"])
    )
    for name, kind, m in cases:
        call(name + " dominant_bpm", dominant_bpm, m)
        # the two users of dominant_bpm, without and with an override
        call(name + " scroll_speed", scroll_speed, m)
        if kind in ("osu", "qua"):
            call(name + " sv_normalize", sv_normalize, m)

    # a DataFrame-backed bpm list whose row labels are not 0..n-1 (rows taken from a larger frame)
    for kind in ("osu", "sm"):
        m = build_map(kind, [(0, 100), (50, 1), (100, 200), (150, 2), (400, 100)], [], [0, 450])
        m.bpms = type(m.bpms)(m.bpms.df.iloc[[4, 2, 0]])
        call(f"relabelled-{kind} dominant_bpm", dominant_bpm, m)
        m.bpms = type(m.bpms)(m.bpms.df.set_axis([7, 7, 7]))
        call(f"duplabels-{kind} dominant_bpm", dominant_bpm, m)

    # outside the quantified domain: results / exception types must still agree
    for kind in ("osu", "qua", "sm"):
        m = build_map(kind, [(0, 100)], [], [0, 10])
        m.bpms = type(m.bpms)([])
        call(f"no-bpm-{kind} dominant_bpm", dominant_bpm, m)
        m = build_map(kind, [(0, 100), (10, 200)], [], [])
        call(f"no-object-{kind} dominant_bpm", dominant_bpm, m)
        m = build_map(kind, [(0, 100), (100, 200), (200, 300)], [], [150])
        call(f"object-before-last-bpm-{kind} dominant_bpm", dominant_bpm, m)
        m = build_map(kind, [(0.0, float("nan")), (100.0, 200.0), (200.0, float("nan"))], [], [950.0])
        call(f"nan-bpm-{kind} dominant_bpm", dominant_bpm, m)
        m = build_map(kind, [(0.0, float("nan"))], [], [950.0])
        call(f"all-nan-bpm-{kind} dominant_bpm", dominant_bpm, m)
        m = build_map(kind, [(0.0, 100.0), (float("nan"), 200.0)], [], [950.0])
        call(f"nan-offset-{kind} dominant_bpm", dominant_bpm, m)

    # bundled charts
    for cls, path in [
        (OsuMap, "rsc/maps/osu/Gravity.osu"),
        (OsuMap, "rsc/maps/osu/Escapes.osu"),
        (OsuMap, "rsc/maps/osu/ICFITU.osu"),
        (QuaMap, "rsc/maps/qua/CarryMeAway.qua"),
        (QuaMap, "rsc/maps/qua/NeuroCloud.qua"),
        (BMSMap, "rsc/maps/bms/searoad.bml"),
        (BMSMap, "rsc/maps/bms/coldBreath.bme"),
    ]:
        m = cls.read_file(path)
        with warnings.catch_warnings():
            warnings.simplefilter("ignore")
            r = dominant_bpm(m)
        emit("bundled", path, scalar(r))
    digest()


main()
