"""Demo for refactoring 2: item_props.gen_props (reamber/base/Property.py).

Part A dumps what the decorator produced for every decorated item class of
every game (merged props, allowed names, generated properties, item
construction / from_series round trips).
Part B dumps what every list class derives from those props.
Part C applies ``item_props`` to generated class hierarchies (single and
multiple inheritance, diamonds, undecorated and prop-less ancestors, names
redefined with other values, custom prop attribute name).
Prints one sha256 digest over a canonical dump of all results.
"""
import hashlib
import importlib
import inspect
import pkgutil
import random
import sys

import numpy as np
import pandas as pd

import reamber
from reamber.base.Property import item_props, Properties
from reamber.base.Series import Series
from reamber.base.Timed import Timed
from reamber.base.lists.TimedList import TimedList

random.seed(1600216)
OUT = []


def emit(*parts):
    OUT.append(" | ".join(str(p) for p in parts))


def canon(v):
    if isinstance(v, (list, tuple)):
        return f"{type(v).__name__}[{','.join(canon(i) for i in v)}]"
    if isinstance(v, dict):
        return "dict{" + ",".join(f"{canon(k)}:{canon(x)}" for k, x in v.items()) + "}"
    if isinstance(v, (float, np.floating)):
        return f"{type(v).__name__}({float(v)!r})"
    if isinstance(v, type):
        return f"class({v.__name__})"
    return f"{type(v).__name__}({v!r})"


def dump_series(d):
    return f"idx={canon(list(d.index))} dtype={d.dtype} vals={canon(list(d))}"


def dump_df(df):
    lines = [
        "cols=" + canon(list(df.columns)),
        "dtypes=" + canon([str(t) for t in df.dtypes]),
        "index=" + type(df.index).__name__ + canon(list(df.index)),
    ]
    for c in df.columns:
        lines.append(f"{c}:=" + canon(list(df[c])))
    return " ; ".join(lines)


def attempt(label, fn):
    try:
        r = fn()
    except Exception as e:
        emit(label, "RAISED", type(e).__name__, str(e))
        return None
    if isinstance(r, TimedList):
        emit(label, type(r).__name__, dump_df(r.df))
    elif isinstance(r, Series):
        emit(label, type(r).__name__, dump_series(r.data))
    elif isinstance(r, pd.DataFrame):
        emit(label, dump_df(r))
    elif isinstance(r, pd.Series):
        emit(label, dump_series(r))
    else:
        emit(label, canon(r))
    return r


def class_report(label, cl, prop_name="_props"):
    """Everything gen_props leaves on a class."""
    own = cl.__dict__.get(prop_name, "<absent>")
    emit(label, "own", canon(own))
    emit(label, "visible", canon(getattr(cl, prop_name, "<absent>")))
    emit(label, "own_is_dict", type(own).__name__)
    if "_from_series_allowed_names" in cl.__dict__:
        emit(label, "allowed_is_static", type(cl.__dict__["_from_series_allowed_names"]).__name__)
    if hasattr(cl, "_from_series_allowed_names"):
        a = cl._from_series_allowed_names()
        b = cl._from_series_allowed_names()
        emit(label, "allowed", canon(a), "fresh" if a is not b else "shared")
    gen = [k for k, v in cl.__dict__.items() if isinstance(v, property)]
    emit(label, "properties", canon(gen))
    emit(label, "mro", canon(list(cl.__mro__)))


# ------------------------------------------------------------------ discovery
ITEMS, LISTS = set(), set()
for m in pkgutil.walk_packages(reamber.__path__, "reamber."):
    if ".algorithms" in m.name:
        continue
    mod = importlib.import_module(m.name)
    for o in vars(mod).values():
        if not (inspect.isclass(o) and o.__module__.startswith("reamber.")):
            continue
        if issubclass(o, TimedList):
            LISTS.add(o)
        elif issubclass(o, Series) or "_from_series_allowed_names" in o.__dict__:
            ITEMS.add(o)
ITEMS = sorted(ITEMS, key=lambda c: (c.__module__, c.__name__))
LISTS = sorted(LISTS, key=lambda c: (c.__module__, c.__name__))
emit("N_ITEMS", len(ITEMS), "N_LISTS", len(LISTS))

OFFSETS = [0.0, -0.0, -250.0, -0.5, 0.25, 100.5, 100.5, 1e6, 33.333333333333336, 1000]
TEXTS = ["", "a.wav", "normal-hit.ogg", "x y"]
BYTES = [b"", b"01", b"ZZ", b"0A"]


def gen_value(name, dtype, default):
    if name == "offset":
        return random.choice(OFFSETS)
    if dtype == "float":
        return random.choice([0.0, -1.5, 0.25, 120.0, 4.0, 1 / 3, 500])
    if dtype == "int":
        return random.randint(-2, 9)
    if dtype == "bool":
        return random.random() < 0.5
    if isinstance(default, bytes):
        return random.choice(BYTES)
    if isinstance(default, list):
        return [random.choice(TEXTS) for _ in range(random.randint(0, 2))]
    return random.choice(TEXTS)


def gen_kwargs(props):
    return {k: gen_value(k, t, d) for k, (t, d) in props.items()}


# ------------------------------------------------------------------ part A
for IC in ITEMS:
    name = f"A {IC.__module__}.{IC.__name__}"
    class_report(name, IC)
    if not issubclass(IC, Series) or not hasattr(IC, "_props"):
        continue
    attempt(name + " props()", lambda: [IC.props().names, IC.props().dtypes, IC.props().defaults])
    props = IC._props
    for rep in range(4):
        kw = gen_kwargs(props)
        it = attempt(name + f" new{rep}", lambda: IC(**kw))
        if it is None:
            break
        # generated getters read the row, generated setters write it
        emit(name + f" get{rep}", canon([getattr(it, k) for k in props]))
        kw2 = gen_kwargs(props)
        for k in props:
            setattr(it, k, kw2[k])
        emit(name + f" set{rep}", dump_series(it.data), canon([getattr(it, k) for k in props]))
        # from_series: plain, shuffled, with extra labels, with a label missing
        row = pd.Series(kw)
        attempt(name + f" from_series{rep}", lambda: IC.from_series(row))
        labels = list(kw)
        random.shuffle(labels)
        attempt(name + f" from_series shuffled{rep}", lambda: IC.from_series(row[labels]))
        extra = pd.Series({"bogus": 1, **kw, "Offset": 2.0, 0: "zero"})
        attempt(name + f" from_series extra{rep}", lambda: IC.from_series(extra))
        drop = random.choice(list(kw))
        attempt(name + f" from_series without {drop}", lambda: IC.from_series(row.drop(drop)))
        emit(name + f" from_series{rep}.arg_after", dump_series(row), dump_series(extra))
    attempt(name + " from_series empty", lambda: IC.from_series(pd.Series(dtype=object)))
    attempt(name + " from_series dup", lambda: IC.from_series(pd.Series([1.0, 2.0], index=["offset", "offset"])))

# ------------------------------------------------------------------ part B
for LC in LISTS:
    name = f"B {LC.__module__}.{LC.__name__}"
    IC = LC._item_class()
    emit(name, "item", IC.__name__)
    attempt(name + " _default", lambda: pd.DataFrame(LC._default()))
    attempt(name + " props()", lambda: [LC.props().names, LC.props().dtypes, LC.props().defaults])
    emit(name, "properties", canon([k for k, v in LC.__dict__.items() if isinstance(v, property)]))
    attempt(name + " init([])", lambda: LC([]))
    attempt(name + " empty(2)", lambda: LC.empty(2))
    attempt(name + " from_dict(offset)", lambda: LC.from_dict({"offset": [2.5, -1.0, 2.5]}))
    items = [IC(**gen_kwargs(IC._props)) for _ in range(4)]
    tl = attempt(name + " init(items)", lambda: LC(items))
    if tl is None:
        continue
    for k in IC._props:
        attempt(name + f" col {k}", lambda: getattr(tl, k))
    attempt(name + " iter", lambda: [f"{type(i).__name__} {dump_series(i.data)}" for i in tl])
    attempt(name + " [0]", lambda: tl[0])
    attempt(name + " [-1]", lambda: tl[-1])
    attempt(name + " sorted", lambda: tl.sorted())
    attempt(name + " append", lambda: tl.append(items[0], sort=True))
    attempt(name + " between", lambda: tl.between(-1, 101, (True, True)))

# ------------------------------------------------------------------ part C
KEYS = list("abcdefg") + ["offset"]
TYPES = ["float", "int", "object", "bool"]


def random_props(tag):
    ks = random.sample(KEYS, random.randint(0, 4))
    return {k: [random.choice(TYPES), f"{tag}.{k}"] for k in ks}


def build_hierarchy(h, prop_name):
    classes = []
    n = random.randint(3, 9)
    # optional common roots
    roots = random.choice([(), (Series,), (Series,), (object,)])
    for i in range(n):
        cname = f"H{h}C{i}"
        k = min(len(classes), random.choice([0, 1, 1, 1, 2, 2, 3]))
        bases = tuple(random.sample(classes, k)) if k else roots
        ns = {}
        has_own = random.random() < 0.75
        if has_own:
            ns[prop_name] = random_props(cname)
        own_before = canon(ns.get(prop_name, "<absent>"))
        try:
            cl = type(cname, bases, ns)
        except TypeError as e:  # inconsistent MRO for this random pick
            emit(f"C {cname}", "bases", canon(list(bases)), "NOCLASS", type(e).__name__)
            continue
        label = f"C {cname}"
        emit(label, "bases", canon(list(bases)), "own_before", own_before)
        parents_before = [canon(getattr(b, prop_name, "<absent>")) for b in cl.__mro__[1:]]
        if random.random() < 0.8:
            own_obj = ns.get(prop_name)
            try:
                ret = item_props(prop_name)(cl)
                emit(label, "decorated", ret is cl, "new_dict", cl.__dict__[prop_name] is not own_obj)
            except Exception as e:
                emit(label, "DECORATE-RAISED", type(e).__name__, str(e))
            # the declared dict object and the ancestors are left alone
            emit(label, "own_obj_after", canon(own_obj) if own_obj is not None else "<absent>")
            emit(label, "parents_same", parents_before == [canon(getattr(b, prop_name, "<absent>")) for b in cl.__mro__[1:]])
        else:
            emit(label, "undecorated")
        class_report(label, cl, prop_name)
        if issubclass(cl, Series) and hasattr(cl, "_from_series_allowed_names"):
            row = pd.Series({k: f"v-{k}" for k in KEYS + ["zzz"]})
            inst = attempt(label + " from_series", lambda: cl.from_series(row))
            if inst is not None:
                for k in getattr(cl, prop_name, {}):
                    if isinstance(cl.__dict__.get(k), property) or any(isinstance(b.__dict__.get(k), property) for b in cl.__mro__):
                        attempt(label + f" get {k}", lambda: getattr(inst, k))
                        attempt(label + f" set {k}", lambda: (setattr(inst, k, 7), dump_series(inst.data))[1])
        classes.append(cl)


for h in range(60):
    build_hierarchy(h, random.choice(["_props", "_props", "_props", "_fields"]))


# hand written corner cases
def corner(label, fn):
    try:
        cl = fn()
    except Exception as e:
        emit("C " + label, "RAISED", type(e).__name__, str(e))
        return
    class_report("C " + label, cl)


def diamond():
    A = item_props()(type("A", (Series,), {"_props": dict(x=["int", "A.x"], y=["int", "A.y"])}))
    B = item_props()(type("B", (A,), {"_props": dict(y=["float", "B.y"], z=["int", "B.z"])}))
    C = item_props()(type("C", (A,), {"_props": dict(x=["float", "C.x"], w=["int", "C.w"])}))
    return item_props()(type("D", (B, C), {"_props": dict(z=["object", "D.z"], v=["int", "D.v"])}))


def diamond_undecorated_middle():
    A = item_props()(type("A", (Series,), {"_props": dict(x=["int", "A.x"], y=["int", "A.y"])}))
    B = type("B", (A,), {"_props": dict(y=["float", "B.y"], z=["int", "B.z"])})
    C = type("C", (A,), {})
    return item_props()(type("D", (B, C), {"_props": dict(x=["object", "D.x"])}))


def no_props_anywhere():
    return item_props()(type("N", (), {}))


def inherited_only():
    A = item_props()(type("A", (), {"_props": dict(x=["int", "A.x"])}))
    return item_props()(type("E", (A,), {}))


def empty_props():
    return item_props()(type("Z", (Series,), {"_props": {}}))


def deep_chain():
    cl = item_props()(type("L0", (Series,), {"_props": dict(k0=["int", 0], shared=["int", "L0"])}))
    for i in range(1, 30):
        cl = type(f"L{i}", (cl,), {"_props": {f"k{i}": ["int", i], "shared": ["int", f"L{i}"]}})
        if i % 3:
            cl = item_props()(cl)
    return item_props()(cl)


def decorated_twice():
    A = item_props()(type("A", (Series,), {"_props": dict(x=["int", "A.x"])}))
    B = type("B", (A,), {"_props": dict(y=["int", "B.y"], x=["float", "B.x"])})
    return item_props()(item_props()(B))


def non_dict_props():
    return item_props()(type("Q", (), {"_props": ["x", "y"]}))


def none_props_in_base():
    A = type("A", (), {"_props": None})
    return item_props()(type("R", (A,), {"_props": dict(x=["int", 0])}))


for fn in (diamond, diamond_undecorated_middle, no_props_anywhere, inherited_only,
           empty_props, deep_chain, decorated_twice, non_dict_props, none_props_in_base):
    corner(fn.__name__, fn)

text = "\n".join(OUT)
print("LINES", len(OUT), file=sys.stderr)
print("DIGEST", hashlib.sha256(text.encode("utf-8", "backslashreplace")).hexdigest())
