#!/usr/bin/env python3
"""verify_twin.py <dir> [<dir> ...] — confirm a sub-agent's behaviour-preserving refactoring before it is kept.

Each <dir> holds patch.diff and demo.py (which prints one digest line over results, dtypes, exceptions and inputs-after for a few
dozen generated inputs).  In a scratch worktree of /repo (under $TMPDIR, removed afterwards; /repo itself is not touched): the demo
must print the SAME last line on the clean tree and with the patch (exit 0 both times), and the repository's test suite must give
exactly the baseline result with the patch.  Writes <dir>/confirmed.json and prints one line per twin.
This RUNS the library: it is part of how twins are admitted, never of a check.  --jobs N at a time (default 6)."""
import json, os, pathlib, re, subprocess, sys, tempfile
from concurrent.futures import ThreadPoolExecutor
repo = os.environ.get("REPO", "/repo")
PY = "/venv/bin/python"
ALWAYS_FAIL = 2
BASE_PASS = 306
args = sys.argv[1:]
jobs = 6
if "--jobs" in args:
    i = args.index("--jobs")
    jobs = int(args[i + 1])
    del args[i:i + 2]


def sh(c, cwd=None, env=None, timeout=1800):
    e = dict(os.environ)
    e.update(env or {})
    try:
        r = subprocess.run(c, shell=True, cwd=cwd, capture_output=True, text=True, env=e, timeout=timeout)
        return r.returncode, r.stdout + r.stderr
    except subprocess.TimeoutExpired:
        return 124, "timeout"


def one(d):
    d = pathlib.Path(d).resolve()
    tmp = tempfile.mkdtemp(prefix="twinv-")
    wt = f"{tmp}/wt"
    res = {"dir": str(d)}
    try:
        for _ in range(5):                      # (concurrent `worktree add`s can collide on the repository's lock)
            rc, o = sh(f"git -C {repo} worktree add --detach {wt} HEAD")
            if rc == 0:
                break
            import time
            time.sleep(2)
            sh(f"rm -rf {wt}; git -C {repo} worktree prune")
        assert rc == 0, o
        env = {"PYTHONPATH": wt, "PYTHONDONTWRITEBYTECODE": "1"}
        rc, o = sh(f"{PY} {d}/demo.py 2>/dev/null", wt, env, 900)
        res["demo_exit_clean"] = rc
        res["demo_stdout_clean"] = (o.strip().splitlines() or [""])[-1][:300]
        rc, o = sh(f"git apply {d}/patch.diff", wt)
        res["apply"] = rc
        if rc:
            res["apply_msg"] = o[:300]
            return res
        rc, o = sh(f"{PY} {d}/demo.py 2>/dev/null", wt, env, 900)
        res["demo_exit_patched"] = rc
        res["demo_stdout_patched"] = (o.strip().splitlines() or [""])[-1][:300]
        rc, o = sh(f"{PY} -m pytest -q -p no:cacheprovider --timeout=900 --continue-on-collection-errors 2>&1 | tail -3", wt,
                   {"PYTHONDONTWRITEBYTECODE": "1"}, 1700)
        last = (o.strip().splitlines() or [""])[-1]
        res["suite"] = last
        m = re.search(r"(\d+) passed", last)
        f = re.search(r"(\d+) failed", last)
        res["suite_passed"] = int(m.group(1)) if m else 0
        res["suite_failed"] = int(f.group(1)) if f else 0
        res["ok"] = (res["demo_exit_clean"] == 0 and res["demo_exit_patched"] == 0 and bool(res["demo_stdout_clean"]) and
                     res["demo_stdout_clean"] == res["demo_stdout_patched"]
                     and res["suite_passed"] == BASE_PASS and res["suite_failed"] == ALWAYS_FAIL)
    finally:
        sh(f"git -C {repo} worktree remove --force {wt}")
        sh(f"git -C {repo} worktree prune")
        sh(f"rm -rf {tmp}")
        (d / "confirmed.json").write_text(json.dumps(res, indent=1))
    return res


with ThreadPoolExecutor(jobs) as ex:
    for r in ex.map(one, args):
        print(pathlib.Path(r["dir"]).name, "OK" if r.get("ok") else "NOT-CONFIRMED",
              {k: r.get(k) for k in ("demo_exit_clean", "demo_exit_patched", "apply", "suite")}, "same digest" if r.get("demo_stdout_clean") == r.get("demo_stdout_patched") else "DIGEST DIFFERS", flush=True)
