"""Behaviour digest for full_ln and the code it is built on
(Map.stack / Map.Stacker, TimedList.from_dict).

Run:  cd /tmp/wt6/C17 && PYTHONPATH=/tmp/wt6/C17 /venv/bin/python demo.py
Prints one line ``DIGEST <sha256>`` over a canonical dump of every result,
every input after the call, every raised exception type and every warning.
"""
import hashlib
import random
import warnings

import numpy as np
import pandas as pd

from reamber.algorithms.generate import full_ln
from reamber.base.Map import Map
from reamber.base.lists.BpmList import BpmList
from reamber.base.lists.TimedList import TimedList
from reamber.base.lists.notes.HitList import HitList
from reamber.base.lists.notes.HoldList import HoldList
from reamber.bms.BMSMap import BMSMap
from reamber.o2jam.O2JMap import O2JMap
from reamber.osu.OsuMap import OsuMap
from reamber.quaver.QuaMap import QuaMap
from reamber.sm.SMMap import SMMap

random.seed(170017)
OUT = []


def emit(*parts):
    OUT.append(" | ".join(str(p) for p in parts))


def cell(v):
    return f"{type(v).__name__}:{v!r}"


def dump_df(tag, df):
    emit(tag, "type", type(df).__name__, "shape", df.shape)
    emit(tag, "columns", [cell(c) for c in df.columns])
    emit(tag, "dtypes", [str(t) for t in df.dtypes])
    emit(tag, "index", type(df.index).__name__, str(df.index.dtype), list(df.index))
    for i in range(len(df)):
        emit(tag, "row", i, [cell(v) for v in df.iloc[i].tolist()])
    # raw column values as well (iloc row access upcasts mixed rows)
    for k in range(df.shape[1]):
        emit(tag, "col", k, [cell(v) for v in df.iloc[:, k].tolist()])


def dump_map(tag, m):
    emit(tag, "class", type(m).__name__, "objs", list(m.objs.keys()))
    for k, v in m.objs.items():
        emit(tag, k, "listclass", type(v).__name__)
        dump_df(f"{tag}.{k}", v.df)


def guarded(tag, fn):
    """Runs fn, records exception type and warnings."""
    with warnings.catch_warnings(record=True) as ws:
        warnings.simplefilter("always")
        try:
            res = fn()
            emit(tag, "OK")
        except Exception as e:  # noqa
            res = None
            emit(tag, "RAISED", type(e).__name__)
    emit(tag, "warnings", sorted(f"{w.category.__name__}:{str(w.message)[:120]}" for w in ws))
    return res


MAP_CLASSES = [Map, OsuMap, QuaMap, SMMap, BMSMap, O2JMap]


def rand_offset(mode):
    if mode == "grid":
        return random.randrange(0, 12) * 100
    if mode == "gridf":
        return float(random.randrange(-4, 10) * 125)
    if mode == "float":
        return round(random.uniform(-500, 5000), 3)
    if mode == "dense":
        return random.randrange(0, 40)
    raise AssertionError


def build_map(cls, hits, holds, shuffle, with_extras):
    """hits: list of (offset, column); holds: list of (offset, column, length)."""
    m = cls()
    if shuffle:
        random.shuffle(hits)
        random.shuffle(holds)
    HL, OL = type(m.hits), type(m.holds)
    # Always give the columns explicitly: an empty dict -> empty default list
    if hits:
        m.hits = HL.from_dict(
            {"offset": [h[0] for h in hits], "column": [h[1] for h in hits]}
        )
    if holds:
        m.holds = OL.from_dict(
            {
                "offset": [h[0] for h in holds],
                "column": [h[1] for h in holds],
                "length": [h[2] for h in holds],
            }
        )
    if with_extras:
        BL = type(m.bpms)
        m.bpms = BL.from_dict({"offset": [0.0, 1000.0], "bpm": [120.0, 180.5]})
        if "svs" in m.objs:
            SL = type(m.objs["svs"])
            m.objs["svs"] = SL.from_dict(
                {"offset": [10.0, 20.0, 5.0], "multiplier": [1.0, 0.5, 2.0]}
            )
        if "stops" in m.objs:
            SL = type(m.objs["stops"])
            m.objs["stops"] = SL.from_dict({"offset": [300.0], "length": [50.0]})
        if "mines" in m.objs:
            ML = type(m.objs["mines"])
            m.objs["mines"] = ML.from_dict({"offset": [100.0, 100.0], "column": [0, 1]})
    return m


def random_chart(keys, n, mode, hold_ratio):
    hits, holds = [], []
    used_cols = random.sample(range(keys), k=random.randint(1, keys))
    for _ in range(n):
        off = rand_offset(mode)
        col = random.choice(used_cols)
        if random.random() < hold_ratio:
            length = random.choice(
                [0, 0.0, 1, 25.5, 100, 100.0, 250, 1e4, random.uniform(0, 600)]
            )
            holds.append((off, col, length))
        else:
            hits.append((off, col))
    # chords: copy some offsets to another column
    for off, col in list(hits[:3]):
        hits.append((off, (col + 1) % keys))
    return hits, holds


GAPS = [0, 0.0, 1, 37.5, 50, 100, 150, 150.0, 1e6]
THRESHOLDS = [0, 0.0, 1, 12.5, 100, 100.0, 250, 1e9]


def section_full_ln():
    cases = []
    # ---- hand-written edge cases -------------------------------------------------
    cases.append(("empty", [], [], False))
    cases.append(("one-hit", [(0, 0)], [], False))
    cases.append(("one-hold", [], [(0, 0, 100)], False))
    cases.append(("one-hold-zero", [], [(5.5, 2, 0.0)], False))
    cases.append(("hit-hit", [(0, 0), (250, 0)], [], False))
    cases.append(("hit-hit-249", [(0, 0), (249, 0)], [], False))
    cases.append(("hold-hold", [], [(0, 0, 100), (250, 0, 100)], False))
    cases.append(("hit-hold", [(0, 0)], [(250, 0, 100)], False))
    cases.append(("hold-hit", [(250, 0)], [(0, 0, 100)], False))
    cases.append(("single-note-columns", [(0, 0), (10, 1), (20, 3)], [(30, 2, 40)], False))
    cases.append(("chord", [(0, 0), (0, 1), (0, 2), (500, 0), (500, 2)], [(0, 3, 700)], False))
    cases.append(("tie-hit-hit", [(100, 0), (100, 0), (400, 0)], [], False))
    cases.append(("tie-hit-hold", [(100, 0), (700, 0)], [(100, 0, 50)], False))
    cases.append(("tie-last", [(100, 1), (400, 1)], [(400, 1, 30)], False))
    cases.append(("negative", [(-500, 0), (-100.5, 0), (0, 0)], [(-300, 1, 100), (-50, 1, 10)], False))
    cases.append(("unsorted", [(900, 0), (100, 0), (500, 0)], [(700, 0, 10), (300, 0, 999)], False))
    cases.append(("overlap", [(100, 0)], [(0, 0, 5000), (50, 0, 5000)], False))
    cases.append(("float-offsets", [(0.1, 0), (0.2, 0), (250.30000000000001, 0)], [], False))
    cases.append(("high-column", [(0, 17), (300, 17), (300, 9)], [(10, 9, 5)], False))
    cases.append(("only-holds-many", [], [(i * 90, i % 2, 45) for i in range(9)], True))
    # ---- generated ------------------------------------------------------------
    for i in range(48):
        keys = random.choice([1, 2, 4, 7, 10])
        n = random.choice([0, 1, 2, 3, 5, 8, 13, 21, 34])
        mode = random.choice(["grid", "gridf", "float", "dense"])
        hold_ratio = random.choice([0.0, 0.3, 0.5, 1.0])
        hits, holds = random_chart(keys, n, mode, hold_ratio)
        cases.append((f"gen{i}-{keys}k-{mode}", hits, holds, random.random() < 0.6))

    for ci, (name, hits, holds, shuffle) in enumerate(cases):
        cls = MAP_CLASSES[ci % len(MAP_CLASSES)]
        with_extras = ci % 2 == 0
        m = build_map(cls, list(hits), list(holds), shuffle, with_extras)
        if name.startswith("gen"):
            params = [(random.choice(GAPS), random.choice(THRESHOLDS)) for _ in range(2)]
        else:
            params = [(150, 100), (0, 0), (37.5, 12.5)]
        for gap, thres in params:
            tag = f"full_ln[{ci}:{name}:{cls.__name__}:gap={gap!r}:thr={thres!r}]"
            res = guarded(tag, lambda: full_ln(m, gap, thres))
            if res is not None:
                emit(tag, "is_input", res is m, "type", type(res).__name__)
                dump_map(tag + ".out", res)
            dump_map(tag + ".in_after", m)
        # defaults
        tag = f"full_ln[{ci}:{name}:defaults]"
        res = guarded(tag, lambda: full_ln(m))
        if res is not None:
            dump_map(tag + ".out", res)
        # keyword form
        tag = f"full_ln[{ci}:{name}:kw]"
        res = guarded(tag, lambda: full_ln(m, ln_as_hit_thres=30, gap=20))
        if res is not None:
            dump_map(tag + ".out", res)


def section_stack():
    for ci, cls in enumerate(MAP_CLASSES * 2):
        keys = random.choice([4, 7])
        hits, holds = random_chart(keys, random.choice([0, 3, 9]), "grid", 0.4)
        m = build_map(cls, hits, holds, True, ci % 2 == 0)
        tag = f"stack[{ci}:{cls.__name__}]"

        def full():
            st = m.stack()
            emit(tag, "ixs", [cell(i) for i in st._ixs], type(st._ixs).__name__)
            emit(tag, "unstacked", [type(o).__name__ for o in st._unstacked])
            dump_df(tag + ".stacked", st._stacked)
            st.offset += 7
            st.loc[st.offset > 300, "offset"] *= 2
            return st

        guarded(tag + ".all", full)
        dump_map(tag + ".after_all", m)
        for it_name, it in [
            ("notes", (HitList, HoldList)),
            ("hit", HitList),
            ("hold-tuple", (HoldList,)),
            ("bpm", (BpmList,)),
            ("timed", TimedList),
            ("none-match", (int,)),
            ("empty-tuple", ()),
            ("explicit-none", None),
        ]:
            def part():
                st = m.stack(it)
                emit(tag, it_name, "ixs", [cell(i) for i in st._ixs])
                emit(tag, it_name, "unstacked", [type(o).__name__ for o in st._unstacked])
                dump_df(f"{tag}.{it_name}.stacked", st._stacked)
                return st

            guarded(f"{tag}.{it_name}", part)
        dump_map(tag + ".after_parts", m)


def section_from_dict():
    from reamber.osu.lists.notes.OsuHitList import OsuHitList
    from reamber.osu.lists.notes.OsuHoldList import OsuHoldList
    from reamber.quaver.lists.notes.QuaHitList import QuaHitList
    from reamber.quaver.lists.notes.QuaHoldList import QuaHoldList
    from reamber.bms.lists.notes.BMSHitList import BMSHitList
    from reamber.o2jam.lists.notes.O2JHoldList import O2JHoldList
    from reamber.sm.lists.notes.SMHoldList import SMHoldList

    classes = [
        HitList, HoldList, BpmList, OsuHitList, OsuHoldList, QuaHitList,
        QuaHoldList, BMSHitList, O2JHoldList, SMHoldList,
    ]
    inputs = [
        ("empty-list", lambda: []),
        ("empty-dict", lambda: {}),
        ("offset-empty", lambda: {"offset": []}),
        ("dict-of-lists", lambda: {"offset": [3, 1, 2]}),
        ("dict-float", lambda: {"offset": [3.5, -1.0, 2.25]}),
        ("dict-np", lambda: {"offset": np.array([1.0, 2.0])}),
        ("records", lambda: [dict(offset=1.5), dict(offset=0)]),
        ("records-col", lambda: [dict(offset=1.5, column=2), dict(offset=0, column=0)]),
        ("records-ragged", lambda: [dict(offset=1.5, column=2), dict(offset=0)]),
        ("records-len", lambda: [dict(offset=1.0, column=1, length=5.5)]),
        ("col-first", lambda: {"column": [1, 2], "offset": [10, 20]}),
        ("bad-name", lambda: {"offset": [1], "nope": [2]}),
        ("only-bad", lambda: [dict(zzz=1)]),
        ("bpm", lambda: {"offset": [0], "bpm": [200]}),
        ("full-hold", lambda: {"offset": [1, 2], "column": [0, 1], "length": [3, 4.5]}),
    ]
    for cls in classes:
        for name, mk in inputs:
            tag = f"from_dict[{cls.__name__}:{name}]"
            d = mk()
            res = guarded(tag, lambda: cls.from_dict(d))
            if res is not None:
                emit(tag, "type", type(res).__name__)
                dump_df(tag + ".df", res.df)
                for c in res.df.columns[res.df.dtypes == object]:
                    vals = res.df[c].tolist()
                    emit(tag, "distinct-objects", c, len({id(v) for v in vals}) == len(vals))
            emit(tag, "input_after", repr(d))


section_full_ln()
section_stack()
section_from_dict()

text = "\n".join(OUT)
import os
import sys

print(f"lines={len(OUT)} raised={sum(' | RAISED | ' in l for l in OUT)}", file=sys.stderr)
if os.environ.get("DEMO_DUMP"):
    with open(os.environ["DEMO_DUMP"], "w") as f:
        f.write(text)
print("DIGEST " + hashlib.sha256(text.encode("utf-8")).hexdigest())
