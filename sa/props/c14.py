"""C14 — query, generate, convert and write operations never modify their inputs.

C14.R1 [A3]  Mut(entry) = {} for every listed operation (interprocedural).
C14.R2 [A3]  results documented as copies share no storage with the input.
"""
from __future__ import annotations

from typing import Dict, List, Set, Tuple

from ..model import AnalysisError, TIMEDLIST, SERIES, MAP, MAPSET
from .. import report as R
from ..report import RuleSpec
from .common import (CTL, converter_entries, fn_loc, short, concrete_classes)

LIST_OPS = ["__getitem__", "__iter__", "__len__", "append", "sorted", "between", "after", "before", "first_offset",
            "last_offset", "first_last_offset", "move_start_to", "move_end_to", "time_diff", "deepcopy", "describe",
            "to_numpy", "from_dict", "empty", "__eq__", "__gt__", "__ge__", "__lt__", "__le__", "__repr__",
            "head_offset", "tail_offset", "current_bpm", "snap_offsets", "to_timing_map", "ave_bpm", "write",
            "to_yaml", "iloc", "loc", "df"]
ITEM_OPS = ["deepcopy", "write_string", "to_yaml", "__eq__", "__gt__", "__repr__", "tail_offset", "beat_length",
            "metronome_length", "from_series", "props"]
MAP_OPS = ["rate", "deepcopy", "describe", "stack", "metadata", "__getitem__", "notes", "write", "write_file",
           "_write_meta", "write_meta_string_list", "_write_file_header", "_write_notes"]
MAPSET_OPS = ["rate", "deepcopy", "describe", "stack", "__getitem__", "__iter__", "items", "write", "write_file",
              "_write_metadata", "level_name"]
FUNCTIONS = [
    "reamber.algorithms.generate.full_ln.full_ln",
    "reamber.algorithms.osu.hitsound_copy.hitsound_copy",
    "reamber.algorithms.generate.sv_normalize.sv_normalize",
    "reamber.algorithms.analysis.scroll_speed.scroll_speed",
    "reamber.algorithms.utils.dominant_bpm.dominant_bpm",
    "reamber.algorithms.convert.ConvertBase.ConvertBase.cast",
    "reamber.algorithms.pattern.Pattern.Pattern.from_note_lists",
    "reamber.algorithms.pattern.Pattern.Pattern.group",
    "reamber.algorithms.pattern.Pattern.Pattern.v_mask",
    "reamber.algorithms.pattern.Pattern.Pattern.h_mask",
    "reamber.algorithms.pattern.Pattern.Pattern.__len__",
    "reamber.algorithms.pattern.combos.PtnCombo.PtnCombo.combinations",
    "reamber.algorithms.pattern.combos._PtnCChordStream._PtnCChordStream.template_chord_stream",
    "reamber.algorithms.pattern.combos._PtnCJack._PtnCJack.template_jacks",
    "reamber.algorithms.pattern.filters.PtnFilter.PtnFilterCombo.filter",
    "reamber.algorithms.pattern.filters.PtnFilter.PtnFilterChord.filter",
    "reamber.algorithms.pattern.filters.PtnFilter.PtnFilterType.filter",
    "reamber.algorithms.pattern.filters.PtnFilter.PtnFilterCombo.create",
    "reamber.algorithms.pattern.filters.PtnFilter.PtnFilterChord.create",
    "reamber.algorithms.pattern.filters.PtnFilter.PtnFilterType.create",
    "reamber.algorithms.pattern.filters.PtnFilter.PtnFilter.__and__",
    "reamber.algorithms.pattern.filters.PtnFilter.PtnFilter.__or__",
]
# declared mutators, excluded by name with the reason (DESIGN C14.R1)
DECLARED_MUTATORS = {
    "__setitem__": "documented in-place item assignment",
    "__init__": "constructor",
    "__post_init__": "constructor",
    "reset_samples": "documented in-place reset",
    "_update": "stack write-back (C12)",
    "read": "reader fills the object it creates",
}

COPIES = [
    # (function, what is promised)
    ("reamber.base.lists.TimedList.TimedList.deepcopy", "deep copy"),
    ("reamber.base.Series.Series.deepcopy", "deep copy"),
    ("reamber.base.Map.Map.deepcopy", "deep copy"),
    ("reamber.base.MapSet.MapSet.deepcopy", "deep copy"),
    ("reamber.base.Map.Map.rate", "new chart"),
    ("reamber.base.MapSet.MapSet.rate", "new mapset"),
    ("reamber.osu.OsuMap.OsuMap.rate", "new chart"),
    ("reamber.sm.SMMapSet.SMMapSet.rate", "new mapset"),
    ("reamber.algorithms.generate.full_ln.full_ln", "new chart"),
    ("reamber.algorithms.osu.hitsound_copy.hitsound_copy", "copy of the target"),
    ("reamber.base.lists.TimedList.TimedList.move_start_to", "moved copy"),
    ("reamber.base.lists.TimedList.TimedList.move_end_to", "moved copy"),
    ("reamber.base.lists.TimedList.TimedList.append", "new list (pd.concat of self and the appended value)"),
    ("reamber.base.lists.TimedList.TimedList.sorted", "new list (sort_values)"),
    # the filters select rows with a boolean mask, which copies; an integer slice of the same rows would be a view
    ("reamber.base.lists.TimedList.TimedList.after", "filtered list (boolean-mask copy)"),
    ("reamber.base.lists.TimedList.TimedList.before", "filtered list (boolean-mask copy)"),
    ("reamber.base.lists.TimedList.TimedList.between", "filtered list (boolean-mask copy)"),
    ("reamber.base.lists.notes.HoldList.HoldList.after", "filtered list (boolean-mask copy)"),
    ("reamber.base.lists.notes.HoldList.HoldList.before", "filtered list (boolean-mask copy)"),
    ("reamber.base.lists.notes.HoldList.HoldList.between", "filtered list (boolean-mask copy)"),
]


def entry_functions(ctx) -> Dict[str, List[str]]:
    """entry function qual -> list of 'Class.op' through which it is reached."""
    M = ctx.M
    out: Dict[str, List[str]] = {}

    def add(q, via):
        if q is None or CTL in q:
            return
        out.setdefault(q, []).append(via)

    for kind, ops in (("list", LIST_OPS), ("item", ITEM_OPS), ("chart", MAP_OPS), ("mapset", MAPSET_OPS)):
        for c in concrete_classes(M, kind):
            for op in ops:
                m = M.method(c, op)
                if m is not None and "@setter" not in m:
                    add(m, f"{c.split('.')[-1]}.{op}")
    for q in converter_entries(M) + FUNCTIONS:
        M.fn(q)  # anchor must exist
        add(q, short(q))
    return out


def rule_r1(ctx) -> List[R.Inst]:
    M, E = ctx.M, ctx.E
    insts = []
    for q, vias in sorted(entry_functions(ctx).items()):
        fn = M.funcs[q]
        file, line = fn_loc(M, q)
        if fn.name in DECLARED_MUTATORS:
            continue
        s = E.summary(q)
        key = short(q)
        if not s.mut:
            insts.append(R.ok("C14.R1", key, file, line, idiom="Mut = {}",
                              msg=f"reached as {', '.join(vias[:3])}{'…' if len(vias) > 3 else ''}"))
            continue
        hard = False
        for root, sites in sorted(s.mut.items()):
            p, f = root
            real = [st for st in sites if not st.byname]
            if not real:
                st = sites[0]
                insts.append(R.adv("C14.R1", f"{key}:{p}.{f}", file, st.line,
                                   f"possible mutation of '{p}' through a call resolved by name only: {st.text}"))
                continue
            hard = True
            st = real[0]
            insts.append(R.viol(
                "C14.R1", f"{key}:{p}", file, st.line,
                f"parameter '{p}'{('.' + f) if f else ''} is modified in place: {st.text}"
                + (f" ({st.via})" if st.via else ""),
                construct=st.text))
        if not hard:
            insts.append(R.ok("C14.R1", key, file, line, idiom="Mut = {} (by-name candidates only)"))
    return insts


def control_r1(ctx_holder) -> bool:
    ctx = ctx_holder["ctx"]
    E = ctx.E
    pre = "reamber._sa_controls.effects."
    must = ["mutates_frame_column", "mutates_through_stack", "mutates_through_setter", "mutates_inplace_kw"]
    clean = ["clean_copy_then_write"]
    return all(E.summary(pre + n).mut for n in must) and not any(E.summary(pre + n).mut for n in clean)


def rule_r2(ctx) -> List[R.Inst]:
    M, E = ctx.M, ctx.E
    insts = []
    for q, what in COPIES:
        fn = M.fn(q)
        file, line = fn_loc(M, q)
        s = E.summary(q)
        roots = s.ret.all()
        key = short(q)
        if not roots:
            insts.append(R.ok("C14.R2", key, file, line, idiom="Ret = {fresh}", msg=what))
        else:
            ps = sorted({f"{p}{('.' + f) if f else ''}" for p, f in roots})
            insts.append(R.viol("C14.R2", key, file, line,
                                f"result documented as a {what} may share storage with {', '.join(ps)}",
                                construct="return aliases " + ",".join(ps)))
    return insts


def control_r2(ctx_holder) -> bool:
    E = ctx_holder["ctx"].E
    pre = "reamber._sa_controls.effects."
    return bool(E.summary(pre + "returns_alias").ret.all()) and not E.summary(pre + "returns_fresh").ret.all()


_holder: dict = {}


def _wrap(fn):
    def inner(ctx):
        _holder["ctx"] = ctx
        return fn(ctx)
    return inner


def rule_r3(ctx):
    from .common import fresh_default_insts
    return fresh_default_insts(ctx, "C14.R3")



def rule_r4(ctx):
    """no hidden state: nothing computed from a chart, list or class is kept across calls where the data can change under
    it, and no class replaces its deep copy with one that shares fields (sa/props/hidden.py; expected count zero, positive
    control on every run)"""
    from .hidden import hidden_insts
    M = ctx.M
    quals = [q for q in M.funcs if q.startswith("reamber.") and CTL not in q]
    return hidden_insts(ctx, "C14.R4", quals)


def rule_r5(ctx):
    """object cells: a copy of a chart's frame shares the Python objects stored in its cells; no function walks down to such an
    object and edits it in place (sa/cells.py; expected count zero, positive control on every run)"""
    from ..cells import CellWalk
    M = ctx.M
    W = CellWalk(M)
    out = []
    n = 0
    for q in sorted(M.funcs):
        if not q.startswith("reamber.") or CTL in q:
            continue
        n += 1
        for h in W.run(q):
            sink_fn = M.funcs[h.chain[-1]]
            i = R.viol("C14.R5", f"{short(q)}:cell-edit", M.mods[sink_fn.mod].rel, h.line,
                       f"{short(q)} takes a copy of a chart frame (copy / astype / to_dict share the objects stored in object-typed "
                       f"cells), walks down to such an object and edits it in place ('{h.text}'"
                       + (f", reached through {' -> '.join(short(x) for x in h.chain[1:])}" if len(h.chain) > 1 else "") +
                       "): the chart it was given is modified", construct=f"{short(q)}: {h.text}")
            i.reach = (q,)
            out.append(i)
    if not out:
        out.append(R.ok("C14.R5", "no-cell-edit", "", 0, idiom=f"{n} functions: no in-place edit of an object reached through a frame's cells"))
    return out


def _control_r5() -> bool:
    from ..cells import control
    return control()


def rule_r6(ctx):
    """object-typed fields whose cells are mutable Python objects (declared default is a list / dict): pandas copies — copy(deep=True),
    which is what copy.deepcopy does for a frame, sort_values, concat, boolean indexing — copy the references, never the objects.
    Unless the list class copies such cells itself, every result "documented as a copy" shares them with its input."""
    M = ctx.M
    insts = []
    hook = TIMEDLIST + ".__deepcopy__" in M.funcs
    seen = set()
    for ic in sorted(c for c in M.classes if CTL not in c and M.class_kind(c) == "item"):
        for f, (dt, dflt) in M.item_fields(ic).items():
            if str(dt) == "object" and isinstance(dflt, (list, dict, set)):
                # report at the class that declares the field
                owner = next((k for k in M.mro(ic) if k in M.classes and f in (M._own_props_literal(k) or {})), ic)
                if (owner, f) in seen:
                    continue
                seen.add((owner, f))
                file = M.mods[M.classes[owner].mod].rel
                line = M.classes[owner].node.lineno
                if hook:
                    insts.append(R.undec("C14.R6", f"{owner.split('.')[-1]}.{f}", file, line,
                                         "TimedList defines __deepcopy__: whether it copies object cells is decided by C14.R4; the other "
                                         "list-producing operations are not modelled per cell"))
                else:
                    insts.append(R.viol("C14.R6", f"{owner.split('.')[-1]}.{f}", file, line,
                                        f"cells of '{f}' hold mutable objects ({type(dflt).__name__}) and no list operation copies them: the "
                                        f"results of deepcopy, rate, sorted, append, between/after/before and move_start_to/move_end_to share "
                                        f"every note's {f} object with the input (DataFrame.copy(deep=True) copies references only) — "
                                        f"result.{f}.iloc[0].append(x) changes the input chart",
                                        construct=f"{owner.split('.')[-1]}.{f}: object cells, mutable, never copied"))
    if not insts:
        insts.append(R.ok("C14.R6", "no-mutable-object-cells", "", 0, idiom="no declared field stores mutable objects in its cells"))
    return insts


def _control_r4() -> bool:
    from .hidden import control
    return control()


SPECS = [
    RuleSpec("C14.R1", _wrap(rule_r1), 140, "A3", "no parameter-rooted mutation in any listed operation",
             control=lambda: control_r1(_holder)),
    RuleSpec("C14.R2", _wrap(rule_r2), 12, "A3", "copies return only fresh state",
             control=lambda: control_r2(_holder)),
    RuleSpec("C14.R3", rule_r3, 6, "A3", "every chart gets its own list objects (fresh defaults per instance)"),
    RuleSpec("C14.R4", rule_r4, 1, "A8", "no memoised results on editable objects, no class-level memo inherited by subclasses, no sharing copy hooks",
             control=_control_r4),
    RuleSpec("C14.R6", rule_r6, 1, "A3", "copies of lists whose cells hold mutable objects copy the cells too"),
    RuleSpec("C14.R5", rule_r5, 1, "A3", "no in-place edit of the objects stored in the cells of a (copied) chart frame",
             control=_control_r5),
]

META = dict(
    explanation=(
        "Interprocedural parameter-rooted effect analysis (A3) over every function of /repo/reamber: for each "
        "listed operation the set of parameters (including self) it may modify in place must be empty, and "
        "results documented as copies must not alias an input.  Summaries (Mut, Ret, Alias) use 1-limited "
        "access paths and are iterated to a fixpoint over the call graph with class-hierarchy dispatch; the "
        "decorator-generated getters/setters of Property.py are analysed from their own bodies.  A listed "
        "operation with a non-empty Mut is reported with the statement that writes and the call chain. R4 (expected count zero, positive control): no memoised result on an editable object, no getter that stores, no class-level memo inherited by subclasses, no __deepcopy__/__copy__ that lets a mutable field through uncopied.  R5 (sa/cells.py, positive control): a copy of a chart frame shares the Python objects stored in its cells (copy / astype / to_dict / itertuples); no function walks from such a copy down to a cell object and edits it in place."),
    not_decided="nothing numeric; mutation through a method absent from the pandas model is counted as "
                "unresolved, never as a verdict",
)
