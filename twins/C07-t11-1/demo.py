"""Demo for property C07 (O2Jam reading).

Generates several dozen well-formed OJN byte strings (no measure-fraction
packages) plus edge cases, reads them with the library and prints one line
``DIGEST <hex>``: a sha256 over a canonical text dump of every result
(header fields with their types, every DataFrame with columns, dtypes, row
labels and exact float values, exception types, inputs after the call).
"""
import hashlib
import logging
import random
import struct
import warnings

warnings.simplefilter("ignore")
logging.disable(logging.CRITICAL)

import numpy as np
import pandas as pd

from reamber.o2jam.O2JBpm import O2JBpm
from reamber.o2jam.O2JEventPackage import O2JEventPackage
from reamber.o2jam.O2JHit import O2JHit
from reamber.o2jam.O2JHold import O2JHold
from reamber.o2jam.O2JMap import O2JMap
from reamber.o2jam.O2JMapSet import O2JMapSet
from reamber.o2jam.O2JMapSetMeta import O2JMapSetMeta

random.seed(120707)
OUT = []


def emit(*parts):
    OUT.append(" ".join(str(p) for p in parts))


def canon(v):
    """Canonical text of a python / numpy scalar or container, with type."""
    if isinstance(v, (float, np.floating)):
        f = float(v)
        return f"{type(v).__name__}:{f.hex() if f == f else 'nan'}"
    if isinstance(v, (list, tuple)):
        return f"{type(v).__name__}[" + ",".join(canon(x) for x in v) + "]"
    return f"{type(v).__name__}:{v!r}"


def dump_df(tag, df: pd.DataFrame):
    emit(tag, "columns", list(df.columns))
    emit(tag, "dtypes", [str(t) for t in df.dtypes])
    emit(tag, "index", type(df.index).__name__, list(df.index))
    for row in df.itertuples(index=False, name=None):
        emit(tag, "row", ",".join(canon(x) for x in row))


META_FIELDS = [
    "song_id", "signature", "encode_version", "genre", "bpm", "level",
    "event_count", "note_count", "measure_count", "package_count",
    "old_encode_version", "old_song_id", "old_genre", "bmp_size",
    "old_file_version", "title", "artist", "creator", "ojm_file",
    "cover_size", "duration", "note_offset", "cover_offset",
]


def dump_meta(tag, m):
    for name in META_FIELDS:
        emit(tag, name, canon(getattr(m, name)))


def dump_map(tag, m: O2JMap):
    emit(tag, "objs", list(m.objs.keys()), [type(v).__name__ for v in m.objs.values()])
    dump_df(tag + ".hits", m.hits.df)
    dump_df(tag + ".holds", m.holds.df)
    dump_df(tag + ".bpms", m.bpms.df)


def dump_event(e):
    d = {k: canon(v) for k, v in sorted(vars(e).items()) if k != "data"}
    return f"{type(e).__name__} {d} data={[canon(x) for x in e.data.tolist()]} " \
           f"dt={e.data.dtype} ix={list(e.data.index)}"


def dump_pkgs(tag, pkgs):
    for i, p in enumerate(pkgs):
        if p is None:
            emit(tag, i, "None")
            continue
        emit(tag, i, "pkg", canon(p.measure), canon(p.channel), len(p.events))
        for e in p.events:
            emit(tag, i, dump_event(e))


def attempt(tag, fn):
    try:
        return fn()
    except Exception as exc:  # noqa
        emit(tag, "RAISED", type(exc).__name__)
        return None


# --------------------------------------------------------------------------
# generators
# --------------------------------------------------------------------------
SLOTS = [1, 2, 3, 4, 5, 6, 7, 8, 12, 16, 24, 32, 48, 64, 96, 192]


def f32(x):
    return struct.unpack("<f", struct.pack("<f", x))[0]


def pkg_bytes(measure, channel, events):
    return struct.pack("<ihh", measure, channel, len(events)) + b"".join(events)


def note_ev(sample, vol, pan, typ):
    return struct.pack("<hBB", sample, (vol << 4) | pan, typ)


EMPTY = b"\x00\x00\x00\x00"


def gen_level(n_measures, density, n_bpm_pkgs, bpm_after_end, shuffle_measures):
    """Returns the list of package byte strings of a level, grouped per channel
    stream (order within one column matters for long-note pairing)."""
    streams = []
    for col in range(7):
        stream = []
        holding = False
        measures = list(range(n_measures))
        for ms in measures:
            if random.random() > density and not holding:
                continue
            slots = random.choice(SLOTS)
            evs = []
            for s in range(slots):
                r = random.random()
                if holding:
                    if r < 0.35:
                        evs.append(note_ev(random.randint(1, 900), random.randint(0, 15),
                                           random.randint(0, 15), 3))
                        holding = False
                    else:
                        evs.append(EMPTY)
                elif r < 0.25:
                    evs.append(note_ev(random.randint(1, 900), random.randint(0, 15),
                                       random.randint(0, 15), 0))
                elif r < 0.37:
                    evs.append(note_ev(random.randint(1, 900), random.randint(0, 15),
                                       random.randint(0, 15), 2))
                    holding = True
                elif r < 0.40:
                    # unknown note type: ignored by the reader
                    evs.append(note_ev(random.randint(1, 900), 3, 3, 4))
                elif r < 0.43:
                    # disabled slot carrying junk in the other bytes
                    evs.append(struct.pack("<hBB", 0, 0x77, random.choice([0, 2, 3])))
                else:
                    evs.append(EMPTY)
            stream.append(pkg_bytes(ms, col + 2, evs))
        if holding:
            stream.append(pkg_bytes(n_measures, col + 2,
                                    [EMPTY, note_ev(5, 1, 2, 3)]))
        streams.append(stream)

    bpm_stream = []
    for _ in range(n_bpm_pkgs):
        ms = random.randrange(0, max(1, n_measures))
        slots = random.choice(SLOTS[:10])
        evs = [struct.pack("<f", f32(random.choice([0.0, 0.0, random.uniform(30, 400),
                                                    random.randint(60, 240)])))
               for _ in range(slots)]
        bpm_stream.append(pkg_bytes(ms, 1, evs))
    for k in range(bpm_after_end):
        evs = [struct.pack("<f", f32(random.uniform(50, 300))) for _ in range(random.choice([1, 2, 4]))]
        bpm_stream.append(pkg_bytes(n_measures + 1 + k * 2, 1, evs))
    if not shuffle_measures:
        bpm_stream.sort(key=lambda b: struct.unpack("<i", b[:4])[0])
    streams.append(bpm_stream)

    # autoplay / unknown channels: read but carry no events
    auto = [pkg_bytes(random.randrange(0, max(1, n_measures)), random.choice([9, 10, 15, 22, 30]),
                      [note_ev(7, 0, 0, 0)] * random.choice([1, 2, 4]))
            for _ in range(random.randint(0, 3))]
    streams.append(auto)

    # random interleave of the streams, keeping each stream's own order
    out = []
    cursors = [0] * len(streams)
    live = [i for i, s in enumerate(streams) if s]
    while live:
        i = random.choice(live)
        out.append(streams[i][cursors[i]])
        cursors[i] += 1
        if cursors[i] == len(streams[i]):
            live.remove(i)
    return out


def padded(s: bytes, n: int) -> bytes:
    return s[:n] + b"\x00" * (n - len(s[:n]))


def gen_header(bpm, pkg_counts, title=b"Title", artist=b"Artist", creator=b"Me",
               ojm=b"o2ma100.ojm", genre_txt=b"genre"):
    h = struct.pack("<i", random.randint(-5, 100000))
    h += random.choice([b"ojn\x00", b"ojn\x00", b"new\xff", b"\x00o\x00j"])
    h += struct.pack("<f", f32(random.choice([2.9, 1.0, 0.0])))
    h += struct.pack("<i", random.randint(0, 10))
    h += struct.pack("<f", bpm)
    h += struct.pack("<4h", *[random.randint(-3, 120) for _ in range(4)])
    for _ in range(3):  # event, note, measure counts
        h += struct.pack("<3i", *[random.randint(0, 5000) for _ in range(3)])
    h += struct.pack("<3i", *pkg_counts)
    h += struct.pack("<hh", random.randint(-9, 900), random.randint(0, 30000))
    h += padded(genre_txt, 20)
    h += struct.pack("<ii", random.randint(0, 1 << 20), random.randint(0, 99))
    h += padded(title, 64) + padded(artist, 32) + padded(creator, 32) + padded(ojm, 32)
    h += struct.pack("<i", random.randint(0, 1 << 16))
    h += struct.pack("<3i", *[random.randint(0, 600) for _ in range(3)])
    h += struct.pack("<3i", *[random.randint(300, 1 << 20) for _ in range(3)])
    h += struct.pack("<i", random.randint(300, 1 << 22))
    assert len(h) == 300, len(h)
    return h


TITLES = [
    b"Plain Title", b"", b"A" * 64, b"A" * 80, b"nul\x00inside\x00twice",
    b"\x00\x00lead", b"caf\xe9 \xff\x80 high bytes", b"\xb0\xa1\xb3\xaa korean",
    b"tab\there", b"trail  ", bytes(range(1, 64)),
]


def gen_file(case):
    lvls = []
    for d in range(3):
        n_measures = random.choice([0, 1, 2, 3, 5, 8])
        if case % 7 == 3 and d == 1:
            n_measures = 0
        lvls.append(gen_level(n_measures,
                              density=random.choice([0.3, 0.7, 1.0]),
                              n_bpm_pkgs=random.choice([0, 0, 1, 2, 4]),
                              bpm_after_end=random.choice([0, 0, 1, 2]),
                              shuffle_measures=bool(case % 2)))
    bpm = f32(random.choice([120.0, 178.0, 93.5, random.uniform(40, 300)]))
    body = b"".join(b"".join(l) for l in lvls)
    trailing = random.choice([b"", b"", b"\x89PNGcover-bytes" * 3])
    hdr = gen_header(bpm, [len(l) for l in lvls],
                     title=random.choice(TITLES), artist=random.choice(TITLES),
                     creator=random.choice(TITLES), ojm=random.choice(TITLES),
                     genre_txt=random.choice(TITLES))
    return hdr + body + trailing, hdr, lvls


# --------------------------------------------------------------------------
# 1. whole files through O2JMapSet.read
# --------------------------------------------------------------------------
FILES = []
for case in range(48):
    b, hdr, lvls = gen_file(case)
    FILES.append((b, hdr, lvls))
    tag = f"file{case}"
    before = bytes(b)
    ms = attempt(tag, lambda: O2JMapSet.read(b))
    emit(tag, "input-unchanged", b == before, hashlib.sha256(b).hexdigest())
    if ms is None:
        continue
    dump_meta(tag + ".meta", ms)
    emit(tag, "nmaps", len(ms.maps), [type(m).__name__ for m in ms.maps])
    for i, m in enumerate(ms.maps):
        dump_map(f"{tag}.map{i}", m)

for path in ["rsc/maps/o2jam/o2ma120.ojn", "rsc/maps/o2jam/o2ma178.ojn"]:
    ms = attempt(path, lambda: O2JMapSet.read_file(path))
    if ms is not None:
        dump_meta(path + ".meta", ms)
        for i, m in enumerate(ms.maps):
            dump_map(f"{path}.map{i}", m)

# --------------------------------------------------------------------------
# 2. read_meta directly: object kinds, lengths, re-reading into the same object
# --------------------------------------------------------------------------
for i, (b, hdr, _) in enumerate(FILES[:12]):
    tag = f"meta{i}"
    for kind, arg in [("exact", hdr), ("long", b), ("bytearray", bytearray(hdr)),
                      ("memoryview", memoryview(hdr))]:
        m = O2JMapSetMeta()
        keep = bytes(arg)
        r = attempt(f"{tag}.{kind}", lambda: m.read_meta(arg))
        emit(f"{tag}.{kind}", "ret", canon(r), "arg-unchanged", bytes(arg) == keep)
        dump_meta(f"{tag}.{kind}", m)
    # lists are fresh objects per call, not shared with class tables
    m1, m2 = O2JMapSetMeta(), O2JMapSetMeta()
    m1.read_meta(hdr)
    m2.read_meta(hdr)
    m1.level.append(99)
    m1.package_count[0] = -1
    emit(tag, "fresh-lists", canon(m2.level), canon(m2.package_count))
    # re-read over an already filled object
    m1.read_meta(FILES[(i + 1) % 12][1])
    dump_meta(tag + ".reread", m1)

emit("tables", O2JMapSetMeta.BYTE_COUNT, O2JMapSetMeta.BYTE_SIZES, O2JMapSetMeta.BYTE_FORMATS)

hdr0 = FILES[0][1]
for n in [0, 1, 3, 4, 7, 8, 27, 28, 100, 107, 108, 171, 172, 268, 296, 299]:
    m = O2JMapSetMeta()
    m.title = "sentinel"
    attempt(f"short{n}", lambda: m.read_meta(hdr0[:n]))
    dump_meta(f"short{n}", m)  # nothing may have been assigned
for bad in ["x" * 300, None, 5, [0] * 300]:
    m = O2JMapSetMeta()
    attempt(f"badtype-{type(bad).__name__}", lambda: m.read_meta(bad))
    dump_meta(f"badtype-{type(bad).__name__}", m)

# all-NUL and all-0xFF headers
for name, raw in [("zeros", b"\x00" * 300), ("ff", b"\xff" * 300), ("seq", bytes(i % 256 for i in range(300)))]:
    m = O2JMapSetMeta()
    attempt(name, lambda: m.read_meta(raw))
    dump_meta(name, m)

# --------------------------------------------------------------------------
# 3. read_event_packages directly
# --------------------------------------------------------------------------
for i, (b, hdr, lvls) in enumerate(FILES[:16]):
    tag = f"pk{i}"
    counts = [len(l) for l in lvls]
    keep = list(counts)
    body = b[300:]
    res = attempt(tag, lambda: O2JEventPackage.read_event_packages(body, counts))
    emit(tag, "counts-unchanged", counts == keep)
    if res is not None:
        emit(tag, "nlvls", len(res), [len(r) for r in res])
        for j, r in enumerate(res):
            dump_pkgs(f"{tag}.lvl{j}", r)

# counts larger than the data (None padded), zero / negative counts, empty data
body = b"".join(FILES[1][2][0])
for name, data, counts in [
    ("over", body, [len(FILES[1][2][0]) + 3, 2, 0]),
    ("empty", b"", [0, 0, 0]),
    ("empty-want", b"", [2, 0, 1]),
    ("neg", body, [-1, 0, 1]),
    ("nocounts", body, []),
    ("trunc-head", body[:5], [1, 0, 0]),
    ("trunc-events", pkg_bytes(0, 2, [EMPTY] * 4)[:14], [1, 0, 0]),
    ("tail-without-head", pkg_bytes(0, 2, [note_ev(1, 1, 1, 3)]), [1, 0, 0]),
    ("head-over-levels", pkg_bytes(0, 4, [note_ev(1, 1, 1, 2)]) + pkg_bytes(1, 4, [note_ev(1, 2, 3, 3)]), [1, 1, 0]),
    ("neg-evcount", struct.pack("<ihh", 3, 2, -2) + pkg_bytes(1, 2, [note_ev(1, 2, 3, 0)]), [2, 0, 0]),
]:
    res = attempt("pk-" + name, lambda: O2JEventPackage.read_event_packages(data, counts))
    if res is not None:
        emit("pk-" + name, "nlvls", len(res), [len(r) for r in res])
        for j, r in enumerate(res):
            dump_pkgs(f"pk-{name}.lvl{j}", r)
        for j, r in enumerate(res):
            attempt(f"pk-{name}.map{j}", lambda: dump_map(f"pk-{name}.map{j}", O2JMap.read_pkgs(r, 120.0)))

# --------------------------------------------------------------------------
# 4. read_pkgs directly on handcrafted packages
# --------------------------------------------------------------------------


def mk_hit(measure, col):
    h = O2JHit(volume=1, pan=2, offset=0, column=col)
    h.measure = measure
    return h


def mk_hold(measure, tail, col):
    h = O2JHold(volume=3, pan=4, column=col, length=-1, offset=0)
    h.measure = measure
    h.tail_measure = tail
    return h


def mk_bpm(measure, bpm):
    b = O2JBpm(bpm=bpm, offset=0)
    b.measure = measure
    return b


def rand_pkgs(n_notes, n_bpms, span, grid):
    evs = []
    for _ in range(n_notes):
        ms = random.randrange(0, span * grid) / grid
        col = random.randrange(7)
        if random.random() < 0.4:
            evs.append(mk_hold(ms, ms + random.randrange(0, 3 * grid) / grid, col))
        else:
            evs.append(mk_hit(ms, col))
    for _ in range(n_bpms):
        ms = random.randrange(0, (span + 3) * grid) / grid
        evs.append(mk_bpm(ms, random.choice([60.0, 90.5, 120.0, 333.25, -100.0, 1e-3, 1e6])))
    random.shuffle(evs)
    pkgs = []
    while evs:
        k = random.randint(1, 4)
        pkgs.append(O2JEventPackage(measure=int(evs[0].measure), channel=2, events=evs[:k]))
        evs = evs[k:]
    if random.random() < 0.5:
        pkgs.insert(random.randint(0, len(pkgs)), O2JEventPackage(measure=0, channel=9))
    return pkgs


CASES = [(0, 0, 1, 4), (1, 0, 1, 4), (0, 1, 1, 4), (0, 5, 3, 2), (6, 0, 3, 3), (3, 3, 1, 1), (8, 8, 2, 1)]
CASES += [(random.randint(0, 30), random.randint(0, 12), random.randint(1, 9), random.choice([1, 2, 3, 4, 7, 16, 192]))
          for _ in range(40)]
for i, (nn, nb, span, grid) in enumerate(CASES):
    tag = f"rp{i}"
    pkgs = rand_pkgs(nn, nb, span, grid)
    n_before = [len(p.events) for p in pkgs]
    ids_before = [[id(e) for e in p.events] for p in pkgs]
    init = random.choice([120.0, 178.0, 45.25, -60.0, 1e-2])
    m = attempt(tag, lambda: O2JMap.read_pkgs(pkgs, init))
    emit(tag, "pkgs-shape-unchanged", n_before == [len(p.events) for p in pkgs],
         ids_before == [[id(e) for e in p.events] for p in pkgs])
    dump_pkgs(tag + ".after", pkgs)  # events get their offsets written
    if m is not None:
        dump_map(tag, m)

# zero initial tempo: division by zero as soon as anything has to be timed
for name, pk in [
    ("zero-empty", []),
    ("zero-note", [O2JEventPackage(0, 2, [mk_hit(0.0, 0)])]),
    ("zero-bpm", [O2JEventPackage(0, 1, [mk_bpm(0.0, 100.0)])]),
    ("zero-both", [O2JEventPackage(0, 1, [mk_bpm(1.0, 100.0)]), O2JEventPackage(0, 2, [mk_hit(0.5, 0)])]),
    ("zerobpm-mid", [O2JEventPackage(0, 1, [mk_bpm(1.0, 100.0), mk_bpm(2.0, 0.0), mk_bpm(3.0, 50.0)]),
                     O2JEventPackage(0, 2, [mk_hit(0.5, 0), mk_hit(1.5, 1), mk_hit(2.5, 2)])]),
    ("zerobpm-last", [O2JEventPackage(0, 1, [mk_bpm(1.0, 100.0), mk_bpm(2.0, 0.0)]),
                      O2JEventPackage(0, 2, [mk_hit(0.5, 0), mk_hit(1.5, 1)])]),
    ("none-pkg", [None]),
]:
    init = 120.0 if name.startswith("zerobpm") or name == "none-pkg" else 0.0
    m = attempt("rp-" + name, lambda: O2JMap.read_pkgs(pk, init))
    if name != "none-pkg":
        dump_pkgs("rp-" + name + ".after", pk)
    if m is not None:
        dump_map("rp-" + name, m)

text = "\n".join(OUT)
import sys
print("LINES", len(OUT), "RAISED", sum(" RAISED " in l for l in OUT), file=sys.stderr)
if len(sys.argv) > 1:
    open(sys.argv[1], "w").write(text)
print("DIGEST", hashlib.sha256(text.encode()).hexdigest())
