"""sa — repository-specific static analyses for reamberPy (see /verif/DESIGN.md).

Nothing in this package imports or executes ``reamber``; every analysis works on
``ast`` trees of the files under ``<repo>/reamber``.
"""
