"""C19 — dominant bpm, scroll speed and SV normalisation follow their definitions (DESIGN §5 C19)."""
from __future__ import annotations

import ast
from typing import Dict, List, Optional, Tuple

from ..model import AnalysisError, walk_no_nested, params_of
from .. import report as R
from ..report import RuleSpec
from .. import sym
from .. import order as O
from .. import frameops as FO
from .common import as_dict, unparse, call_name, local_defs, short, inline_locals

DOM = "reamber.algorithms.utils.dominant_bpm.dominant_bpm"
SPEED = "reamber.algorithms.analysis.scroll_speed.scroll_speed"
NORM = "reamber.algorithms.generate.sv_normalize.sv_normalize"


def _chain(e: ast.AST) -> Tuple[ast.AST, List[ast.Call]]:
    return FO.unchain(e)


_STAGE_SYN = {"concat": "concat", "append": "concat", "concatenate": "concat", "hstack": "concat",
              "sort_values": "sort_values", "sort": "sort_values", "diff": "diff", "ediff1d": "diff"}
_STAGE_NEUTRAL = {"Series", "array", "asarray", "to_numpy", "astype", "tolist"}


def _sorted_insert(c: ast.Call, fn_node):
    """np.concatenate([X[:k], [v], X[k:]]) with k = np.searchsorted(X, v, ..) -> (X, v)"""
    if not (c.args and isinstance(c.args[0], (ast.List, ast.Tuple)) and len(c.args[0].elts) == 3):
        return None
    a, mid, b = c.args[0].elts
    if not (isinstance(a, ast.Subscript) and isinstance(b, ast.Subscript) and isinstance(a.slice, ast.Slice) and isinstance(b.slice, ast.Slice) and
            unparse(a.value) == unparse(b.value) and a.slice.lower is None and b.slice.upper is None and a.slice.upper is not None and
            b.slice.lower is not None and unparse(a.slice.upper) == unparse(b.slice.lower) and isinstance(mid, (ast.List, ast.Tuple)) and len(mid.elts) == 1):
        return None
    k = a.slice.upper
    if isinstance(k, ast.Name) and fn_node is not None:
        ds = [x.value for x in ast.walk(fn_node) if isinstance(x, ast.Assign) and len(x.targets) == 1 and isinstance(x.targets[0], ast.Name) and x.targets[0].id == k.id]
        k = ds[0] if len(ds) == 1 else k
    if isinstance(k, ast.Call) and call_name(k) == "searchsorted" and len(k.args) >= 2 and unparse(k.args[0]) == unparse(a.value) and \
            unparse(k.args[1]) == unparse(mid.elts[0]):
        return a.value, mid.elts[0]
    return None


def _stages(e: ast.AST, fn_node=None):
    """the pipeline a value flows through, innermost first, across pandas method chains (`x.a().b()`) and numpy function calls
    (`np.f(x, ..)`, the flowing value being the first argument); representation changes (Series / to_numpy / asarray) are
    skipped, numpy spellings are named like their pandas counterparts"""
    calls, names = [], []
    hops = 0
    while True:
        if isinstance(e, ast.Name) and fn_node is not None and hops < 6:
            # a named intermediate bound once
            ds = [x.value for x in ast.walk(fn_node) if isinstance(x, ast.Assign) and len(x.targets) == 1 and isinstance(x.targets[0], ast.Name) and
                  x.targets[0].id == e.id]
            if len(ds) == 1:
                e = ds[0]
                hops += 1
                continue
        if isinstance(e, ast.Subscript) and isinstance(e.slice, ast.Constant) and isinstance(e.slice.value, str):
            e = e.value              # a column picked out of a (grouped) frame: the value keeps flowing
            continue
        if not isinstance(e, ast.Call):
            break
        nm = call_name(e)
        module_call = isinstance(e.func, ast.Attribute) and isinstance(e.func.value, ast.Name) and e.func.value.id in ("np", "numpy", "pd", "pandas")
        if nm == "Series" and module_call and any(k.arg == "index" for k in e.keywords) and e.args:
            # pd.Series(values, index=labels): the values labelled — set_axis(labels) spelled at construction
            calls.insert(0, e)
            names.insert(0, "set_axis")
            e = e.args[0]
            continue
        if nm == "diff" and module_call:
            # np.diff has no leading NaN to drop: diff + dropna in one
            calls[0:0] = [e, e]
            names[0:0] = ["diff", "dropna"]
            e = e.args[0] if e.args else None
            continue
        if nm == "concatenate" and module_call and _sorted_insert(e, fn_node) is not None:
            # X with v inserted at searchsorted(X, v): concat + sort in one (X sorted: checked by the order typestate)
            calls[0:0] = [e, e]
            names[0:0] = ["concat", "sort_values"]
            break
        if nm not in _STAGE_NEUTRAL:
            calls.insert(0, e)
            names.insert(0, _STAGE_SYN.get(nm, nm))
        if module_call or isinstance(e.func, ast.Name):
            if nm in ("concat",) or not e.args:
                break
            if nm in ("append", "concatenate", "hstack"):
                break          # the sources of the concatenation are its arguments: the pipeline starts here
            e = e.args[0]
        elif isinstance(e.func, ast.Attribute):
            e = e.func.value
        else:
            break
    return calls, names


def rule_r1(ctx) -> List[R.Inst]:
    M = ctx.M
    rid = "C19.R1"
    fn = M.nfn(DOM, subst=True, keep=("bpms", "s"))
    file = M.mods[fn.mod].rel
    rets = [n for n in walk_no_nested(fn.node) if isinstance(n, ast.Return) and n.value is not None]
    if len(rets) != 1:
        return [R.undec(rid, "pipeline", file, fn.node.lineno, "single return pipeline expected")]
    fb = _frame_pairing_form(rets[0].value)
    if fb is not None:
        return _r1_frame_form(ctx, fn, file, rets[0], fb)
    calls, names = _stages(rets[0].value, fn.node)
    insts = []
    want = ["concat", "sort_values", "diff", "dropna", "set_axis", "groupby", "sum", "idxmax"]
    core = [n for n in names if n in want]
    # an idempotent stage applied twice in a row is that stage (np.diff leaves no NaN, a .dropna() after it drops nothing)
    core = [n for i_, n in enumerate(core) if not (i_ and core[i_ - 1] == n and n in ("dropna", "sort_values"))]
    if core == want:
        insts.append(R.ok(rid, "pipeline:stages", file, rets[0].lineno, idiom=" -> ".join(want)))
    else:
        missing = [w for w in want if w not in core]
        # whatever the way the active times are obtained: per bpm value they are ADDED UP, and the largest total wins
        if "groupby" in names and "idxmax" in names:
            gi = names.index("groupby")
            red = [x for x in names[gi + 1:names.index("idxmax")] if x in ("sum", "max", "min", "mean", "median", "count", "size", "first", "last", "prod", "nunique", "std")]
            if red and red != ["sum"]:
                insts.append(R.viol(rid, "pipeline:stages", file, rets[0].lineno,
                                    f"the active time of a bpm value is the SUM of its intervals; the groups are reduced with '{red[0]}' — a bpm that "
                                    f"is active in several stretches is judged by one of them only", construct=f"groupby -> {' -> '.join(red)} -> idxmax"))
                return insts
        if len(missing) >= 4:
            # not this pipeline with a stage lost, but another way of computing the active times: not read here
            insts.append(R.undec(rid, "pipeline:stages", file, rets[0].lineno,
                                 f"the active time per bpm is not computed by the concat / sort / diff pipeline (found only {core}): this form is not decided"))
            return insts
        insts.append(R.viol(rid, "pipeline:stages", file, rets[0].lineno,
                            f"the definition 'total active time per bpm value, maximal' needs the stages {want} in this order; "
                            f"found {core}" + (f" (missing {missing})" if missing else " (order differs)"),
                            construct=" -> ".join(core)))
        return insts
    by = dict(zip(names, calls))
    # the span: tempo offsets plus the last object time of ALL lists
    cc = by["concat"]
    parts = cc.args[0].elts if cc.args and isinstance(cc.args[0], (ast.List, ast.Tuple)) else (
        list(cc.args[:2]) if call_name(cc) == "append" else [])
    si = _sorted_insert(cc, fn.node) if call_name(cc) == "concatenate" else None
    if si is not None:
        parts = list(si)

    def _res1(e, depth=0):
        if isinstance(e, ast.Name) and depth < 4:
            ds = [x.value for x in ast.walk(fn.node) if isinstance(x, ast.Assign) and len(x.targets) == 1 and isinstance(x.targets[0], ast.Name) and x.targets[0].id == e.id]
            if len(ds) == 1:
                return _res1(ds[0], depth + 1)
        return e
    ptxt = [unparse(_res1(p)) for p in parts]
    stack_all = [n for n in walk_no_nested(fn.node) if isinstance(n, ast.Call) and call_name(n) == "stack"]
    ok_span = len(parts) == 2 and any(".offset" in t and "max()" in t for t in ptxt) and \
        all(not (s.args or s.keywords) for s in stack_all) and stack_all
    if ok_span:
        insts.append(R.ok(rid, "span-end", file, cc.lineno, idiom="tempo offsets + max offset over the stack of all lists"))
    else:
        insts.append(R.viol(rid, "span-end", file, cc.lineno,
                            "the last interval must end at the last object of the chart (max offset over all lists)",
                            construct="; ".join(ptxt)))
    # intervals pair with the bpm of their own tempo point: order tags equal (same rule as C15.R1)
    sites = O.analyse_function(ctx, DOM)
    if isinstance(sites, Exception):
        raise AnalysisError(f"order analysis failed: {sites}")
    sa = [s for s in sites if s.what in ("set_axis", "Series(values, index=...)")]
    if len(sa) != 1:
        insts.append(R.undec(rid, "interval<->bpm", file, rets[0].lineno, "set_axis pairing site not found"))
    else:
        tags = [t for t in sa[0].tags if t.kind != "scalar"]
        sx = by["set_axis"]
        arg = (sx.args[0] if sx.args else None) if call_name(sx) == "set_axis" else next((k.value for k in sx.keywords if k.arg == "index"), None)
        while isinstance(arg, ast.Call) and call_name(arg) in ("Index", "array", "asarray", "to_numpy", "tolist") and (arg.args or isinstance(arg.func, ast.Attribute)):
            arg = arg.args[0] if arg.args else arg.func.value
        is_bpm = arg is not None and unparse(arg).endswith(".bpm")
        if len(tags) == 2 and tags[0].same_order(tags[1]) and tags[0].kind == "sorted" and is_bpm:
            insts.append(R.ok(rid, "interval<->bpm", file, sa[0].line, idiom=f"both {tags[0]}; labels are the bpm column"))
        elif not is_bpm:
            insts.append(R.viol(rid, "interval<->bpm", file, sa[0].line,
                                f"intervals must be labelled with the bpm of their tempo point, not '{unparse(arg) if arg is not None else '?'}'",
                                construct=unparse(by["set_axis"])[:120]))
        elif any(t.kind == "top" for t in tags):
            insts.append(R.undec(rid, "interval<->bpm", file, sa[0].line, "order of an operand not resolved"))
        else:
            insts.append(R.viol(rid, "interval<->bpm", file, sa[0].line,
                                "time-sorted intervals are paired by position with bpm values in another order: " +
                                " vs ".join(str(t) for t in tags), construct="set_axis: " + " vs ".join(str(t) for t in tags)))
    # group by the label (bpm value), sum, arg-max
    g = by["groupby"]
    lvl = next((k.value for k in g.keywords if k.arg == "level"), None)
    if isinstance(lvl, ast.Constant) and lvl.value == 0 and not g.args:
        insts.append(R.ok(rid, "group-by-bpm", file, g.lineno, idiom="groupby(level=0).sum().idxmax()"))
    else:
        insts.append(R.viol(rid, "group-by-bpm", file, g.lineno, "active time must be totalled per bpm VALUE (group by the label)",
                            construct=unparse(g)[-60:]))
    return insts


def _frame_pairing_form(e):
    """pd.DataFrame({K: <labels>, V: <durations>}).groupby(K)[V].sum().idxmax() -> (labels, durations, K, V, frame call, groupby call):
    the durations are paired with their labels as two columns of a frame instead of as values and index of one Series"""
    if not (isinstance(e, ast.Call) and call_name(e) == "idxmax" and isinstance(e.func, ast.Attribute)):
        return None
    sm = e.func.value
    # named aggregation: F.groupby(K).agg(total=(V, "sum"))["total"].idxmax()  ==  F.groupby(K)[V].sum().idxmax()
    if isinstance(sm, ast.Subscript) and isinstance(sm.slice, ast.Constant) and isinstance(sm.value, ast.Call) and call_name(sm.value) == "agg" and \
            not sm.value.args and len(sm.value.keywords) == 1 and sm.value.keywords[0].arg == sm.slice.value and \
            isinstance(sm.value.keywords[0].value, ast.Tuple) and len(sm.value.keywords[0].value.elts) == 2 and \
            isinstance(sm.value.keywords[0].value.elts[1], ast.Constant) and sm.value.keywords[0].value.elts[1].value == "sum":
        g0 = sm.value.func.value
        sel = ast.Subscript(value=g0, slice=sm.value.keywords[0].value.elts[0], ctx=ast.Load())
        sm = ast.copy_location(ast.Call(func=ast.Attribute(value=sel, attr="sum", ctx=ast.Load()), args=[], keywords=[]), sm)
        ast.fix_missing_locations(sm)
    if not (isinstance(sm, ast.Call) and call_name(sm) == "sum" and isinstance(sm.func, ast.Attribute) and isinstance(sm.func.value, ast.Subscript)):
        return None
    sel = sm.func.value
    g = sel.value
    if not (isinstance(sel.slice, ast.Constant) and isinstance(g, ast.Call) and call_name(g) == "groupby" and isinstance(g.func, ast.Attribute)):
        return None
    fr = g.func.value
    if not (isinstance(fr, ast.Call) and call_name(fr) == "DataFrame" and len(fr.args) == 1 and as_dict(fr.args[0]) is not None):
        return None
    fr_d = as_dict(fr.args[0])
    cols = {k.value: v for k, v in zip(fr_d.keys, fr_d.values) if isinstance(k, ast.Constant)}
    gk = g.args[0] if g.args else next((k.value for k in g.keywords if k.arg == "by"), None)
    if isinstance(gk, ast.List) and len(gk.elts) == 1:
        gk = gk.elts[0]
    if not (isinstance(gk, ast.Constant) and len(cols) == 2 and len(fr_d.keys) == 2 and gk.value in cols and sel.slice.value in cols
            and gk.value != sel.slice.value):
        return None
    return cols[gk.value], cols[sel.slice.value], gk.value, sel.slice.value, fr, g


def _r1_frame_form(ctx, fn, file, ret, fb) -> List[R.Inst]:
    M = ctx.M
    rid = "C19.R1"
    labels, durs, K, V, fr, g = fb
    insts = []
    calls, names = _stages(durs, fn.node)
    want = ["concat", "sort_values", "diff", "dropna"]
    core = [n for n in names if n in want + ["set_axis", "groupby", "sum", "idxmax"]]
    if core == want:
        insts.append(R.ok(rid, "pipeline:stages", file, ret.lineno, idiom=" -> ".join(want) + f" -> frame({K}, {V}) -> groupby({K})[{V}] -> sum -> idxmax"))
    else:
        missing = [w for w in want if w not in core]
        insts.append(R.viol(rid, "pipeline:stages", file, ret.lineno,
                            f"the definition 'total active time per bpm value, maximal' needs the stages {want} before the durations are "
                            f"paired with their bpm; found {core}" + (f" (missing {missing})" if missing else " (order differs)"),
                            construct=" -> ".join(core)))
        return insts
    by = dict(zip(names, calls))
    cc = by["concat"]
    parts = cc.args[0].elts if cc.args and isinstance(cc.args[0], (ast.List, ast.Tuple)) else (
        list(cc.args[:2]) if call_name(cc) == "append" else [])
    ptxt = [unparse(p) for p in parts]
    stack_all = [n for n in walk_no_nested(fn.node) if isinstance(n, ast.Call) and call_name(n) == "stack"]
    ok_span = len(parts) == 2 and any(".offset" in t and "max()" in t for t in ptxt) and \
        all(not (s.args or s.keywords) for s in stack_all) and stack_all
    if ok_span:
        insts.append(R.ok(rid, "span-end", file, cc.lineno, idiom="tempo offsets + max offset over the stack of all lists"))
    else:
        insts.append(R.viol(rid, "span-end", file, cc.lineno,
                            "the last interval must end at the last object of the chart (max offset over all lists)",
                            construct="; ".join(ptxt)))
    sites = O.analyse_function(ctx, DOM)
    if isinstance(sites, Exception):
        raise AnalysisError(f"order analysis failed: {sites}")
    sa = [s for s in sites if s.what == "DataFrame({...})"]
    lab = labels
    while isinstance(lab, ast.Call) and isinstance(lab.func, ast.Attribute) and lab.func.attr in _STAGE_NEUTRAL | {"to_numpy", "tolist", "to_list", "reset_index"}:
        lab = lab.func.value
    is_bpm = unparse(lab).endswith(".bpm")
    if len(sa) != 1:
        insts.append(R.undec(rid, "interval<->bpm", file, ret.lineno, "frame pairing site not found"))
    else:
        tags = [t for t in sa[0].tags if t.kind != "scalar"]
        if len(tags) == 2 and tags[0].same_order(tags[1]) and tags[0].kind == "sorted" and is_bpm:
            insts.append(R.ok(rid, "interval<->bpm", file, sa[0].line, idiom=f"both {tags[0]}; the label column is the bpm column"))
        elif not is_bpm:
            insts.append(R.viol(rid, "interval<->bpm", file, sa[0].line,
                                f"intervals must be labelled with the bpm of their tempo point, not '{unparse(labels)}'",
                                construct=unparse(fr)[:120]))
        elif any(t.kind == "top" for t in tags):
            insts.append(R.undec(rid, "interval<->bpm", file, sa[0].line, "order of an operand not resolved"))
        else:
            insts.append(R.viol(rid, "interval<->bpm", file, sa[0].line,
                                "time-sorted intervals are paired by position with bpm values in another order: " +
                                " vs ".join(str(t) for t in tags), construct="DataFrame: " + " vs ".join(str(t) for t in tags)))
    insts.append(R.ok(rid, "group-by-bpm", file, g.lineno, idiom=f"groupby('{K}')['{V}'].sum().idxmax(): totals per bpm value"))
    return insts


def _speed_statement_form(fn, bpm_var):
    """the speed computed by statements after the reference is known (`speed = F.bpm / ref; if has_sv: speed = speed * F.multiplier;
    return speed.rename(..)`): the returned expression on the path with SVs and on the path without (sa/sympaths.py), the frame
    expression F the columns are taken from, and the return statement.  None when the tail is not of that shape."""
    from .. import sympaths as SP
    top = list(fn.node.body)
    ix = next((i for i, st in enumerate(top) if isinstance(st, ast.Assign) and isinstance(st.targets[0], ast.Name) and st.targets[0].id == bpm_var), None)
    if ix is None:
        return None
    try:
        paths = SP.enumerate_paths(top[ix + 1:])
    except OverflowError:
        return None
    got = {}
    ret_st = next((st for st in reversed(top) if isinstance(st, ast.Return)), None)
    for p_ in paths:
        if p_.exit != "return" or p_.ret is None or p_.effects:
            return None
        cs = [(unparse(c), pol) for c, pol in p_.conds]
        if len(cs) != 1 or cs[0][0] != "has_sv" or cs[0][1] in got:
            return None
        e = p_.ret
        # representation / naming steps around the value
        keyed = False
        while True:
            if isinstance(e, ast.Call) and isinstance(e.func, ast.Attribute) and e.func.attr in ("rename", "copy", "astype") :
                e = e.func.value
            else:
                break
        got[cs[0][1]] = e
    if set(got) != {True, False}:
        return None
    bases = set()
    for e in got.values():
        for n in ast.walk(e):
            if isinstance(n, ast.Attribute) and n.attr in ("bpm", "multiplier"):
                bases.add(unparse(n.value))
            elif isinstance(n, ast.Subscript) and isinstance(n.slice, ast.Constant) and n.slice.value in ("bpm", "multiplier"):
                bases.add(unparse(n.value))
    if len(bases) != 1:
        return None
    base_txt = bases.pop()
    if "set_index('offset')" not in base_txt.replace('"', "'"):
        return None          # the speeds must be keyed by their time
    return got[True], got[False], base_txt, ret_st


def rule_r2(ctx) -> List[R.Inst]:
    M = ctx.M
    rid = "C19.R2"
    from ..normal import with_roles
    # the flag "this game has SVs": the local bound to hasattr(<chart>, "svs"), whatever it is called
    fn = with_roles(M.nfn(SPEED), (("has_sv", lambda n, v, st: isinstance(v, ast.Call) and call_name(v) == "hasattr" and len(v.args) == 2 and
                                     isinstance(v.args[1], ast.Constant) and v.args[1].value == "svs"),))
    file = M.mods[fn.mod].rel
    insts = []
    # speed formula
    sp = None
    for n in walk_no_nested(fn.node):
        if isinstance(n, ast.Call) and call_name(n) == "assign":
            for k in n.keywords:
                if k.arg == "speed" and isinstance(k.value, ast.Lambda):
                    sp = k.value
                elif k.arg == "speed" and isinstance(n.func, ast.Attribute) and isinstance(n.func.value, ast.Name):
                    # vectorised form: <frame>.assign(speed=<expr over the frame's columns>), the expression possibly named first
                    v_ = k.value
                    if isinstance(v_, ast.Name):
                        ds_ = [x.value for x in walk_no_nested(fn.node) if isinstance(x, ast.Assign) and len(x.targets) == 1 and
                               isinstance(x.targets[0], ast.Name) and x.targets[0].id == v_.id]
                        v_ = ds_[0] if len(ds_) == 1 else v_
                    if not isinstance(v_, ast.Name):
                        sp = ast.copy_location(ast.Lambda(args=ast.arguments(posonlyargs=[], args=[ast.arg(arg=n.func.value.id)], kwonlyargs=[],
                                                                             kw_defaults=[], defaults=[]), body=v_), k.value)
    bpm_var = None
    for n in walk_no_nested(fn.node):
        if isinstance(n, ast.Assign) and isinstance(n.targets[0], ast.Name) and any(
                isinstance(c, ast.Call) and call_name(c) == "dominant_bpm" for c in ast.walk(n.value)):
            bpm_var = n.targets[0].id
    stmt_form = _speed_statement_form(fn, bpm_var) if sp is None and bpm_var is not None else None
    if stmt_form is not None:
        with_e, no_e, base_txt, at = stmt_form
        lf = lambda n: {f"{base_txt}.bpm": "B", f"{base_txt}.multiplier": "SV", f"{base_txt}['bpm']": "B", f"{base_txt}['multiplier']": "SV",
                        bpm_var: "REF"}.get(unparse(n))   # noqa: E731
        with_sv, no_sv = sym.canon(with_e, lf), sym.canon(no_e, lf)
        if with_sv.same(sym.parse("B / REF * SV")) and no_sv.same(sym.parse("B / REF")):
            insts.append(R.ok(rid, "speed-formula", file, at.lineno, idiom="speed = bpm / reference, times the multiplier on the path where the game has SVs"))
        elif with_sv.symbols() <= {"B", "REF", "SV"} and no_sv.symbols() <= {"B", "REF", "SV"}:
            insts.append(R.viol(rid, "speed-formula", file, at.lineno,
                                "scroll speed is active bpm / reference bpm, times the active multiplier where the game has SVs",
                                construct=f"with SVs: {unparse(with_e)[:100]}; without: {unparse(no_e)[:100]}"))
        else:
            insts.append(R.undec(rid, "speed-formula", file, at.lineno, "speed formula not in modelled arithmetic"))
    elif sp is None or bpm_var is None:
        insts.append(R.undec(rid, "speed-formula", file, fn.node.lineno, "speed lambda / reference bpm not found"))
    else:
        x = sp.args.args[0].arg
        body = sp.body
        alts = {}

        def spec_eval(e, has_sv: bool):
            class T(ast.NodeTransformer):
                def visit_IfExp(self, n):
                    if unparse(n.test) == "has_sv":
                        return self.visit(n.body if has_sv else n.orelse)
                    if unparse(n.test) == "not has_sv":
                        return self.visit(n.orelse if has_sv else n.body)
                    return self.generic_visit(n)
            import copy
            return T().visit(copy.deepcopy(e))
        lf = lambda n: {f"{x}.bpm": "B", f"{x}.multiplier": "SV", bpm_var: "REF"}.get(unparse(n))   # noqa: E731
        with_sv = sym.canon(spec_eval(body, True), lf)
        no_sv = sym.canon(spec_eval(body, False), lf)
        if with_sv.same(sym.parse("B / REF * SV")) and no_sv.same(sym.parse("B / REF")):
            insts.append(R.ok(rid, "speed-formula", file, sp.lineno, idiom="speed = bpm / reference * (multiplier if the game has SVs else 1)"))
        elif with_sv.symbols() <= {"B", "REF", "SV"} and no_sv.symbols() <= {"B", "REF", "SV"}:
            insts.append(R.viol(rid, "speed-formula", file, sp.lineno,
                                "scroll speed is active bpm / reference bpm, times the active multiplier where the game has SVs",
                                construct=unparse(body)))
        else:
            insts.append(R.undec(rid, "speed-formula", file, sp.lineno, "speed formula not in modelled arithmetic"))
    # extent: the head / tail sentinels are the first and last time of ALL lists of the chart (the stack without a type filter)
    p0_ = params_of(fn.node)[0]

    def _res_local(e, depth=0):
        if isinstance(e, ast.Name) and depth < 4:
            ds = [x for x in walk_no_nested(fn.node) if isinstance(x, ast.Assign) and len(x.targets) == 1]
            for x in ds:
                t_ = x.targets[0]
                if isinstance(t_, ast.Name) and t_.id == e.id:
                    return _res_local(x.value, depth + 1)
                if isinstance(t_, ast.Tuple) and isinstance(x.value, ast.Tuple) and len(t_.elts) == len(x.value.elts):
                    for a_, b_ in zip(t_.elts, x.value.elts):
                        if isinstance(a_, ast.Name) and a_.id == e.id:
                            return _res_local(b_, depth + 1)
        if isinstance(e, ast.Call) and isinstance(e.func, ast.Attribute) and e.func.attr in ("min", "max") and not e.args:
            import copy as _c
            e2 = _c.deepcopy(e)
            e2.func.value = _res_local(e.func.value, depth + 1)
            return e2
        return e
    sent = None
    for n in walk_no_nested(fn.node):
        if isinstance(n, ast.Call) and call_name(n) == "DataFrame" and n.args and as_dict(n.args[0]) is not None:
            d_ = {k.value: v for k, v in zip(as_dict(n.args[0]).keys, as_dict(n.args[0]).values) if isinstance(k, ast.Constant)}
            if isinstance(d_.get("offset"), ast.List) and len(d_["offset"].elts) == 2 and sent is None:
                sent = (n, [unparse(_res_local(x)) for x in d_["offset"].elts])
    if sent is None:
        insts.append(R.undec(rid, "extent", file, fn.node.lineno, "head / tail sentinel rows not found"))
    else:
        want_ = [f"{p0_}.stack().offset.min()", f"{p0_}.stack().offset.max()"]
        if sent[1] == want_:
            insts.append(R.ok(rid, "extent", file, sent[0].lineno, idiom="sentinels at min / max offset over the stack of all lists"))
        else:
            insts.append(R.viol(rid, "extent", file, sent[0].lineno,
                                f"the speed series must span the whole chart: its head and tail are the first and last time over ALL lists "
                                f"({want_[0]} / …max()), found {sent[1]} — an SV or tempo point before the first of those, or an object "
                                f"after the last, is cut off or left out", construct=f"sentinels at {sent[1]}"))
    # SV precedence: concat [tempo resets with multiplier 1, sentinels, svs] then groupby(offset).last()
    sv_concat = None
    for n in walk_no_nested(fn.node):
        if isinstance(n, ast.Call) and call_name(n) == "concat" and n.args and isinstance(n.args[0], ast.List) and \
                any("svs" in unparse(p) for p in n.args[0].elts):
            sv_concat = n
    if sv_concat is None:
        insts.append(R.undec(rid, "sv-precedence", file, fn.node.lineno, "SV frame construction not found"))
    else:
        parts = [unparse(p) for p in sv_concat.args[0].elts]
        i_bpm = [i for i, p in enumerate(parts) if ".bpms.offset" in p]
        i_sv = [i for i, p in enumerate(parts) if ".svs" in p]
        reset_one = any(".bpms.offset" in p and ("'multiplier': 1" in p or '"multiplier": 1' in p or "multiplier=1," in p.replace(")", ",").replace(" ", "")) for p in parts)
        # the reducer over coincident rows
        red = None
        for n in walk_no_nested(fn.node):
            if isinstance(n, ast.Call) and call_name(n) in ("last", "first", "max", "min", "mean") and isinstance(n.func.value, ast.Call) and \
                    call_name(n.func.value) == "groupby" and any(x is sv_concat for x in ast.walk(n)):
                red = n
        gkey = unparse(red.func.value.args[0]).strip("'\"") if red is not None and red.func.value.args else ""
        n_parts = len(parts)
        sv_wins = (call_name(red) == "last" and i_sv and min(i_sv) == n_parts - 1 and len(i_sv) == 1) or \
                  (call_name(red) == "first" and i_sv == [0]) if red is not None else False
        if i_bpm and i_sv and reset_one and red is not None and gkey == "offset" and sv_wins:
            insts.append(R.ok(rid, "sv-precedence", file, sv_concat.lineno,
                              idiom="tempo points reset the multiplier to 1; a coincident SV wins (listed later, last() per offset)"))
        elif not (i_bpm and i_sv):
            insts.append(R.undec(rid, "sv-precedence", file, sv_concat.lineno,
                                 f"the parts of the SV frame ({[p_[:30] for p_ in parts]}) are not recognisably the chart's tempo points and its SVs: "
                                 f"their precedence is not decided"))
        else:
            why = []
            if not reset_one:
                why.append("tempo points do not reset the multiplier to 1 (an SV lasts only until the next SV or tempo point)")
            if red is None or gkey != "offset":
                why.append("coincident rows are not reduced per offset")
            elif not sv_wins:
                why.append(f"with '{call_name(red)}()' and the concat order {['svs' if '.svs' in p_ else ('tempo resets' if '.bpms' in p_ else 'sentinels') for p_ in parts]} "
                           f"a synthetic multiplier (tempo reset or head/tail sentinel) overrides a real SV placed at the same time")
            insts.append(R.viol(rid, "sv-precedence", file, sv_concat.lineno, "; ".join(why) or "SV precedence not as defined",
                                construct="; ".join(why)))
    # both frames are sorted by offset before the fills, and merged on offset
    sites = O.analyse_function(ctx, SPEED, normal=True)
    if isinstance(sites, Exception):
        raise AnalysisError(f"order analysis failed: {sites}")
    fills = [s for s in sites if s.kind == "reduction" and s.what in ("ffill", "bfill", "diff", "shift")]
    bad = [s for s in fills if s.tags and s.tags[0].kind == "rows"]
    und = [s for s in fills if s.tags and s.tags[0].kind == "top"]
    if bad:
        insts.append(R.viol(rid, "sorted-before-fill", file, bad[0].line,
                            f"'{bad[0].what}' propagates the active value along the rows, which are not sorted by time here "
                            f"({bad[0].tags[0]})", construct=f"{bad[0].what} on {bad[0].tags[0]}"))
    elif und or not fills:
        insts.append(R.undec(rid, "sorted-before-fill", file, fn.node.lineno, f"{len(fills)} fill/diff sites, {len(und)} unresolved"))
    else:
        insts.append(R.ok(rid, "sorted-before-fill", file, fills[0].line, idiom=f"{len(fills)} fill/diff sites on offset-sorted frames"))
    # a concat that appends head/tail sentinels has rows with EQUAL offsets by construction (the sentinel sits on the first /
    # last object, which may be a tempo point); a forward fill after the sort depends on their relative order, so the sort
    # must be stable (numpy's default quicksort keeps ties in order only for short inputs)
    for n in walk_no_nested(fn.node):
        if isinstance(n, ast.Call) and isinstance(n.func, ast.Attribute) and n.func.attr in ("ffill", "bfill"):
            root, calls = _chain(n)
            names = [c.func.attr for c in calls]
            if "concat" in names and "sort_values" in names and names.index("sort_values") < names.index(n.func.attr):
                sv = calls[names.index("sort_values")]
                between = names[names.index("concat") + 1:names.index("sort_values")]
                if any(b in ("groupby", "drop_duplicates") for b in between):
                    continue      # ties were reduced before the sort
                kind = next((k.value for k in sv.keywords if k.arg == "kind"), None)
                stable = isinstance(kind, ast.Constant) and kind.value in ("stable", "mergesort")
                key = "stable-sort-before-fill"
                if stable:
                    insts.append(R.ok(rid, key, file, sv.lineno, idiom="sort_values(..., kind='stable') before the fill"))
                else:
                    insts.append(R.viol(rid, key, file, sv.lineno,
                                        "the sentinel rows appended after the tempo rows share their offset with a tempo point whenever the "
                                        "first / last object sits on one; after an unstable sort_values the sentinel may precede that tempo "
                                        "row, the forward fill then gives it the PREVIOUS bpm and the breakpoint appears twice, once with a "
                                        "wrong speed (seen with long unsorted tempo lists)",
                                        construct="sort_values('offset') without kind='stable' before ffill on a concat with sentinels"))
                break
    return insts


def rule_r3(ctx) -> List[R.Inst]:
    M = ctx.M
    rid = "C19.R3"
    keep = tuple(sorted({n.targets[0].id for n in ast.walk(M.fn(NORM).node) if isinstance(n, ast.Assign) and
                         isinstance(n.targets[0], ast.Name) and any(isinstance(c, ast.Call) and call_name(c) == "dominant_bpm"
                                                                    for c in ast.walk(n.value))}))
    fn = M.nfn(NORM, subst=True, keep=keep)      # (the reference keeps its name)
    file = M.mods[fn.mod].rel
    insts = []
    rets = [n for n in walk_no_nested(fn.node) if isinstance(n, ast.Return) and n.value is not None]
    # the returned list is built from <frame>.loc[:, <columns>]
    a = rets[-1].value.args[0] if rets and isinstance(rets[-1].value, ast.Call) and rets[-1].value.args else None
    is_loc = isinstance(a, ast.Subscript) and isinstance(a.value, ast.Attribute) and a.value.attr == "loc"
    base = a.value.value if is_loc else None
    # resolve the frame expression: a local bound once (plus its column stores), down to a chain rooted in <chart>.bpms.df
    frame_names = set()
    stores = []           # (column, value expr, node)
    cur = base
    hops = 0
    extra_ops: List[str] = []      # operations of re-bindings `nm = nm.<op>(...)` applied after the first definition

    def unroll(e):
        """(root, [op names]) of x.a(..).loc[:, C].b(..): `.loc[:, C]` is the column projection 'project', any other subscript 'index'"""
        ops = []
        while True:
            if isinstance(e, ast.Call) and isinstance(e.func, ast.Attribute):
                ops.insert(0, (e.func.attr, e))
                e = e.func.value
            elif isinstance(e, ast.Subscript):
                full_rows = isinstance(e.value, ast.Attribute) and e.value.attr == "loc" and isinstance(e.slice, ast.Tuple) and \
                    len(e.slice.elts) == 2 and isinstance(e.slice.elts[0], ast.Slice) and e.slice.elts[0].lower is None and \
                    e.slice.elts[0].upper is None and e.slice.elts[0].step is None
                ops.insert(0, ("project" if full_rows else "index", e))
                e = e.value.value if isinstance(e.value, ast.Attribute) and e.value.attr in ("loc", "iloc") else e.value
            else:
                return e, ops
    all_ops = []
    while isinstance(cur, ast.Name) and hops < 4:
        hops += 1
        nm = cur.id
        frame_names.add(nm)
        defs = sorted((n for n in walk_no_nested(fn.node) if isinstance(n, ast.Assign) and isinstance(n.targets[0], ast.Name) and
                       n.targets[0].id == nm), key=lambda n: (n.lineno, n.col_offset))
        for n in walk_no_nested(fn.node):
            if isinstance(n, ast.Assign) and FO.col_ref(n.targets[0], nm) is not None:
                stores.append((FO.col_ref(n.targets[0], nm), n.value, n))
        cur = None
        if defs:
            later = []
            okdefs = True
            for d_ in defs[1:]:
                r_, ops_ = unroll(d_.value)
                if isinstance(r_, ast.Name) and r_.id == nm:
                    later += ops_
                else:
                    okdefs = False
            if okdefs:
                cur = defs[0].value
                all_ops = later + all_ops
    root, ops0 = unroll(cur) if cur is not None else (None, [])
    all_ops = ops0 + all_ops
    colwise = _columnwise(fn, a)
    if colwise is not None:
        return _r3_columnwise(ctx, fn, file, rets[-1], colwise) + _r3_columns(M, rid)
    pi = _project_insert(fn, a)
    if pi is not None:
        # the declared columns other than the multiplier projected out of the tempo frame, the multiplier inserted at its declared place
        frame, formula, decl, ins = pi
        fake_it = decl
        insts3 = _r3_columnwise(ctx, fn, file, rets[-1], ("_", formula, frame, fake_it))
        return insts3 + _r3_columns(M, rid)
    calls = [c for (nm_, c) in all_ops if isinstance(c, ast.Call)]
    def _renumbers(c):
        return isinstance(c, ast.Call) and c.func.attr == "reset_index" and any(
            k.arg == "drop" and isinstance(k.value, ast.Constant) and k.value.value is True for k in c.keywords)
    renumbered = any(_renumbers(c) for (_n, c) in all_ops)       # same rows, fresh labels 0..n-1: the frame no longer shares the list's labels
    extra_ops = [nm_ for (nm_, c) in all_ops if nm_ == "index" or (isinstance(c, ast.Call) and nm_ not in ("copy", "assign") and not _renumbers(c))]
    if root is None or not unparse(root).endswith(".bpms.df"):
        insts.append(R.undec(rid, "one-row-per-tempo", file, fn.node.lineno, "tempo frame not found"))
        root_txt = None
    else:
        root_txt = unparse(root)
        frame_names.add(root_txt)
        shape_ops = extra_ops
        if not shape_ops:
            insts.append(R.ok(rid, "one-row-per-tempo", file, root.lineno, idiom="a copy of the tempo frame (copy / assign): one row per tempo point, at its time"))
        else:
            insts.append(R.viol(rid, "one-row-per-tempo", file, root.lineno,
                                "normalisation must return one SV per tempo point at its time: the tempo frame may not be filtered/reshaped",
                                construct=f"tempo frame passes through {shape_ops}"))
        for c in calls:
            if c.func.attr == "assign":
                for k in c.keywords:
                    v = k.value
                    if isinstance(v, ast.Lambda) and len(v.args.args) == 1:
                        frame_names.add(v.args.args[0].arg)
                        v = v.body
                    stores.append((k.arg, v, c))
    ref = None
    for n in walk_no_nested(fn.node):
        if isinstance(n, ast.Assign) and isinstance(n.targets[0], ast.Name) and any(
                isinstance(c, ast.Call) and call_name(c) == "dominant_bpm" for c in ast.walk(n.value)):
            ref = n.targets[0].id
    mul = [(v, n) for (c, v, n) in stores if c == "multiplier"]

    foreign = []          # columns read from the tempo LIST itself (its own row labels), not from the working frame

    def col_of(n):
        if root_txt is not None and isinstance(n, ast.Attribute) and unparse(n.value) == root_txt[:-3] and n.attr != "df":
            foreign.append(n)
            return n.attr
        if root_txt is not None and isinstance(n, ast.Subscript) and unparse(n.value) == root_txt and isinstance(n.slice, ast.Constant):
            foreign.append(n)
        if isinstance(n, ast.Attribute) and unparse(n.value) in frame_names:
            return n.attr
        if isinstance(n, ast.Subscript) and unparse(n.value) in frame_names and isinstance(n.slice, ast.Constant):
            return n.slice.value
        return None
    if len(mul) != 1 or ref is None:
        insts.append(R.undec(rid, "multiplier", file, fn.node.lineno, "multiplier assignment not found"))
    else:
        lf = lambda n: ("BPM" if col_of(n) == "bpm" else ("REF" if unparse(n) == ref else None))   # noqa: E731
        r = sym.canon(mul[0][0], lf)
        if renumbered and foreign and r.symbols() <= {"REF", "BPM"}:
            insts.append(R.viol(rid, "multiplier", file, mul[0][1].lineno,
                                f"the working frame has been renumbered (reset_index(drop=True)) but the multiplier is computed from "
                                f"'{unparse(foreign[0])}', a column that still carries the tempo list's own row labels: the store aligns on labels, so "
                                f"for a tempo list whose labels are not 0..n-1 (after a filter) each tempo point gets another point's "
                                f"multiplier or NaN — multiplier x bpm is no longer the reference",
                                construct=f"multiplier = {unparse(mul[0][0])} stored into a renumbered frame"))
        elif r.same(sym.parse("REF / BPM")):
            insts.append(R.ok(rid, "multiplier", file, mul[0][1].lineno, idiom="multiplier = reference / bpm  (multiplier * bpm = reference)"))
        elif r.symbols() <= {"REF", "BPM"}:
            insts.append(R.viol(rid, "multiplier", file, mul[0][1].lineno,
                                "the multiplier times the tempo point's bpm must equal the reference bpm: multiplier = reference / bpm",
                                construct=f"multiplier = {unparse(mul[0][0])}"))
        else:
            insts.append(R.undec(rid, "multiplier", file, mul[0][1].lineno, "multiplier formula not in modelled arithmetic"))
    # projection onto the SV list's declared columns, which must exist in tempo columns + multiplier
    proj_ok = is_loc and root_txt is not None and ".df.columns" in unparse(a.slice)
    if proj_ok or (is_loc and root_txt is None):
        insts.append(R.ok(rid, "projection", file, rets[-1].lineno, idiom="SvList(frame.loc[:, <declared columns of the SV list>])") if proj_ok else
                     R.undec(rid, "projection", file, rets[-1].lineno, "projected frame not resolved"))
    else:
        insts.append(R.viol(rid, "projection", file, (rets[-1] if rets else fn.node).lineno,
                            "the result must be the tempo frame projected onto the SV list's declared columns",
                            construct=unparse(rets[-1].value)[:160] if rets else ""))
    return insts + _r3_columns(M, rid)


def _columnwise(fn, a):
    """pd.DataFrame({name: <formula> if name == "multiplier" else F[name] for name in <SV list>.df.columns}) ->
    (loop variable, formula, frame expression F, iterable) — the result is built column by column instead of copy / store / project"""
    if not (isinstance(a, ast.Call) and call_name(a) == "DataFrame" and len(a.args) == 1 and isinstance(a.args[0], ast.DictComp)):
        return None
    dc = a.args[0]
    # index=F.index with F the frame the columns are taken from: the index those columns already have
    if a.keywords and not (len(a.keywords) == 1 and a.keywords[0].arg == "index" and isinstance(a.keywords[0].value, ast.Attribute) and
                           a.keywords[0].value.attr == "index" and isinstance(dc.value, ast.IfExp) and
                           any(isinstance(x, ast.Subscript) and unparse(x.value) == unparse(a.keywords[0].value.value) for x in (dc.value.body, dc.value.orelse))):
        return None
    if len(dc.generators) != 1 or dc.generators[0].ifs or not isinstance(dc.generators[0].target, ast.Name):
        return None
    v = dc.generators[0].target.id
    if not (isinstance(dc.key, ast.Name) and dc.key.id == v and isinstance(dc.value, ast.IfExp)):
        return None
    t = dc.value.test
    body, other = dc.value.body, dc.value.orelse
    if isinstance(t, ast.Compare) and len(t.ops) == 1 and isinstance(t.ops[0], ast.NotEq):
        body, other = other, body
    elif not (isinstance(t, ast.Compare) and len(t.ops) == 1 and isinstance(t.ops[0], ast.Eq)):
        return None
    sides = [t.left, t.comparators[0]]
    if not (any(isinstance(x, ast.Name) and x.id == v for x in sides) and any(isinstance(x, ast.Constant) and x.value == "multiplier" for x in sides)):
        return None
    if not (isinstance(other, ast.Subscript) and isinstance(other.slice, ast.Name) and other.slice.id == v):
        return None
    if isinstance(body, ast.Name):
        # the formula through a local bound once
        ds = [x.value for x in walk_no_nested(fn.node) if isinstance(x, ast.Assign) and len(x.targets) == 1 and isinstance(x.targets[0], ast.Name) and
              x.targets[0].id == body.id]
        nst = sum(1 for x in ast.walk(fn.node) if isinstance(x, ast.Name) and x.id == body.id and isinstance(x.ctx, ast.Store))
        if len(ds) == 1 and nst == 1:
            body = ds[0]
    return v, body, other.value, dc.generators[0].iter


def _project_insert(fn, a):
    """X = F[DECL.drop("multiplier")](.copy()); X.insert(DECL.get_loc("multiplier"), "multiplier", <formula>); … SvList(X)
    -> (frame expression F, formula, DECL expression, the insert call)"""
    if not isinstance(a, ast.Name):
        return None
    ds = [x.value for x in walk_no_nested(fn.node) if isinstance(x, ast.Assign) and len(x.targets) == 1 and isinstance(x.targets[0], ast.Name) and x.targets[0].id == a.id]
    if len(ds) != 1:
        return None
    v = ds[0]
    while isinstance(v, ast.Call) and isinstance(v.func, ast.Attribute) and v.func.attr == "copy" and not v.args:
        v = v.func.value
    if isinstance(v, ast.Subscript) and isinstance(v.value, ast.Attribute) and v.value.attr == "loc" and isinstance(v.slice, ast.Tuple) and len(v.slice.elts) == 2 and \
            isinstance(v.slice.elts[0], ast.Slice) and v.slice.elts[0].lower is None and v.slice.elts[0].upper is None:
        frame, sel = v.value.value, v.slice.elts[1]
    elif isinstance(v, ast.Subscript):
        frame, sel = v.value, v.slice
    else:
        return None
    def get_loc_of(pos, decl):
        return isinstance(pos, ast.Call) and call_name(pos) == "get_loc" and unparse(pos.func.value) == unparse(decl) and \
            len(pos.args) == 1 and isinstance(pos.args[0], ast.Constant) and pos.args[0].value == "multiplier"
    inl = lambda e: inline_locals(fn.node, e)    # noqa: E731
    sel = inl(sel)
    by_name = isinstance(sel, ast.Call) and call_name(sel) in ("drop", "difference") and len(sel.args) == 1 and \
        unparse(sel.args[0]).strip("[]'\"") == "multiplier" and isinstance(sel.func, ast.Attribute)
    # DECL.delete(DECL.get_loc("multiplier")): the same columns, the one left out named by its position
    by_pos = isinstance(sel, ast.Call) and call_name(sel) == "delete" and len(sel.args) == 1 and isinstance(sel.func, ast.Attribute) and \
        get_loc_of(sel.args[0], sel.func.value)
    if not (by_name or by_pos):
        return None
    decl = sel.func.value
    frame = inl(frame)
    ins = [c for c in walk_no_nested(fn.node) if isinstance(c, ast.Call) and call_name(c) == "insert" and isinstance(c.func, ast.Attribute) and
           unparse(c.func.value) == a.id and len(c.args) == 3 and isinstance(c.args[1], ast.Constant) and c.args[1].value == "multiplier"]
    if len(ins) != 1:
        return None
    pos = inl(ins[0].args[0])
    if not get_loc_of(pos, decl):
        return None
    return frame, inl(ins[0].args[2]), decl, ins[0]


def _r3_columnwise(ctx, fn, file, ret, cw) -> List[R.Inst]:
    M = ctx.M
    rid = "C19.R3"
    v, formula, frame, it = cw
    insts = []
    ftxt = unparse(frame)
    root = frame
    while isinstance(root, ast.Call) and isinstance(root.func, ast.Attribute) and root.func.attr == "copy":
        root = root.func.value
    if unparse(root).endswith(".bpms.df"):
        insts.append(R.ok(rid, "one-row-per-tempo", file, ret.lineno, idiom="every column is a column of the tempo frame (or computed from one): one row per tempo point, at its time"))
    else:
        insts.append(R.viol(rid, "one-row-per-tempo", file, ret.lineno,
                            "normalisation must return one SV per tempo point at its time: the columns must come from the unfiltered tempo frame",
                            construct=f"columns taken from {ftxt}"))
    ref = None
    for n in walk_no_nested(fn.node):
        if isinstance(n, ast.Assign) and isinstance(n.targets[0], ast.Name) and any(
                isinstance(c, ast.Call) and call_name(c) == "dominant_bpm" for c in ast.walk(n.value)):
            ref = n.targets[0].id

    def col_of(n):
        if isinstance(n, ast.Attribute) and unparse(n.value) == ftxt:
            return n.attr
        if isinstance(n, ast.Subscript) and unparse(n.value) == ftxt and isinstance(n.slice, ast.Constant):
            return n.slice.value
        return None
    if ref is None:
        insts.append(R.undec(rid, "multiplier", file, fn.node.lineno, "reference bpm not found"))
    else:
        lf = lambda n: ("BPM" if col_of(n) == "bpm" else ("REF" if unparse(n) == ref else None))   # noqa: E731
        r = sym.canon(formula, lf)
        if r.same(sym.parse("REF / BPM")):
            insts.append(R.ok(rid, "multiplier", file, formula.lineno, idiom="multiplier = reference / bpm  (multiplier * bpm = reference)"))
        elif r.symbols() <= {"REF", "BPM"}:
            insts.append(R.viol(rid, "multiplier", file, formula.lineno,
                                "the multiplier times the tempo point's bpm must equal the reference bpm: multiplier = reference / bpm",
                                construct=f"multiplier = {unparse(formula)}"))
        else:
            insts.append(R.undec(rid, "multiplier", file, formula.lineno, "multiplier formula not in modelled arithmetic"))
    if ".df.columns" in unparse(it):
        insts.append(R.ok(rid, "projection", file, ret.lineno, idiom="one column per declared column of the SV list (dict comprehension over <SV list>.df.columns)"))
    else:
        insts.append(R.viol(rid, "projection", file, ret.lineno,
                            "the result must be the tempo frame projected onto the SV list's declared columns",
                            construct=unparse(ret.value)[:160]))
    return insts


def _r3_columns(M, rid) -> List[R.Inst]:
    insts = []
    for game, chart in (("osu", "reamber.osu.OsuMap.OsuMap"), ("qua", "reamber.quaver.QuaMap.QuaMap")):
        slots = M.map_slots(chart)
        sv_cols = set(M.list_columns(slots["svs"]))
        bpm_cols = set(M.list_columns(slots["bpms"])) | {"multiplier"}
        key = f"columns:{game}"
        cf = M.mods[M.cls(slots["svs"]).mod].rel
        if sv_cols <= bpm_cols:
            insts.append(R.ok(rid, key, cf, M.cls(slots["svs"]).node.lineno, idiom="SV columns ⊆ tempo columns ∪ {multiplier}"))
        else:
            insts.append(R.viol(rid, key, cf, M.cls(slots["svs"]).node.lineno,
                                f"SV list declares {sorted(sv_cols - bpm_cols)}, which the tempo frame cannot provide: the projection "
                                f"raises KeyError", construct=f"{game}: {sorted(sv_cols - bpm_cols)}"))
    return insts


def rule_r4(ctx) -> List[R.Inst]:
    M = ctx.M
    rid = "C19.R4"
    insts = []
    for q in (SPEED, NORM):
        fn = M.nfn(q, ifexp=True)
        file = M.mods[fn.mod].rel
        ov = [p for p in params_of(fn.node) if "override" in p]
        key = f"{fn.name}:override"
        asg = [n for n in walk_no_nested(fn.node) if isinstance(n, ast.Assign) and any(
            isinstance(c, ast.Call) and call_name(c) == "dominant_bpm" for c in ast.walk(n.value))]
        if len(ov) != 1 or len(asg) != 1:
            insts.append(R.undec(rid, key, file, fn.node.lineno, "override parameter / reference assignment not found"))
            continue
        v = asg[0].value
        p0 = params_of(fn.node)[0]
        good = False
        if isinstance(v, ast.IfExp) and unparse(v.test) in (ov[0], f"{ov[0]} is not None") and unparse(v.body) == ov[0] and \
                isinstance(v.orelse, ast.Call) and call_name(v.orelse) == "dominant_bpm" and unparse(v.orelse.args[0]) == p0:
            good = True
        if isinstance(v, ast.BoolOp) and isinstance(v.op, ast.Or) and unparse(v.values[0]) == ov[0] and \
                isinstance(v.values[1], ast.Call) and call_name(v.values[1]) == "dominant_bpm":
            good = True
        # the reference variable is the one used in the formula (checked by R2/R3 through its name)
        insts.append(R.ok(rid, key, file, asg[0].lineno, idiom=f"reference = {ov[0]} if given else dominant_bpm({p0})") if good else
                     R.viol(rid, key, file, asg[0].lineno,
                            "an override must replace the dominant bpm as the reference (and only when given)", construct=unparse(asg[0])))
    return insts


def rule_dep(ctx):
    """obligations inherited from shared code reached through the call graph (sa/props/deps.py)"""
    from .deps import dep_insts
    return dep_insts(ctx, "C19", [DOM, SPEED, NORM], skip_groups=())


SPECS = [
    RuleSpec("C19.R1", rule_r1, 4, "A5", "dominant bpm: stages in order, span ends at the last object, intervals paired with their own bpm, grouped by value"),
    RuleSpec("C19.R2", rule_r2, 4, "A7", "scroll speed: formula shape, SV precedence over coincident tempo reset, sorted before fills"),
    RuleSpec("C19.R3", rule_r3, 5, "A7", "sv_normalize: one row per tempo point, multiplier = reference / bpm computed on the frame's own labels, projection onto declared SV columns"),
    RuleSpec("C19.R4", rule_r4, 2, "A7", "an override replaces the reference in both"),
    RuleSpec("C19.D", rule_dep, 1, "M0", "rules of the shared code (timing engine, list classes, stacker) that the operations of this property reach"),
]

META = dict(
    explanation=(
        "dominant_bpm is a single pandas pipeline whose stages must be, in order, sort, interval, pairing with the bpm "
        "column of the same (sorted) tempo rows, grouping by value, sum, arg-max, over a span that ends at the last "
        "object of all lists; scroll_speed's formula is bpm / reference * (multiplier if the game has SVs else 1) in "
        "rational-function canonical form under both values of the capability flag, tempo points reset the multiplier "
        "to 1 and a coincident SV wins by concat order + last(), and every fill/diff acts on an offset-sorted frame; "
        "sv_normalize copies the tempo frame (one row per tempo point), sets multiplier = reference / bpm and projects "
        "onto the SV list's declared columns, which the tempo frame can provide; both functions take the override as "
        "the reference when given. The multiplier is computed on the working frame's own labels (a renumbered frame combined with a label-carrying column of the list is misaligned, R3)."),
    not_decided="arg-max ties between bpm values with equal total time, numeric values",
)
