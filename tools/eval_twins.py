#!/usr/bin/env python3
"""eval_twins.py [ID-prefix ...] — every stored behaviour-preserving refactoring (twins/<id>/patch.diff) must leave every check
silent.  Each twin is applied in a scratch worktree of /repo (created under $TMPDIR, removed afterwards; /repo itself is not
touched) and ALL checks are run against it with --root.  Prints the (twin, check) pairs that exit non-zero; exit status 1 if any.

Twins recorded against an older commit of /repo may stop applying after later fix: commits; they are reported as 'apply failed'
and do not count.  Not part of the registered check commands (it takes minutes); run it after changing a rule."""
import json, os, pathlib, subprocess, sys, tempfile
from concurrent.futures import ThreadPoolExecutor
HERE = pathlib.Path(__file__).resolve().parent.parent
ALL = "C01 C02 C03 C04 C05 C06 C07 C08 C09 C10 C12 C13 C14 C15 C16 C17 C18 C19 C20".split()
only = sys.argv[1:]
repo = os.environ.get("REPO", "/repo")


def sh(c, cwd=None):
    r = subprocess.run(c, shell=True, cwd=cwd, capture_output=True, text=True)
    return r.returncode, r.stdout + r.stderr


def work(args):
    wt, ids = args
    out = {}
    for tid in ids:
        d = HERE / "twins" / tid
        sh("git checkout -q -- . && git clean -fdq", wt)
        rc, _ = sh(f"git apply {d}/patch.diff", wt)
        if rc:
            out[tid] = "apply failed"
            continue
        al = {}
        for q in ALL:
            rc, o = sh(f"python3-vt -m sa.check {q} --root {wt} --no-write", HERE)
            if rc:
                al[q] = (rc, [l.strip()[:200] for l in o.splitlines() if l.strip().startswith("reamber/") or "ANALYSIS-ERROR" in l][:2])
        out[tid] = al
    sh("git checkout -q -- . && git clean -fdq", wt)
    return out


ids = sorted(p.name for p in (HERE / "twins").iterdir() if (p / "patch.diff").exists() and (not only or any(p.name.startswith(o) for o in only)))
n = min(16, max(1, len(ids)))
tmp = tempfile.mkdtemp(prefix="twins-")
wts = []
try:
    for i in range(n):
        wt = f"{tmp}/wt{i}"
        rc, o = sh(f"git -C {repo} worktree add --detach {wt} HEAD")
        assert rc == 0, o
        wts.append(wt)
    res = {}
    with ThreadPoolExecutor(n) as ex:
        for r in ex.map(work, [(wts[i], ids[i::n]) for i in range(n)]):
            res.update(r)
finally:
    for wt in wts:
        sh(f"git -C {repo} worktree remove --force {wt}")
    sh(f"git -C {repo} worktree prune")
    sh(f"rm -rf {tmp}")
bad = 0
for tid, al in sorted(res.items()):
    if al == "apply failed":
        print(tid, "apply failed")
    elif al:
        bad += 1
        for q, (rc, lines) in al.items():
            print(tid, q, "VIOLATION" if rc == 1 else "undecided", *lines[:1])
print(f"{len(res)} twins, {bad} with an alarm")
sys.exit(1 if bad else 0)
