"""Demo for property C18 (hitsound_copy): prints one DIGEST line.

Runs hitsound_copy on a broad deterministic set of generated osu chart pairs
(and the bundled pair) and hashes a canonical dump of: result notes/samples
(values with value types, dtypes, column order, row labels), raised exception
types, the debug log lines of the algorithm, and both inputs afterwards.
"""
import hashlib
import logging
import random
import warnings
from pathlib import Path

import numpy as np
import pandas as pd

warnings.filterwarnings("ignore")

from reamber.algorithms.osu.hitsound_copy import hitsound_copy
from reamber.osu.OsuHit import OsuHit
from reamber.osu.OsuHold import OsuHold
from reamber.osu.OsuMap import OsuMap
from reamber.osu.OsuSample import OsuSample
from reamber.osu.lists.OsuSampleList import OsuSampleList
from reamber.osu.lists.notes.OsuHitList import OsuHitList
from reamber.osu.lists.notes.OsuHoldList import OsuHoldList

OUT = []


def emit(*parts):
    OUT.append(" ".join(str(p) for p in parts))


class ListHandler(logging.Handler):
    def __init__(self):
        super().__init__(level=logging.DEBUG)
        self.lines = []

    def emit(self, record):
        self.lines.append(record.getMessage())


HANDLER = ListHandler()
_lg = logging.getLogger("reamber.algorithms.osu.hitsound_copy")
_lg.setLevel(logging.DEBUG)
_lg.addHandler(HANDLER)
_lg.propagate = False


def cell(v):
    return f"{type(v).__name__}:{v!r}"


def dump_df(tag, df):
    emit(tag, "type", type(df).__name__, "shape", df.shape)
    emit(tag, "columns", list(df.columns))
    emit(tag, "dtypes", [str(d) for d in df.dtypes])
    emit(tag, "index", type(df.index).__name__, str(df.index.dtype), list(df.index))
    for label, row in zip(df.index, df.itertuples(index=False, name=None)):
        emit(tag, "row", repr(label), [cell(v) for v in row])


def dump_map(tag, m):
    emit(tag, "objs", list(m.objs.keys()))
    dump_df(tag + ".hits", m.hits.df)
    dump_df(tag + ".holds", m.holds.df)
    dump_df(tag + ".samples", m.samples.df)
    dump_df(tag + ".bpms", m.bpms.df)
    dump_df(tag + ".svs", m.svs.df)
    emit(tag, "meta", m.title, m.version, m.circle_size, m.preview_time)
    emit(tag, "types", type(m.hits).__name__, type(m.holds).__name__, type(m.samples).__name__)


def run(name, src, tgt):
    emit("=== CASE", name)
    dump_map("src.before", src)
    dump_map("tgt.before", tgt)
    HANDLER.lines.clear()
    with warnings.catch_warnings(record=True) as caught:
        warnings.simplefilter("always")
        try:
            res = hitsound_copy(src, tgt)
        except Exception as e:  # noqa
            emit("RAISED", type(e).__name__)
            res = None
    for w in caught:
        emit("WARNING", w.category.__name__, str(w.message).splitlines()[0])
    for line in HANDLER.lines:
        emit("LOG", line)
    if res is not None:
        emit("result is tgt", res is tgt, "is src", res is src)
        dump_map("res", res)
        try:
            emit("write", res.write())
        except Exception as e:  # noqa
            emit("write RAISED", type(e).__name__)
    dump_map("src.after", src)
    dump_map("tgt.after", tgt)


FILES = ["", "", "", "a.wav", "b.ogg", "kick.wav", "snare hit.wav", "x;y.wav", ";", "c.wav;"]
VOLS = [0, 0, 10, 20, 20, 30, 55, 100, -5]


def rand_note_kwargs(rng, silent_p):
    if rng.random() < silent_p:
        return dict()
    return dict(
        hitsound_set=rng.choice([0, 0, 2, 4, 8, 6, 10, 12, 14, 1, 3, 15, 16]),
        sample_set=rng.choice([0, 0, 0, 1, 2, 3]),
        addition_set=rng.choice([0, 0, 0, 1, 2, 3]),
        custom_set=rng.choice([0, 0, 0, 1, 5]),
        volume=rng.choice(VOLS),
        hitsound_file=rng.choice(FILES),
    )


def rand_map(rng, n_hits, n_holds, times, keys, silent_p, shuffle=True, samples=0):
    m = OsuMap()
    m.circle_size = keys
    hits = [
        OsuHit(offset=rng.choice(times), column=rng.randrange(keys), **rand_note_kwargs(rng, silent_p))
        for _ in range(n_hits)
    ]
    holds = [
        OsuHold(
            offset=rng.choice(times),
            column=rng.randrange(keys),
            length=rng.choice([0.0, 1.0, 50.0, 125.5, 1000.0]),
            **rand_note_kwargs(rng, silent_p),
        )
        for _ in range(n_holds)
    ]
    if shuffle:
        rng.shuffle(hits)
        rng.shuffle(holds)
    m.hits = OsuHitList(hits)
    m.holds = OsuHoldList(holds)
    if samples:
        m.samples = OsuSampleList(
            [OsuSample(offset=rng.choice(times), sample_file=rng.choice(FILES[3:]), volume=rng.choice(VOLS)) for _ in range(samples)]
        )
    return m


def main():
    rng = random.Random(180018)
    random.seed(180018)
    np.random.seed(180018)

    # ---- bundled pair
    d = Path("tests/algorithm_tests/osu/hitsound_copy")
    src = OsuMap.read_file(d / "source.osu")
    tgt = OsuMap.read_file(d / "target.osu")
    run("bundled", src, tgt)
    src = OsuMap.read_file(d / "source.osu")
    tgt = OsuMap.read_file(d / "target.osu")
    src.holds = OsuHoldList([])
    tgt.holds = OsuHoldList([])
    run("bundled-nolns", src, tgt)
    src = OsuMap.read_file(d / "source.osu")
    run("bundled-self", src, src)

    # ---- hand-made edge cases
    T = [0.0, 100.0, 100.0, 250.5, 1000.0, -50.0]

    def mk(hits=(), holds=(), keys=4):
        m = OsuMap()
        m.circle_size = keys
        m.hits = OsuHitList(list(hits))
        m.holds = OsuHoldList(list(holds))
        return m

    run("empty-empty", mk(), mk())
    run("empty-src", mk(), mk([OsuHit(0, 0), OsuHit(100, 1, hitsound_set=2, hitsound_file="z.wav")],
                              [OsuHold(0, 2, 100, hitsound_set=4, volume=30)]))
    run("empty-tgt", mk([OsuHit(0, 0, hitsound_set=2, volume=30), OsuHit(0, 1, hitsound_file="a.wav", volume=40)]), mk())
    run("silent-src", mk([OsuHit(0, 0), OsuHit(10, 1)], [OsuHold(0, 2, 10)]),
        mk([OsuHit(0, 0, hitsound_set=2)], [OsuHold(10, 1, 5, hitsound_file="q.wav")]))
    # overflow: many named samples on one time, one target note
    run("overflow-files",
        mk([OsuHit(100, c, hitsound_file=f"s{c}.wav", volume=20 + 10 * (c % 2)) for c in range(6)], keys=7),
        mk([OsuHit(100, 0)], keys=7))
    # overflow: more default sounds than target notes
    run("overflow-default",
        mk([OsuHit(100, c, hitsound_set=hs, volume=v) for c, (hs, v) in
            enumerate([(2, 20), (2, 20), (4, 20), (8, 30), (14, 30), (2, 40), (6, 0)])], keys=7),
        mk([OsuHit(100, 0), OsuHit(100, 1)], [OsuHold(100, 2, 300)], keys=7))
    # hold-only / hit-only mixes
    run("holds-to-hits",
        mk([], [OsuHold(0, 0, 100, hitsound_set=10, volume=15, hitsound_file="h.wav"), OsuHold(50, 1, 100, hitsound_set=2)]),
        mk([OsuHit(0, 0), OsuHit(0, 1), OsuHit(50, 2)]))
    run("hits-to-holds",
        mk([OsuHit(0, 0, hitsound_set=10, volume=15, hitsound_file="h.wav"), OsuHit(50, 1, hitsound_set=2)]),
        mk([], [OsuHold(0, 0, 100), OsuHold(0, 1, 100), OsuHold(50, 2, 100)]))
    # no overlap of times
    run("no-overlap",
        mk([OsuHit(5, 0, hitsound_set=2, volume=10), OsuHit(7, 1, hitsound_file="n.wav", volume=60)]),
        mk([OsuHit(6, 0), OsuHit(8, 1)], [OsuHold(9, 2, 1)]))
    # only sample_set / addition_set / custom_set set (no sound, no file)
    run("sets-only",
        mk([OsuHit(5, 0, sample_set=2), OsuHit(5, 1, addition_set=1, volume=33), OsuHit(6, 2, custom_set=3, volume=44)]),
        mk([OsuHit(5, 0, hitsound_set=8, hitsound_file="old.wav", volume=9), OsuHit(6, 1, volume=12)]))
    # negative / zero volumes, negative times, unsorted rows, file names with ';'
    run("neg-vol-semicolon",
        mk([OsuHit(-10, 3, hitsound_set=2, volume=-5), OsuHit(-10, 2, hitsound_file="a;b.wav", volume=-5),
            OsuHit(-10, 1, hitsound_file=";", volume=0), OsuHit(-20, 0, hitsound_set=15, volume=0)]),
        mk([OsuHit(-10, 0), OsuHit(-20, 1), OsuHit(-10, 2)], [OsuHold(-10, 3, 10)]))
    # target that already carries sounds and event samples (must be reset)
    t = mk([OsuHit(0, 0, hitsound_set=2, hitsound_file="keep.wav", volume=70, sample_set=1, addition_set=2, custom_set=3)],
           [OsuHold(0, 1, 10, hitsound_set=4, volume=70)])
    t.samples = OsuSampleList([OsuSample(0, "ev.wav", 50), OsuSample(10, "ev2.wav", 60)])
    s = mk([OsuHit(0, 0, hitsound_set=8, volume=25)])
    s.samples = OsuSampleList([OsuSample(0, "srcev.wav", 50)])
    run("tgt-with-sounds", s, t)
    # float volumes via a frame-built list
    hl = OsuHitList(pd.DataFrame(dict(offset=[0.0, 0.0, 1.0], column=[0, 1, 2], hitsound_set=[2, 4, 8],
                                      sample_set=[0, 0, 0], addition_set=[0, 0, 0], custom_set=[0, 0, 0],
                                      volume=[20.0, 20.0, 30.0], hitsound_file=["", "f.wav", ""])))
    s = mk()
    s.hits = hl
    run("frame-built-float-volume", s, mk([OsuHit(0, 0), OsuHit(0, 1), OsuHit(0, 2), OsuHit(1, 0)]))
    hl = OsuHitList(pd.DataFrame(dict(offset=[0.0, 0.0, 1.0, 1.0], column=[0, 1, 2, 3], hitsound_set=[2, 4, 8, 0],
                                      sample_set=[0, 0, 0, 0], addition_set=[0, 0, 0, 0], custom_set=[0, 0, 0, 0],
                                      volume=[20.5, 20.5, -0.5, 7.25], hitsound_file=["", "f.wav", "", "g.wav"])))
    s = mk()
    s.hits = hl
    run("frame-built-fractional-volume", s, mk([OsuHit(0, 0), OsuHit(0, 1), OsuHit(0, 2), OsuHit(1, 0)]))
    # integer offsets on both sides (frame-built)
    s = mk()
    s.hits = OsuHitList(pd.DataFrame(dict(offset=[5, 5, 9], column=[0, 1, 2], hitsound_set=[2, 6, 8],
                                          sample_set=[0, 0, 0], addition_set=[0, 0, 0], custom_set=[0, 0, 0],
                                          volume=[20, 20, 30], hitsound_file=["", "i.wav", "j.wav"])))
    t = mk()
    t.hits = OsuHitList(pd.DataFrame(dict(offset=[9, 5, 5], column=[0, 1, 2], hitsound_set=[0, 0, 0],
                                          sample_set=[0, 0, 0], addition_set=[0, 0, 0], custom_set=[0, 0, 0],
                                          volume=[0, 0, 0], hitsound_file=["", "", ""])))
    run("frame-built-int-offsets", s, t)
    # non-default row labels on the inputs
    s = mk([OsuHit(0, 0, hitsound_set=2, volume=20), OsuHit(0, 1, hitsound_set=4, volume=20), OsuHit(3, 1, hitsound_file="w.wav")])
    s.hits.df.index = [10, 5, 7]
    t = mk([OsuHit(3, 0), OsuHit(0, 1), OsuHit(0, 2)], [OsuHold(0, 3, 5)])
    t.hits.df.index = [9, 8, 7]
    t.holds.df.index = [8]
    run("odd-labels", s, t)

    # ---- generated pairs
    grids = [
        [0.0, 100.0, 200.0, 300.0],
        [0.0, 0.0, 0.0, 50.0],
        [float(x) for x in range(0, 2000, 125)],
        [-100.0, -0.5, 0.0, 0.5, 33.333, 1e6],
        [10.0],
    ]
    case = 0
    for keys in (1, 4, 7, 10):
        for grid in grids:
            for (ns_hit, ns_hold, nt_hit, nt_hold) in [(6, 3, 6, 3), (12, 0, 3, 0), (0, 8, 5, 5), (15, 10, 2, 1), (4, 4, 0, 6), (3, 2, 20, 10)]:
                case += 1
                if case % 2 == 0 and keys in (7, 10):
                    continue
                src = rand_map(rng, ns_hit, ns_hold, grid, keys, silent_p=rng.choice([0.0, 0.3, 0.7]), samples=rng.choice([0, 2]))
                tgt = rand_map(rng, nt_hit, nt_hold, grid + [grid[0] + 1.0], keys, silent_p=rng.choice([0.5, 1.0]), samples=rng.choice([0, 3]))
                run(f"gen-{case}-k{keys}", src, tgt)

    text = "\n".join(OUT)
    print("DIGEST", hashlib.sha256(text.encode("utf8")).hexdigest())
    import os
    if os.environ.get("DEMO_DUMP"):
        Path(os.environ["DEMO_DUMP"]).write_text(text, encoding="utf8")


if __name__ == "__main__":
    main()
