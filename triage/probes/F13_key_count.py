import warnings; warnings.filterwarnings("ignore")
from reamber.sm.SMMapSet import SMMapSet
from reamber.algorithms.convert.SMToOsu import SMToOsu
from reamber.algorithms.convert.O2JToSM import O2JToSM
from reamber.o2jam.O2JMapSet import O2JMapSet
from reamber.osu.OsuMap import OsuMap
sms = SMMapSet.read_file("rsc/maps/sm/Escapes.sm")
sms.maps[0].chart_type = "kb7-single"
sms.maps[0].hits.column = [i % 7 for i in range(len(sms.maps[0].hits))]
osu = SMToOsu.convert(sms)[0]
back = OsuMap.read(osu.write())
print("circle", osu.circle_size, sorted(set(back.hits.column)))
o = O2JMapSet.read_file("rsc/maps/o2jam/o2ma178.ojn")
m = O2JToSM.convert_merge(o)
print([x.chart_type for x in m.maps])
