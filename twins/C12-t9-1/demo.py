"""Demo for C12 / change 1: Map.stack and Map.Stacker (reamber/base/Map.py).

Run:  cd /tmp/wt7/C12 && PYTHONPATH=/tmp/wt7/C12 /venv/bin/python demo.py
Prints one line ``DIGEST <sha256>`` over a canonical dump of every result.
"""
import hashlib
import os
import random
import sys
import warnings

import numpy as np
import pandas as pd

ROOT = os.environ.get("REAMBER_ROOT", os.getcwd())
sys.path.insert(0, ROOT)

from reamber.base.Map import Map  # noqa: E402
from reamber.base.MapSet import MapSet  # noqa: E402
from reamber.base.lists.BpmList import BpmList  # noqa: E402
from reamber.base.lists.TimedList import TimedList  # noqa: E402
from reamber.base.lists.notes.HitList import HitList  # noqa: E402
from reamber.base.lists.notes.HoldList import HoldList  # noqa: E402
from reamber.base.lists.notes.NoteList import NoteList  # noqa: E402
from reamber.bms.BMSMap import BMSMap  # noqa: E402
from reamber.o2jam.O2JMapSet import O2JMapSet  # noqa: E402
from reamber.osu.OsuMap import OsuMap  # noqa: E402
from reamber.osu.lists.OsuSvList import OsuSvList  # noqa: E402
from reamber.quaver.QuaMap import QuaMap  # noqa: E402
from reamber.sm.SMMapSet import SMMapSet  # noqa: E402

random.seed(20261001)
RNG = np.random.default_rng(20261001)
OUT = []


def emit(*parts):
    OUT.append(" | ".join(str(p) for p in parts))


def dump_index(ix):
    return [type(ix).__name__, str(ix.dtype), repr(ix.tolist())]


def dump_df(df):
    if isinstance(df, pd.Series):
        return ["Series", repr(df.name), str(df.dtype), dump_index(df.index),
                repr(df.to_numpy(dtype=object).tolist())]
    return ["DataFrame", repr(list(df.columns)), [str(t) for t in df.dtypes],
            dump_index(df.index), repr(df.to_numpy(dtype=object).tolist())]


def dump_map(tag, m):
    emit(tag, type(m).__name__, list(m.objs.keys()))
    for k, v in m.objs.items():
        emit(tag, k, type(v).__name__, len(v), dump_df(v.df))


def dump_stack(tag, s):
    emit(tag, type(s).__qualname__, [type(o).__name__ for o in s._unstacked],
         dump_df(s._stacked))


def guarded(tag, fn):
    """Runs fn, records its result / exception type and the warnings it raised."""
    with warnings.catch_warnings(record=True) as ws:
        warnings.simplefilter("always")
        try:
            r = fn()
            if isinstance(r, (pd.DataFrame, pd.Series)):
                emit(tag, "ok", dump_df(r))
            else:
                emit(tag, "ok", type(r).__name__)
        except Exception as e:  # noqa
            emit(tag, "raised", type(e).__name__)
            r = None
    emit(tag, "warnings", sorted({w.category.__name__ for w in ws}))
    return r


# ------------------------------------------------------------------ charts
def base_charts():
    with warnings.catch_warnings():
        warnings.simplefilter("ignore")
        charts = [
            ("osu-gravity", OsuMap.read_file(f"{ROOT}/rsc/maps/osu/Gravity.osu")),
            ("osu-hitsound", OsuMap.read_file(f"{ROOT}/rsc/maps/osu/AvengerHitsoundFile.osu")),
            ("qua-neuro", QuaMap.read_file(f"{ROOT}/rsc/maps/qua/NeuroCloud.qua")),
            ("qua-carry", QuaMap.read_file(f"{ROOT}/rsc/maps/qua/CarryMeAway.qua")),
            ("bms-searoad", BMSMap.read_file(f"{ROOT}/rsc/maps/bms/searoad.bml")),
            ("bms-take", BMSMap.read_file(f"{ROOT}/rsc/maps/bms/take.bms")),
        ]
        sms = SMMapSet.read_file(f"{ROOT}/rsc/maps/sm/Escapes.sm")
        o2j = O2JMapSet.read_file(f"{ROOT}/rsc/maps/o2jam/o2ma178.ojn")
    charts += [(f"sm-escapes{i}", m) for i, m in enumerate(sms.maps)]
    charts += [(f"o2j-178-{i}", m) for i, m in enumerate(o2j.maps)]
    return charts, sms, o2j


def variant(m, kind):
    """Derives a small chart from a parsed one; kind selects the edge case."""
    m = m.deepcopy()
    for k, lst in m.objs.items():
        n = len(lst)
        if kind == "head":  # first rows, default labels
            lst.df = lst.df.iloc[: min(n, 9)].reset_index(drop=True)
        elif kind == "sample":  # random rows keep their original (non-default) labels
            take = sorted(random.sample(range(n), min(n, 8)))
            lst.df = lst.df.iloc[take].copy()
        elif kind == "shuffled":  # unsorted rows, shuffled labels
            take = random.sample(range(n), min(n, 7))
            lst.df = lst.df.iloc[take].copy()
        elif kind == "strlabels":  # string row labels
            df = lst.df.iloc[: min(n, 5)].copy()
            df.index = [f"{k}{i}" for i in range(len(df))]
            lst.df = df
        elif kind == "duplabels":  # duplicated row labels
            df = lst.df.iloc[: min(n, 6)].copy()
            df.index = [7] * len(df)
            lst.df = df
        elif kind == "nonotes":  # hits and holds empty
            lst.df = lst.df.iloc[: (0 if k in ("hits", "holds") else min(n, 4))].copy()
        elif kind == "allempty":
            lst.df = lst.df.iloc[:0].copy()
        elif kind == "single":  # one row per list, bpms empty
            lst.df = lst.df.iloc[: (0 if k == "bpms" else 1)].copy()
        else:
            raise AssertionError(kind)
    return m


KINDS = ["head", "sample", "shuffled", "strlabels", "duplabels", "nonotes", "allempty", "single"]
COMMON = ["offset", "column", "length", "bpm", "metronome"]


def random_mask(n):
    mode = random.choice(["rand", "none", "all", "first", "last", "alt"])
    if mode == "rand":
        return RNG.random(n) < 0.5
    if mode == "none":
        return np.zeros(n, dtype=bool)
    if mode == "all":
        return np.ones(n, dtype=bool)
    if mode == "first":
        return np.arange(n) == 0
    if mode == "last":
        return np.arange(n) == n - 1
    return np.arange(n) % 2 == 0


def stack_ops(tag, m, s, n_ops):
    """A random finite sequence of stack operations on stacker s of map m."""
    cls_props = [p for c in type(s).__mro__ for p in c.__dict__.get("_props", [])]
    for step in range(n_ops):
        t = f"{tag}.{step}"
        cols = [c for c in s._stacked.columns if c != "index"]
        num = [c for c in cols if s._stacked[c].dtype.kind in "if"]
        op = random.choice(["arith", "arith", "cond1", "cond1", "condN", "condser", "get",
                            "newcol", "missing", "restack", "direct", "assign"])
        if op == "arith" and num:
            c = random.choice([p for p in cls_props if p in num] or num)
            k = random.choice([2, 0.5, -1, 0, 3, 1.25])
            how = random.choice("+-*/")
            emit(t, "arith", c, how, k)

            def f():
                if how == "+":
                    setattr(s, c, getattr(s, c) + k)
                elif how == "-":
                    s[c] -= k
                elif how == "*":
                    setattr(s, c, getattr(s, c) * k)
                else:
                    s[c] = s[c] / (k or 4)
            guarded(t, f)
        elif op == "assign":
            c = random.choice(cols)
            emit(t, "assign-const", c)
            guarded(t, lambda: s.__setitem__(c, s[c].iloc[::-1].to_numpy()))
        elif op == "cond1" and num:
            c = random.choice(num)
            mask = random_mask(len(s._stacked))
            k = random.choice([1, -2.5, 1000])
            emit(t, "cond1", c, mask.tolist(), k)

            def f():
                s.loc[mask, c] += k
            guarded(t, f)
        elif op == "condN" and len(num) >= 2:
            cs = random.sample(num, 2)
            mask = random_mask(len(s._stacked))
            emit(t, "condN", cs, mask.tolist())

            def f():
                s.loc[mask, cs] *= 2
            guarded(t, f)
        elif op == "condser" and "offset" in cols:
            c = random.choice(num or cols)
            emit(t, "condser", c)

            def f():
                thr = s.offset.median() if len(s.offset) else 0
                s.loc[(s.offset >= thr) & ~s[c].isna(), c] = 42
            guarded(t, f)
        elif op == "get":
            c = random.choice(cols)
            emit(t, "get", c)
            guarded(t, lambda: s[c])
            guarded(t, lambda: s.loc[random_mask(len(s._stacked)), [c]])
        elif op == "newcol":
            emit(t, "newcol")
            guarded(t, lambda: s.__setitem__("extra_c12", 1.5))
        elif op == "missing":
            emit(t, "missing")
            guarded(t, lambda: s["does_not_exist"])
            guarded(t, lambda: getattr(s, "no_such_prop"))

            def f():
                s.loc[:, "does_not_exist"] += 1
            guarded(t, f)
        elif op == "restack":
            emit(t, "restack")
            s = guarded(t, lambda: m.stack()) or s
        elif op == "direct":
            # edit a list directly: the old stack must not see it, a new one must
            emit(t, "direct")
            lst = random.choice(list(m.objs.values()))

            def f():
                lst.offset = lst.offset + 1
            guarded(t, f)
        else:
            emit(t, "skip", op)
        dump_map(t, m)
        dump_stack(t, s)
    return s


def main():
    charts, sms, o2j = base_charts()
    n = 0
    # 1. every game x every variant: full stack with a random op sequence
    for name, m0 in charts:
        for kind in KINDS:
            n += 1
            m = variant(m0, kind)
            tag = f"A/{name}/{kind}"
            dump_map(tag + "/before", m)
            s = guarded(tag + "/stack", lambda: m.stack())
            if s is None:
                continue
            dump_stack(tag + "/stack0", s)
            stack_ops(tag, m, s, 5)
            # stacking again gives the lists as they are now
            s2 = guarded(tag + "/stack-again", lambda: m.stack())
            if s2 is not None:
                dump_stack(tag + "/stack-again", s2)
    # 2. stacks restricted to chosen list types
    selections = [None, (HitList,), (HoldList,), (HitList, HoldList), NoteList, (BpmList,),
                  (NoteList, BpmList), TimedList, (OsuSvList,), (), (int,), [HitList], "hits"]
    for name, m0 in charts:
        for kind in ("head", "sample", "nonotes", "allempty"):
            for sel in selections:
                n += 1
                m = variant(m0, kind)
                tag = f"B/{name}/{kind}/{getattr(sel, '__name__', None) or repr(sel)}"
                s = guarded(tag + "/stack", lambda: m.stack(sel))
                if s is None:
                    dump_map(tag + "/after-fail", m)
                    continue
                dump_stack(tag + "/stack0", s)
                stack_ops(tag, m, s, 3)
                s_kw = guarded(tag + "/kw", lambda: m.stack(include_types=sel))
                if s_kw is not None:
                    dump_stack(tag + "/kw", s_kw)
    # 3. Stacker built directly from a list of lists (also empty / repeated lists)
    for name, m0 in charts[:6]:
        m = variant(m0, "head")
        lists = list(m.objs.values())
        for pick in ([], lists[:1], lists[::-1], [lists[0], lists[0]]):
            n += 1
            tag = f"C/{name}/{len(pick)}"
            s = guarded(tag, lambda: type(m).Stacker(pick))
            if s is not None:
                dump_stack(tag, s)
                guarded(tag + "/op", lambda: s.__setitem__("offset", s["offset"] * 3))
                dump_map(tag, m)
                dump_stack(tag + "/after", s)
    # 4. mapset stacks (per chart) and rate(), which is built on the stack
    for name, ms0 in (("sm", sms), ("o2j", o2j)):
        for kind in ("head", "sample", "nonotes"):
            n += 1
            ms = ms0.deepcopy()
            ms.maps = [variant(m, kind) for m in ms.maps]
            tag = f"D/{name}/{kind}"
            st = guarded(tag + "/stack", lambda: ms.stack())
            if st is None:
                continue

            def f():
                st.offset *= 2
                st.column += 1
            guarded(tag + "/ops", f)
            guarded(tag + "/get", lambda: st.offset)
            for i, m in enumerate(ms.maps):
                dump_map(f"{tag}/{i}", m)
            rated = guarded(tag + "/rate", lambda: ms.rate(1.5))
            if rated is not None:
                for i, m in enumerate(rated.maps):
                    dump_map(f"{tag}/rated{i}", m)
            for i, m in enumerate(ms.maps):
                dump_map(f"{tag}/after-rate{i}", m)
    for name, m0 in charts:
        for kind in ("head", "shuffled", "nonotes", "allempty"):
            n += 1
            m = variant(m0, kind)
            tag = f"E/{name}/{kind}/rate"
            r = guarded(tag, lambda: m.rate(random.choice([0.5, 1.1, 2])))
            dump_map(tag + "/input", m)
            if r is not None:
                dump_map(tag + "/result", r)
    # 5. plain base Map
    for hits, holds, bpms in [([], [], []), ([1.0], [], []), ([3.0, 1.0, 2.0], [5.0, 4.0], [0.0])]:
        n += 1
        m = Map()
        m.hits = HitList.from_dict(dict(offset=hits, column=list(range(len(hits)))))
        m.holds = HoldList.from_dict(dict(offset=holds, column=[0] * len(holds),
                                          length=[10.0] * len(holds)))
        m.bpms = BpmList.from_dict(dict(offset=bpms, bpm=[120.0] * len(bpms)))
        tag = f"F/base/{len(hits)}-{len(holds)}-{len(bpms)}"
        s = guarded(tag + "/stack", lambda: m.stack())
        if s is not None:
            dump_stack(tag, s)
            stack_ops(tag, m, s, 6)
        ms = MapSet([m, m.deepcopy()])
        st = guarded(tag + "/msstack", lambda: ms.stack())
        if st is not None:
            def f():
                st.offset += 7
            guarded(tag + "/msop", f)
            for i, mm in enumerate(ms.maps):
                dump_map(f"{tag}/ms{i}", mm)
    emit("scenarios", n)
    text = "\n".join(OUT)
    if os.environ.get("DEMO_DUMP"):
        with open(os.environ["DEMO_DUMP"], "w") as fh:
            fh.write(text)
    print("DIGEST", hashlib.sha256(text.encode("utf-8", "backslashreplace")).hexdigest())


if __name__ == "__main__":
    main()
